(** C01 — Each generated input is benchmarked once; each value is dropped once.
    Statements only; each closed by [exact] of a lemma in Proofs/Sample*.v. *)
From DivanV Require Import Base.Res Model.Sample Proofs.Sample Proofs.SamplePlace Proofs.SamplePanic Proofs.SampleMeaning Proofs.SampleRounds Proofs.SampleCounters.
Local Open Scope nat_scope.

(** For all six entry points [e], all declared type shapes [sh] ({ZST, sized} x
    {Drop, no Drop} for input and output), every sample size [n >= 0], every set
    of input counters [cs], whatever the benchmarked function does with an input
    it owns ([u]), with or without other threads ([multi]):

    - the sample program never misuses a cell (no read of an uninitialised or
      moved-out cell, no second drop, no thin-air ZST that is not the
      re-materialisation of a forgotten one), and ends with exactly the cells of
      lent inputs / outputs with destructors dropped;
    - its observable events satisfy the monitor [sb_sample]: every value is
      generated once, then shown exactly once to each existing counter, all
      before the tally is cleared and the start timestamp; passed to exactly one
      call, in order, between the timestamps; every output with a destructor and
      every lent input with a destructor is dropped exactly once, after the end
      timestamp and the tally snapshot, output [i] before input [i]; an input
      given by value is never dropped by the framework. *)
Theorem C01_sample_discipline : forall e sh n cs u multi,
  (exists st, exec (sample_prog e sh n cs u) empty_store = SOk st
              /\ (forall j, j < n -> st j = (final_in e sh u, final_out e sh))
              /\ (forall j, n <= j -> st j = (IUninit, OUninit)))
  /\ sb_sample (mcfg_of e sh n cs) (obs (vis_of e sh multi) (sample_prog e sh n cs u)) = true.
Proof. intros. split. exact (exec_sample_ok e sh n cs u). exact (sb_sample_model e sh n cs u multi). Qed.
Print Assumptions C01_sample_discipline.

(** What the final cell states are. *)
Theorem C01_final_input_state : forall e sh u,
  final_in e sh u =
  if by_ref e then
    (if i_drop (eff_shape e sh) then IDropped
     else match path_of (eff_shape e sh) with PathZst => IForgotten | _ => IInit end)
  else if u then IDropped else IMoved.
Proof. exact final_in_meaning. Qed.
Print Assumptions C01_final_input_state.

Theorem C01_final_output_state : forall e sh,
  o_drop (eff_shape e sh) = true -> final_out e sh = ODropped.
Proof. exact final_out_meaning. Qed.
Print Assumptions C01_final_output_state.

(** The [_local] forms use the calling thread only, whatever [r_aux] is. *)
Theorem C01_local_on_caller : forall c,
  is_local (r_entry c) = true -> forall t, In t (run_threads c) -> t = 0.
Proof. exact local_on_caller. Qed.
Print Assumptions C01_local_on_caller.

(** An event (thread, round, action) happens iff the round is one of the run's
    rounds, the thread one of the effective threads and the action one of the
    sample's: every thread records every round, nobody else does anything. *)
Theorem C01_placement : forall c t rd a,
  In (t, rd, a) (run_events c) <->
  rd < rounds c /\ t <= eff_aux c /\
  In a (sample_prog (r_entry c) (r_shape c) (eff_size c) (r_cs c) (r_udrop c)).
Proof. exact run_events_in. Qed.
Print Assumptions C01_placement.

(** Every identifier in the log of thread [t] was made on thread [t]. *)
Theorem C01_thread_affine : forall c t,
  (N.of_nat (rounds c * eff_size c) < 4294967296)%N ->
  Forall (fun e => ev_thread_ok t e = true) (thread_log c t).
Proof. exact thread_affine. Qed.
Print Assumptions C01_thread_affine.

(** Panic safety.  For every entry point, shape, sample size, counter set and
    every index [k] at which the benchmarked function ([PanicCall]) or the
    generator ([PanicGen]) panics: the part of the sample that ran, the
    unwinding callee's disposal of an argument it owns, and the destructors that
    unwinding runs in the loop (none: the deferred store frees a [Vec] of
    [MaybeUninit] cells, thin-air cells are [MaybeUninit], the barrier guard only
    performs the waits of the sample that were not reached: [GuardWait] actions,
    counted by [C01_unwind_after_call_panic] / [C01_unwind_after_gen_panic]) never
    misuse a cell; the events seen by user code and destructors
    contain no second drop of a value and no use of a dropped value.  Values may
    be leaked (the statement says nothing about the final store). *)
Theorem C01_panic_safe : forall e sh n cs u multi site k,
  (exists st, exec (cut_prog site k (sample_prog e sh n cs u)) empty_store = SOk st)
  /\ sb_nodouble_local (obs (vis_of e sh multi) (cut_prog site k (sample_prog e sh n cs u))) = true.
Proof. exact panic_safe. Qed.
Print Assumptions C01_panic_safe.

(** The cut is the program up to the call with index [k], then that call unwinding. *)
Theorem C01_cut_is_prefix : forall k l1 r c l2,
  Forall (fun a => match a with Call i _ _ => i <> k | _ => True end) l1 ->
  cut_at_call k (l1 ++ Call k r c :: l2) = l1 ++ [CallPanic k r c].
Proof. exact cut_at_call_prefix. Qed.
Print Assumptions C01_cut_is_prefix.

(** In general: whatever list of loop actions respects the cell discipline of
    [exec] shows user code no double drop and no use after drop ([rel] ties the
    monitor's "dropped" flags to dropped cells). *)
Theorem C01_discipline_implies_nodouble : forall v l s s' nd,
  exec l s = SOk s' -> rel s nd -> exists nd', ndl_exec (obs v l) nd = Some nd' /\ rel s' nd'.
Proof. exact exec_implies_nodouble. Qed.
Print Assumptions C01_discipline_implies_nodouble.

Theorem C01_nodouble_sample : forall e sh n cs u multi,
  sb_nodouble_local (obs (vis_of e sh multi) (sample_prog e sh n cs u)) = true.
Proof. exact nodouble_sample. Qed.
Print Assumptions C01_nodouble_sample.

(** * What the monitor [sb_sample] means, for ANY event list it accepts (the
    model's by [C01_sample_discipline]; an implementation log when the
    violation search says [true]). [count P l] is the number of events of [l]
    satisfying [P]. *)

Theorem C01_meaning_generated_once : forall m l,
  sb_sample m l = true -> m_gen m = true ->
  forall i, count (is_gen_of i) l = if i <? m_n m then 1 else 0.
Proof. exact gen_once. Qed.
Print Assumptions C01_meaning_generated_once.

Theorem C01_meaning_counted_once : forall m l,
  sb_sample m l = true -> m_gen m = true ->
  forall k i, count (is_count_of k i) l = if (i <? m_n m) && uses (m_cs m) k then 1 else 0.
Proof. exact counted_once. Qed.
Print Assumptions C01_meaning_counted_once.

Theorem C01_meaning_called_once : forall m l,
  sb_sample m l = true -> forall i, count (is_call_of i) l = if i <? m_n m then 1 else 0.
Proof. exact calls_once. Qed.
Print Assumptions C01_meaning_called_once.

Theorem C01_meaning_output_dropped_once : forall m l,
  sb_sample m l = true ->
  forall i, count (is_dropout_of i) l = if (i <? m_n m) && m_odrop m then 1 else 0.
Proof. exact dropout_once. Qed.
Print Assumptions C01_meaning_output_dropped_once.

(** Drops of input [i] by anybody (framework or benchmarked function): at most one. *)
Theorem C01_meaning_input_dropped_at_most_once : forall m l,
  sb_sample m l = true -> forall i, count (is_dropin_of i) l <= 1.
Proof. exact dropin_at_most_once. Qed.
Print Assumptions C01_meaning_input_dropped_at_most_once.

Theorem C01_meaning_lent_input_dropped_once : forall m l,
  sb_sample m l = true -> m_gen m = true -> m_ref m = true ->
  forall i, i < m_n m -> count (is_fw_dropin_of i) l = if m_idrop m then 1 else 0.
Proof. exact lent_dropped_once. Qed.
Print Assumptions C01_meaning_lent_input_dropped_once.

Theorem C01_meaning_by_value_never_dropped : forall m l,
  sb_sample m l = true -> m_ref m = false -> count is_fw_dropin l = 0.
Proof. exact by_value_never_dropped. Qed.
Print Assumptions C01_meaning_by_value_never_dropped.

Theorem C01_meaning_lent_never_dropped_by_callee : forall m l,
  sb_sample m l = true -> m_ref m = true -> count is_udropin l = 0.
Proof. exact lent_never_dropped_by_callee. Qed.
Print Assumptions C01_meaning_lent_never_dropped_by_callee.

(** Order: a count comes after the generation of its value; a call after the
    generation and after the count by every existing counter; the drop of an
    output after its call; the drop of a lent input after the drop of the
    output computed from it. *)
Theorem C01_meaning_order : forall m l1 e l2,
  sb_sample m (l1 ++ e :: l2) = true ->
  match e with
  | OCount _ i => 1 <= count (is_gen_of i) l1
  | OCall i _ =>
      (m_gen m = true -> 1 <= count (is_gen_of i) l1)
      /\ (m_gen m = true -> forall k, uses (m_cs m) k = true -> 1 <= count (is_count_of k i) l1)
  | ODropOut i => 1 <= count (is_call_of i) l1
  | ODropIn i => m_odrop m = true -> 1 <= count (is_dropout_of i) l1
  | _ => True
  end.
Proof. exact happens_before. Qed.
Print Assumptions C01_meaning_order.

(** What unwinding adds after the part of the sample that ran: when the
    benchmarked function panics at call [k < n] the thread has already waited
    twice (before and after the tally clear), so [Drop for SampleBarrier] waits
    exactly once; when the generator panics at index [k < n] it has not waited
    yet, so the guard performs all three waits.  Nothing else runs. *)
Theorem C01_unwind_after_call_panic : forall e sh n cs u k,
  k < n ->
  exists ran, cut_prog PanicCall k (sample_prog e sh n cs u) = ran ++ [GuardWait]
              /\ Forall (fun a => a <> GuardWait) ran.
Proof. exact unwind_after_call_panic. Qed.
Print Assumptions C01_unwind_after_call_panic.

Theorem C01_unwind_after_gen_panic : forall e sh n cs u k,
  k < n ->
  exists ran, cut_prog PanicGen k (sample_prog e sh n cs u) = ran ++ [GuardWait; GuardWait; GuardWait]
              /\ Forall (fun a => a <> GuardWait) ran.
Proof. exact unwind_after_gen_panic. Qed.
Print Assumptions C01_unwind_after_gen_panic.

(** Explicit or tuned sample size.  A run is, per thread, the concatenation of
    sample programs of sizes [n_0, n_1, ...] (with a tuned size: 1, 2, 4, ...
    then the size reached; which sizes is C19's subject).  For EVERY list of
    sizes, every round — identified by the global ids it carries — passes the
    per-sample monitor configured with the run's one counter set and the
    round's own size (so every value of every round is shown once to every
    registered counter), and the timed-section decomposition; and every round's
    program respects the cell discipline. *)
Theorem C01_rounds_log_is_concat : forall c t sizes base,
  thread_log_rounds c t sizes base = concat (round_logs c t sizes base).
Proof. exact thread_log_rounds_concat. Qed.
Print Assumptions C01_rounds_log_is_concat.

Theorem C01_rounds_discipline : forall c t sizes base,
  sb_samples_sizes c t base sizes (round_logs c t sizes base) = true.
Proof. exact rounds_discipline. Qed.
Print Assumptions C01_rounds_discipline.

Theorem C01_rounds_exec : forall e sh cs u sizes,
  Forall (fun n => exec_ok (sample_prog e sh n cs u) = true) sizes.
Proof. exact rounds_exec. Qed.
Print Assumptions C01_rounds_exec.

(** Which input counters every value must be shown to ([cs] above): resolved
    from the sequence of counter calls made on the bencher.  The last call of a
    kind decides — an input counter ([input_counter], [count_inputs_as]) or a
    constant ([counter]) — and calls of other kinds never matter. *)
Theorem C01_counters_last_call_decides : forall l c,
  resolve (l ++ [c]) (ccall_kind c) = ccall_stat c.
Proof. exact resolve_last. Qed.
Print Assumptions C01_counters_last_call_decides.

Theorem C01_counters_kinds_independent : forall l c k,
  k <> ccall_kind c -> resolve (l ++ [c]) k = resolve l k.
Proof. exact resolve_other. Qed.
Print Assumptions C01_counters_kinds_independent.

Theorem C01_counter_in_force_iff_last_is_input : forall l1 c l2 k,
  ccall_kind c = k -> Forall (fun c' => ccall_kind c' <> k) l2 ->
  uses (counters_in_force (resolve (l1 ++ c :: l2)) false) k =
  match c with CInput _ _ => true | CConst _ => false end.
Proof. exact in_force_iff_last_is_input. Qed.
Print Assumptions C01_counter_in_force_iff_last_is_input.
