(** C01 — Each generated input is benchmarked once; each value is dropped once.
    Statements only; each closed by [exact] of a lemma in Proofs/Sample*.v. *)
From DivanV Require Import Base.Res Model.Sample Proofs.Sample Proofs.SamplePlace.
Local Open Scope nat_scope.

(** For all six entry points [e], all declared type shapes [sh] ({ZST, sized} x
    {Drop, no Drop} for input and output), every sample size [n >= 0], every set
    of input counters [cs], whatever the benchmarked function does with an input
    it owns ([u]), with or without other threads ([multi]):

    - the sample program never misuses a cell (no read of an uninitialised or
      moved-out cell, no second drop, no thin-air ZST that is not the
      re-materialisation of a forgotten one), and ends with exactly the cells of
      lent inputs / outputs with destructors dropped;
    - its observable events satisfy the monitor [sb_sample]: every value is
      generated once, then shown exactly once to each existing counter, all
      before the tally is cleared and the start timestamp; passed to exactly one
      call, in order, between the timestamps; every output with a destructor and
      every lent input with a destructor is dropped exactly once, after the end
      timestamp and the tally snapshot, output [i] before input [i]; an input
      given by value is never dropped by the framework. *)
Theorem C01_sample_discipline : forall e sh n cs u multi,
  (exists st, exec (sample_prog e sh n cs u) empty_store = SOk st
              /\ (forall j, j < n -> st j = (final_in e sh u, final_out e sh))
              /\ (forall j, n <= j -> st j = (IUninit, OUninit)))
  /\ sb_sample (mcfg_of e sh n cs) (obs (vis_of e sh multi) (sample_prog e sh n cs u)) = true.
Proof. intros. split. exact (exec_sample_ok e sh n cs u). exact (sb_sample_model e sh n cs u multi). Qed.
Print Assumptions C01_sample_discipline.

(** What the final cell states are. *)
Theorem C01_final_input_state : forall e sh u,
  final_in e sh u =
  if by_ref e then
    (if i_drop (eff_shape e sh) then IDropped
     else match path_of (eff_shape e sh) with PathZst => IForgotten | _ => IInit end)
  else if u then IDropped else IMoved.
Proof. exact final_in_meaning. Qed.
Print Assumptions C01_final_input_state.

Theorem C01_final_output_state : forall e sh,
  o_drop (eff_shape e sh) = true -> final_out e sh = ODropped.
Proof. exact final_out_meaning. Qed.
Print Assumptions C01_final_output_state.

(** The [_local] forms use the calling thread only, whatever [r_aux] is. *)
Theorem C01_local_on_caller : forall c,
  is_local (r_entry c) = true -> forall t, In t (run_threads c) -> t = 0.
Proof. exact local_on_caller. Qed.
Print Assumptions C01_local_on_caller.

(** An event (thread, round, action) happens iff the round is one of the run's
    rounds, the thread one of the effective threads and the action one of the
    sample's: every thread records every round, nobody else does anything. *)
Theorem C01_placement : forall c t rd a,
  In (t, rd, a) (run_events c) <->
  rd < rounds c /\ t <= eff_aux c /\
  In a (sample_prog (r_entry c) (r_shape c) (eff_size c) (r_cs c) (r_udrop c)).
Proof. exact run_events_in. Qed.
Print Assumptions C01_placement.

(** Every identifier in the log of thread [t] was made on thread [t]. *)
Theorem C01_thread_affine : forall c t,
  (N.of_nat (rounds c * eff_size c) < 4294967296)%N ->
  Forall (fun e => ev_thread_ok t e = true) (thread_log c t).
Proof. exact thread_affine. Qed.
Print Assumptions C01_thread_affine.
