(** C16 — Output order is the documented total order for each --sort attribute.
    Statements only; each closed by [exact] of a lemma in Proofs/. *)
From Coq Require Import Permutation QArith.
From DivanV Require Import Base.Res Generated.Consts Model.Natural Model.SortBy Model.ArgCmp Model.TreeCmp
  Proofs.SortCmp Proofs.SortUniq Proofs.Natural Proofs.ArgCmp Proofs.ArgSb Proofs.ArgSbComplete
  Proofs.TreeCmp Proofs.TreeSort Proofs.TreeSorted.
Local Open Scope N_scope.

(** Obligation on the generated constant: the tie-breaker table of
    [SortingAttr::with_tie_breakers] is the documented one. *)
Theorem C16_tie_breakers_const :
  with_tie_breakers SKind = [SKind; SName; SLocation] /\
  with_tie_breakers SName = [SName; SLocation; SKind] /\
  with_tie_breakers SLocation = [SLocation; SKind; SName].
Proof. exact tie_breakers_table. Qed.

(** [natural_cmp] is a total preorder on all byte strings: reflexive,
    antisymmetric in the [CompOpp] sense (so total), transitive, and [Equal] is a
    congruence. *)
Theorem C16_natural_total_preorder :
  (forall a, natural_cmp a a = Eq) /\
  (forall a b, natural_cmp b a = CompOpp (natural_cmp a b)) /\
  (forall a b c, natural_cmp a b <> Gt -> natural_cmp b c <> Gt -> natural_cmp a c <> Gt) /\
  (forall a b c, natural_cmp a b = Lt -> natural_cmp b c = Lt -> natural_cmp a c = Lt) /\
  (forall a b c, natural_cmp a b = Eq -> natural_cmp a c = natural_cmp b c).
Proof. exact natural_total_preorder. Qed.
Print Assumptions C16_natural_total_preorder.

(** It is a preorder, not an order: two names are tied exactly when their
    sequences of token keys coincide (same text outside digit runs, digit runs
    of equal value: "a01" ~ "a1"). *)
Theorem C16_natural_ties : forall a b, natural_cmp a b = Eq <-> nat_key a = nat_key b.
Proof. exact natural_cmp_eq_iff. Qed.
Print Assumptions C16_natural_ties.

(** Digit runs of any length compare by numeric value, leading zeros ignored. *)
Theorem C16_cmp_int_value : forall a b, all_digits a = true -> all_digits b = true ->
  cmp_int a b = (digits_val a ?= digits_val b).
Proof. exact cmp_int_val. Qed.
Print Assumptions C16_cmp_int_value.

(** After a common prefix that does not end in a digit, two maximal digit runs
    decide by value; when the values are equal ("01" against "1") neither name
    is smaller because of the zeros: the comparison continues behind the runs. *)
Theorem C16_natural_numeric : forall p d1 d2 s1 s2,
  last_kind p <> Some true ->
  d1 <> [] -> d2 <> [] -> all_digits d1 = true -> all_digits d2 = true ->
  first_kind s1 <> Some true -> first_kind s2 <> Some true ->
  natural_cmp (p ++ d1 ++ s1) (p ++ d2 ++ s2) =
  match digits_val d1 ?= digits_val d2 with
  | Eq => natural_cmp s1 s2
  | o => o
  end.
Proof. exact natural_numeric. Qed.
Print Assumptions C16_natural_numeric.

(** The tokens, concatenated, are the input. *)
Theorem C16_tokens_partition : forall s, concat (map snd (tokenize s)) = s.
Proof. exact tokenize_concat. Qed.
Print Assumptions C16_tokens_partition.

(** For ALL lists of names (all strings, mixed classes) and every float oracle
    that is monotone on the integer names of the list (no exactness: rounding
    may merge neighbouring integers) and does not round a non-zero integer to
    zero — which a correctly rounding [str::parse::<f64>] does for every name:
    the comparator, on the
    arguments (position, name) of the list, is a total preorder, and only an
    argument itself is [Equal] to it — a strict total order, which is what
    std's sorts need not to panic. *)
Theorem C16_argcmp_strict_total : forall V vcmp fparse names attr,
  oracle_ok_on V vcmp fparse (in_names names) ->
  let c := arg_cmp V vcmp fparse attr in
  let D := D names in
  (forall x y, D x -> D y -> c y x = CompOpp (c x y)) /\
  (forall x y z, D x -> D y -> D z -> c x y = Lt -> c y z = Lt -> c x z = Lt) /\
  (forall x y z, D x -> D y -> D z -> c x y = Eq -> c x z = c y z) /\
  (forall x y, D x -> D y -> (c x y = Eq <-> x = y)).
Proof. exact argcmp_strict_total. Qed.
Print Assumptions C16_argcmp_strict_total.

(** The hypothesis is satisfiable, for every set of names, by the exact decimal
    oracle (Rust's float grammar with the exact value of the literal), and on
    the names 2^53, 2^53+1, "9007199254740992.0" by an oracle that rounds them
    to one value like f64. *)
Theorem C16_oracle_dec_ok : forall P, oracle_ok_on fval fval_cmp dec_parse P.
Proof. exact oracle_dec_ok. Qed.
Print Assumptions C16_oracle_dec_ok.

Theorem C16_oracle_rounding_ok :
  oracle_ok_on Z Z.compare rounding_oracle (fun s => In s [n_2p53; n_2p53_1; n_2p53_dot0]).
Proof. exact rounding_oracle_ok. Qed.
Print Assumptions C16_oracle_rounding_ok.

(** About the comparator before commit 6cb0c72 (float-[Equal] names tied): with
    the rounding oracle it was not a preorder on these three names (the real
    crate panicked in sort_by on 21 of them); the current one orders them. *)
Theorem C16_argcmp_rounding_refuted :
  old_name_cmp Z.compare rounding_oracle n_2p53 n_2p53_1 = Lt /\
  old_name_cmp Z.compare rounding_oracle n_2p53 n_2p53_dot0 = Eq /\
  old_name_cmp Z.compare rounding_oracle n_2p53_1 n_2p53_dot0 = Eq.
Proof. exact rounding_oracle_broke_old_comparator. Qed.
Print Assumptions C16_argcmp_rounding_refuted.

Theorem C16_argcmp_rounding_now_ordered :
  name_cmp Z Z.compare rounding_oracle n_2p53 n_2p53_1 = Lt /\
  name_cmp Z Z.compare rounding_oracle n_2p53 n_2p53_dot0 = Lt /\
  name_cmp Z Z.compare rounding_oracle n_2p53_1 n_2p53_dot0 = Lt.
Proof. exact rounding_oracle_new_comparator. Qed.
Print Assumptions C16_argcmp_rounding_now_ordered.

(** Two numeric names compare by value (negatives, decimals, exponents,
    infinities included); at equal float value integers come first (two
    integers by their exact value) and other spellings tie; a number is before
    every other name; two other names compare naturally. *)
Theorem C16_argcmp_numeric : forall V vcmp fparse (P : bytes -> Prop),
  oracle_ok_on V vcmp fparse P ->
  forall a b, P a -> P b ->
  (forall x y, fparse a = Some x -> fparse b = Some y ->
     name_cmp V vcmp fparse a b =
     match vcmp x y with
     | Eq => match int_val a, int_val b with
             | Some p, Some q => (p ?= q)%Z
             | Some _, None => Lt
             | None, Some _ => Gt
             | None, None => Eq
             end
     | o => o
     end) /\
  (forall x, fparse a = Some x -> fparse b = None ->
     name_cmp V vcmp fparse a b = Lt /\ name_cmp V vcmp fparse b a = Gt) /\
  (fparse a = None -> fparse b = None ->
     name_cmp V vcmp fparse a b = natural_cmp a b).
Proof. exact argcmp_numeric. Qed.
Print Assumptions C16_argcmp_numeric.

(** The sort of the arguments never takes the panic branch; any algorithm that
    returns a sorted permutation returns the same list (the stable insertion
    sort's), so the result does not depend on the sorting algorithm. *)
Theorem C16_sort_perm_unique : forall V vcmp fparse names attr rev,
  oracle_ok_on V vcmp fparse (in_names names) ->
  let c := revc rev (arg_cmp V vcmp fparse attr) in
  sort_args V vcmp fparse attr rev names = Ok (map fst (isort c (indexed names))) /\
  Permutation (indexed names) (isort c (indexed names)) /\
  ssorted c (isort c (indexed names)) /\
  (forall l, Permutation (indexed names) l -> ssorted c l -> l = isort c (indexed names)).
Proof. exact sort_perm_unique. Qed.
Print Assumptions C16_sort_perm_unique.

(** [--sortr] reverses the comparator (tie-breakers included), not the list;
    because the comparator is strict on the arguments this is exactly the
    reversed output. *)
Theorem C16_reverse_exact : forall V vcmp fparse names,
  oracle_ok_on V vcmp fparse (in_names names) -> forall attr,
  isort (revc true (arg_cmp V vcmp fparse attr)) (indexed names) =
  rev (isort (revc false (arg_cmp V vcmp fparse attr)) (indexed names)).
Proof. exact sort_args_reverse. Qed.
Print Assumptions C16_reverse_exact.

(** With the exact decimal oracle the extracted model never takes the panic
    branch, on any list of names whatsoever. *)
Theorem C16_sort_never_panics : forall attr rev names, exists out,
  sort_args_dec attr rev names = Ok out.
Proof. exact sort_args_dec_never_panics. Qed.
Print Assumptions C16_sort_never_panics.

(** The boolean specifications evaluated on the implementation's outputs hold
    of the model: [sort_sb] (a permutation of the positions; read in the chosen
    direction, every earlier argument is strictly before every later one in the
    specified order, ties by position), the specified answer of one
    comparison, and the key form of the natural order. *)
Theorem C16_sort_model_sb : forall attr rev names out,
  sort_args_dec attr rev names = Ok out -> sort_sb_dec attr rev names out = true.
Proof. exact sort_args_dec_sb. Qed.
Print Assumptions C16_sort_model_sb.

Theorem C16_cmp_model_sb : forall names attr x y, D names x -> D names y ->
  arg_cmp_dec attr x y = spec_arg_cmp_dec attr x y.
Proof. exact arg_cmp_dec_spec. Qed.
Print Assumptions C16_cmp_model_sb.

Theorem C16_nat_model_sb : forall a b, natural_cmp a b = natural_spec a b.
Proof. exact natural_cmp_spec. Qed.
Print Assumptions C16_nat_model_sb.

(** On valid UTF-8 every token is itself valid UTF-8: the [get_unchecked]
    cuts of the tokeniser lie on character boundaries. *)
Theorem C16_tokens_on_char_boundaries : forall s,
  utf8_valid s -> Forall (fun t => utf8_valid (snd t)) (tokenize s).
Proof. exact tokens_valid_utf8. Qed.
Print Assumptions C16_tokens_on_char_boundaries.

(** Sibling nodes: under the three stated conditions on the sibling set
    (same address = same entry; siblings sharing a source location all have an
    entry address or none; constants of a generic benchmark are not mixed with
    other siblings and have one type) [cmp_by_attr] is a total preorder for
    every attribute, and the sibling sort returns a sorted permutation without
    reaching the panic branch, in both directions. *)
Theorem C16_treecmp_total : forall (S : tree -> Prop) attr,
  addr_identity S -> loc_addr_uniform S -> consts_uniform S ->
  let c := cmp_by_attr attr in
  (forall x y, S x -> S y -> c y x = CompOpp (c x y)) /\
  (forall x y z, S x -> S y -> S z -> c x y = Lt -> c y z = Lt -> c x z = Lt) /\
  (forall x y z, S x -> S y -> S z -> c x y = Eq -> c x z = c y z) /\
  (forall rev l, Forall S l ->
     sort_by (revc rev c) l = Ok (isort (revc rev c) l) /\
     Permutation l (isort (revc rev c) l) /\ ssorted (revc rev c) (isort (revc rev c) l)).
Proof. exact treecmp_total. Qed.
Print Assumptions C16_treecmp_total.

(** Two of the conditions are needed (witnesses of cycles without them): two
    groups and an address-less parent at one location; a plain benchmark named
    "-1x" beside the constants -2 and -1 of a generic benchmark. *)
Theorem C16_treecmp_location_cycle_refuted :
  cmp_by_attr SLocation w_a w_c = Lt /\ cmp_by_attr SLocation w_c w_b = Lt /\
  cmp_by_attr SLocation w_a w_b = Gt.
Proof. exact loc_addr_uniform_needed. Qed.
Print Assumptions C16_treecmp_location_cycle_refuted.

Theorem C16_treecmp_const_name_cycle_refuted :
  cmp_by_attr SName w_m2 w_m1 = Lt /\ cmp_by_attr SName w_m1 w_x = Lt /\
  cmp_by_attr SName w_x w_m2 = Lt.
Proof. exact consts_uniform_needed. Qed.
Print Assumptions C16_treecmp_const_name_cycle_refuted.

(** [--sortr] on siblings (sorted with an unstable sort): the reverse of the
    ascending order is a sorted permutation for the reversed comparator, and
    the only one when no two distinct siblings tie; tied siblings may appear
    in either order in both directions. *)
Theorem C16_reverse_siblings : forall (S : tree -> Prop) attr,
  addr_identity S -> loc_addr_uniform S -> consts_uniform S ->
  forall l, Forall S l ->
  let c := cmp_by_attr attr in
  Permutation l (rev (isort c l)) /\ ssorted (revc true c) (rev (isort c l)) /\
  ((forall x y, S x -> S y -> c x y = Eq -> x = y) ->
   forall l', Permutation l l' -> ssorted (revc true c) l' -> l' = rev (isort c l)).
Proof. exact siblings_reverse. Qed.
Print Assumptions C16_reverse_siblings.

(** Sorting only permutes: whenever the sort of a forest returns, the result
    has the same entries under the same parents and the same arguments on the
    same leaves (for every float oracle, every attribute, both directions). *)
Theorem C16_permutes_only : forall V vcmp fparse attr rev ts ts',
  sort_forest V vcmp fparse attr rev ts = Ok ts' ->
  tree_perm (Parent [] None ts) (Parent [] None ts').
Proof. exact sort_forest_perm. Qed.
Print Assumptions C16_permutes_only.

(** The executable instance of "a stable sort": among elements that compare
    [Equal] the insertion sort keeps the original order (for the arguments this
    never matters, the comparator being strict; it is why [Sb] can say "ties in
    original order" for any stable algorithm). *)
Theorem C16_sort_stable : forall {A} (P : A -> Prop) (c : A -> A -> comparison),
  tpo_on P c -> forall z l, P z -> Forall P l ->
  filter (eqv_b c z) (isort c l) = filter (eqv_b c z) l.
Proof. exact @isort_stable. Qed.
Print Assumptions C16_sort_stable.

(** Whole trees.  If every sibling set at every depth satisfies the three
    conditions of [C16_treecmp_total] and every argument list the oracle
    condition ([wf_tree]), then [sort_forest] returns — neither [OutOfFuel] nor
    [NotTotalOrder] — and its result has the same entries under the same
    parents ([tree_perm]), is obtained by putting every sibling set and every
    argument list into a sorted permutation ([sorted_perm]), and is sorted at
    every level for the comparator evaluated on the output's own nodes
    ([tree_sorted]; sorting the descendants of a node does not change what the
    comparator sees of it). *)
Theorem C16_sort_forest_total : forall V vcmp fparse attr rev ts,
  sib_ok ts -> Forall (wf_tree V vcmp fparse) ts ->
  exists ts', sort_forest V vcmp fparse attr rev ts = Ok ts' /\
    tree_perm (Parent [] None ts) (Parent [] None ts') /\
    sorted_perm V vcmp fparse attr rev (Parent [] None ts) (Parent [] None ts') /\
    tree_sorted attr rev (Parent [] None ts').
Proof. exact sort_forest_total_sorted. Qed.
Print Assumptions C16_sort_forest_total.

Theorem C16_sort_forest_hyps_satisfiable :
  sib_ok ex_forest /\ Forall (wf_tree fval fval_cmp dec_parse) ex_forest.
Proof. exact sort_forest_hyps_satisfiable. Qed.
Print Assumptions C16_sort_forest_hyps_satisfiable.

(** Uniqueness up to ties: two sorted permutations of one list, for any total
    preorder, agree position by position up to [Equal]; in particular for a
    sibling set, in either direction, whatever (unstable) algorithm sorts it. *)
Theorem C16_sorted_unique_upto_ties : forall {A} (P : A -> Prop) (c : A -> A -> comparison),
  tpo_on P c -> forall l1 l2, Forall P l1 -> Permutation l1 l2 -> ssorted c l1 -> ssorted c l2 ->
  Forall2 (fun x y => c x y = Eq) l1 l2.
Proof. exact @sorted_perm_unique_upto_ties. Qed.
Print Assumptions C16_sorted_unique_upto_ties.

Theorem C16_siblings_unique_upto_ties : forall (S : tree -> Prop) attr rev,
  addr_identity S -> loc_addr_uniform S -> consts_uniform S ->
  let c := revc rev (cmp_by_attr attr) in
  forall l l1 l2, Forall S l ->
  Permutation l l1 -> ssorted c l1 -> Permutation l l2 -> ssorted c l2 ->
  Forall2 (fun x y => c x y = Eq) l1 l2.
Proof. exact siblings_unique_upto_ties. Qed.
Print Assumptions C16_siblings_unique_upto_ties.

(** Completeness of the specification of the argument sort: an output accepted
    by [sort_sb] is the model's output (with [C16_sort_model_sb]: [sort_sb]
    holds of exactly one output). *)
Theorem C16_sort_sb_complete : forall V vcmp fparse names,
  oracle_ok_on V vcmp fparse (in_names names) -> forall attr rev out,
  sort_sb V vcmp fparse attr rev names out = true ->
  sort_args V vcmp fparse attr rev names = Ok out.
Proof. exact sort_sb_complete. Qed.
Print Assumptions C16_sort_sb_complete.

Theorem C16_sort_sb_dec_complete : forall attr rev names out,
  sort_sb_dec attr rev names out = true -> sort_args_dec attr rev names = Ok out.
Proof. exact sort_sb_dec_complete. Qed.
Print Assumptions C16_sort_sb_dec_complete.
