(** C16 — Output order is the documented total order for each --sort attribute.
    Statements only; each closed by [exact] of a lemma in Proofs/. *)
From Coq Require Import Permutation QArith.
From DivanV Require Import Base.Res Generated.Consts Model.Natural Model.SortBy Model.ArgCmp
  Proofs.SortCmp Proofs.Natural Proofs.ArgCmp.
Local Open Scope N_scope.

(** Obligation on the generated constant: the tie-breaker table of
    [SortingAttr::with_tie_breakers] is the documented one. *)
Theorem C16_tie_breakers_const :
  with_tie_breakers SKind = [SKind; SName; SLocation] /\
  with_tie_breakers SName = [SName; SLocation; SKind] /\
  with_tie_breakers SLocation = [SLocation; SKind; SName].
Proof. exact tie_breakers_table. Qed.

(** [natural_cmp] is a total preorder on all byte strings: reflexive,
    antisymmetric in the [CompOpp] sense (so total), transitive, and [Equal] is a
    congruence. *)
Theorem C16_natural_total_preorder :
  (forall a, natural_cmp a a = Eq) /\
  (forall a b, natural_cmp b a = CompOpp (natural_cmp a b)) /\
  (forall a b c, natural_cmp a b <> Gt -> natural_cmp b c <> Gt -> natural_cmp a c <> Gt) /\
  (forall a b c, natural_cmp a b = Lt -> natural_cmp b c = Lt -> natural_cmp a c = Lt) /\
  (forall a b c, natural_cmp a b = Eq -> natural_cmp a c = natural_cmp b c).
Proof. exact natural_total_preorder. Qed.
Print Assumptions C16_natural_total_preorder.

(** It is a preorder, not an order: two names are tied exactly when their
    sequences of token keys coincide (same text outside digit runs, digit runs
    of equal value: "a01" ~ "a1"). *)
Theorem C16_natural_ties : forall a b, natural_cmp a b = Eq <-> nat_key a = nat_key b.
Proof. exact natural_cmp_eq_iff. Qed.
Print Assumptions C16_natural_ties.

(** Digit runs of any length compare by numeric value, leading zeros ignored. *)
Theorem C16_cmp_int_value : forall a b, all_digits a = true -> all_digits b = true ->
  cmp_int a b = (digits_val a ?= digits_val b).
Proof. exact cmp_int_val. Qed.
Print Assumptions C16_cmp_int_value.

(** After a common prefix that does not end in a digit, two maximal digit runs
    decide by value; when the values are equal ("01" against "1") neither name
    is smaller because of the zeros: the comparison continues behind the runs. *)
Theorem C16_natural_numeric : forall p d1 d2 s1 s2,
  last_kind p <> Some true ->
  d1 <> [] -> d2 <> [] -> all_digits d1 = true -> all_digits d2 = true ->
  first_kind s1 <> Some true -> first_kind s2 <> Some true ->
  natural_cmp (p ++ d1 ++ s1) (p ++ d2 ++ s2) =
  match digits_val d1 ?= digits_val d2 with
  | Eq => natural_cmp s1 s2
  | o => o
  end.
Proof. exact natural_numeric. Qed.
Print Assumptions C16_natural_numeric.

(** The tokens, concatenated, are the input. *)
Theorem C16_tokens_partition : forall s, concat (map snd (tokenize s)) = s.
Proof. exact tokenize_concat. Qed.
Print Assumptions C16_tokens_partition.

(** For ALL lists of names (all strings, mixed classes) and every float oracle
    that is exact on the integer names of the list: the comparator, on the
    arguments (position, name) of the list, is a total preorder, and only an
    argument itself is [Equal] to it — a strict total order, which is what
    std's sorts need not to panic. *)
Theorem C16_argcmp_strict_total : forall V vcmp fparse names attr,
  oracle_ok_on V vcmp fparse (in_names names) ->
  let c := arg_cmp V vcmp fparse attr in
  let D := D names in
  (forall x y, D x -> D y -> c y x = CompOpp (c x y)) /\
  (forall x y z, D x -> D y -> D z -> c x y = Lt -> c y z = Lt -> c x z = Lt) /\
  (forall x y z, D x -> D y -> D z -> c x y = Eq -> c x z = c y z) /\
  (forall x y, D x -> D y -> (c x y = Eq <-> x = y)).
Proof. exact argcmp_strict_total. Qed.
Print Assumptions C16_argcmp_strict_total.

(** The hypothesis is satisfiable, for every set of names, by the exact decimal
    oracle (Rust's float grammar with the exact value of the literal). *)
Theorem C16_oracle_dec_ok : forall P, oracle_ok_on fval fval_cmp dec_parse P.
Proof. exact oracle_dec_ok. Qed.
Print Assumptions C16_oracle_dec_ok.

(** ... and it cannot be dropped: an oracle that rounds 2^53, 2^53+1 and
    "9007199254740992.0" to one value (as f64 does) makes [Equal] non-transitive. *)
Theorem C16_argcmp_rounding_refuted :
  name_cmp Z Z.compare rounding_oracle n_2p53 n_2p53_1 = Lt /\
  name_cmp Z Z.compare rounding_oracle n_2p53 n_2p53_dot0 = Eq /\
  name_cmp Z Z.compare rounding_oracle n_2p53_1 n_2p53_dot0 = Eq.
Proof. exact rounding_oracle_breaks_preorder. Qed.
Print Assumptions C16_argcmp_rounding_refuted.

(** Two numeric names compare by value (negatives, decimals, exponents,
    infinities included); a number is before every other name; two other names
    compare naturally. *)
Theorem C16_argcmp_numeric : forall V vcmp fparse (P : bytes -> Prop),
  oracle_ok_on V vcmp fparse P ->
  forall a b, P a -> P b ->
  (forall x y, fparse a = Some x -> fparse b = Some y ->
     name_cmp V vcmp fparse a b = vcmp x y) /\
  (forall x, fparse a = Some x -> fparse b = None ->
     name_cmp V vcmp fparse a b = Lt /\ name_cmp V vcmp fparse b a = Gt) /\
  (fparse a = None -> fparse b = None ->
     name_cmp V vcmp fparse a b = natural_cmp a b).
Proof. exact argcmp_numeric. Qed.
Print Assumptions C16_argcmp_numeric.

(** The sort of the arguments never takes the panic branch; any algorithm that
    returns a sorted permutation returns the same list (the stable insertion
    sort's), so the result does not depend on the sorting algorithm. *)
Theorem C16_sort_perm_unique : forall V vcmp fparse names attr rev,
  oracle_ok_on V vcmp fparse (in_names names) ->
  let c := revc rev (arg_cmp V vcmp fparse attr) in
  sort_args V vcmp fparse attr rev names = Ok (map fst (isort c (indexed names))) /\
  Permutation (indexed names) (isort c (indexed names)) /\
  ssorted c (isort c (indexed names)) /\
  (forall l, Permutation (indexed names) l -> ssorted c l -> l = isort c (indexed names)).
Proof. exact sort_perm_unique. Qed.
Print Assumptions C16_sort_perm_unique.

(** [--sortr] reverses the comparator (tie-breakers included), not the list;
    because the comparator is strict on the arguments this is exactly the
    reversed output. *)
Theorem C16_reverse_exact : forall V vcmp fparse names,
  oracle_ok_on V vcmp fparse (in_names names) -> forall attr,
  isort (revc true (arg_cmp V vcmp fparse attr)) (indexed names) =
  rev (isort (revc false (arg_cmp V vcmp fparse attr)) (indexed names)).
Proof. exact sort_args_reverse. Qed.
Print Assumptions C16_reverse_exact.
