(** C04 — max_time, min_time and skip_ext_time bound sampling as documented.
    Statements only; each closed by [exact] of a lemma in Proofs/LoopProps.v.
    Model: Model/Loop.v.  [elapsed_after c init hist k] is the declarative
    elapsed time after [k] rounds of the history (see [C04_elapsed_def]),
    [counted_after] the number of recorded samples that count against
    [sample_count], [continue_after] the documented rule. *)
From DivanV Require Import Base.Res Generated.Consts Model.Timestamp Model.Loop Proofs.Loop Proofs.LoopProps Proofs.LoopTotal Proofs.LoopSb Proofs.LoopExamples Proofs.LoopCalib.
Local Open Scope N_scope.

(** Obligations on the generated constants: `elapsed >= max` stops, `elapsed <
    min` continues, at least 1000 ps of progress per round under skip_ext_time. *)
Theorem C04_loop_consts :
  max_time_cmp_is_ge = true /\ min_time_cmp_is_lt = true /\ min_progress_picos = 1000.
Proof. exact consts_c04. Qed.

(** The rule, spelled out. *)
Theorem C04_continue_meaning : forall c init hist k,
  continue_after c init hist k = true <->
  elapsed_after c init hist k < c_max c /\
  (counted_after c hist k < sample_count_of c \/ elapsed_after c init hist k < c_min c).
Proof. exact continue_after_spec. Qed.
Print Assumptions C04_continue_meaning.

(** For EVERY history of clock readings and every (n, s, min, max, skip,
    threads), min > max, max = 0 and huge values included: the number of
    rounds run is the least k at which the rule says stop (if the given history
    is too short for the loop to return, every one of its rounds was run and
    the rule still says continue). *)
Theorem C04_rounds_least : forall c init hist out,
  c_test c = false -> has_samples c = true ->
  bench_loop c init hist = Ok out ->
  let k := rounds_of (out_state out) in
  (k <= length hist)%nat /\
  (forall j, (j < k)%nat -> continue_after c init hist j = true) /\
  (if out_done out then continue_after c init hist k = false
   else k = length hist /\ continue_after c init hist k = true).
Proof. exact rounds_least. Qed.
Print Assumptions C04_rounds_least.

Theorem C04_rounds_least_example :
  exists out, bench_loop ex_cfg 0 ex_hist = Ok out /\ c_test ex_cfg = false /\ has_samples ex_cfg = true.
Proof. exact rounds_least_example. Qed.

(** max_time has priority over the sample count and over min_time. *)
Theorem C04_max_has_priority : forall c init hist out j,
  c_test c = false -> has_samples c = true ->
  bench_loop c init hist = Ok out ->
  c_max c <= elapsed_after c init hist j ->
  (rounds_of (out_state out) <= j)%nat.
Proof. exact max_has_priority. Qed.
Print Assumptions C04_max_has_priority.

(** The loop's elapsed_picos is the declarative elapsed time: the latest end
    of the newest round minus the initial start, or, under skip_ext_time, the
    sum over rounds of max(slowest thread's timed section, 1 ns), saturating at
    u128::MAX. *)
Theorem C04_elapsed_def : forall c init hist out,
  c_test c = false -> has_samples c = true ->
  bench_loop c init hist = Ok out ->
  s_elapsed (out_state out) = elapsed_after c init hist (rounds_of (out_state out)) /\
  elapsed_after c init hist 0 = 0 /\
  (c_skip c = false -> forall k o, nth_error hist k = Some o ->
     elapsed_after c init hist (S k) = dur_ps (c_freq c) (latest_end o) init) /\
  (c_skip c = true -> forall k,
     elapsed_after c init hist k =
     N.min (sum_n (map (fun o => N.max (slowest_of c o) 1000) (firstn k hist))) (2 ^ 128 - 1)).
Proof. exact elapsed_def. Qed.
Print Assumptions C04_elapsed_def.

(** The boolean specification used by the violation search ([c04_sb]: the
    rounds run are the least k of the rule, computed from the logged
    timestamps) holds of the model's own output for every history, in both
    modes, zero cases included. *)
Theorem C04_model_sb : forall c init hist out t s,
  bench_loop c init hist = Ok out -> seen_of_outcome t out = Ok s ->
  c04_sb c init (firstn (rounds_of (out_state out)) hist) s = true.
Proof. exact c04_model_sb. Qed.
Print Assumptions C04_model_sb.

(** The hypothesis [bench_loop .. = Ok out] of the theorems above is met by
    every well-formed history: timestamps are u64 values, the frequency is not
    0, every round brought back at least one sample and, when the size is
    tuned, the precision is not 0 and no round that fails the threshold has
    size 2^31 or more. *)
Theorem C04_loop_total : forall c init hist,
  c_test c = false -> c_freq c <> 0 -> init < 2 ^ 64 ->
  (forall o, In o hist -> wf_round o) ->
  (c_size c = None -> c_prec c <> 0 /\
     forall i, (i < length hist)%nat -> first_pass c (firstn (S i) hist) = None -> pow2 i < 2 ^ 31) ->
  exists out, bench_loop c init hist = Ok out.
Proof. exact loop_total. Qed.
Print Assumptions C04_loop_total.

(** Non-vacuity: a run cut by max_time although samples are missing and
    min_time is not reached; the 1 ns floor under skip_ext_time; a history
    meeting the hypotheses of [C04_loop_total]. *)
Theorem C04_max_priority_example :
  c_test ex_max_cfg = false /\ has_samples ex_max_cfg = true /\
  c_max ex_max_cfg <= elapsed_after ex_max_cfg 0 ex_hist 2 /\
  elapsed_after ex_max_cfg 0 ex_hist 2 < c_min ex_max_cfg /\
  counted_after ex_max_cfg ex_hist 2 < sample_count_of ex_max_cfg /\
  exists out, bench_loop ex_max_cfg 0 ex_hist = Ok out /\ rounds_of (out_state out) = 2%nat /\ out_done out = true.
Proof. exact max_priority_example. Qed.

Theorem C04_skip_floor_example :
  elapsed_after ex_skip_cfg 0 ex_hist 3 = 3000 /\
  exists out, bench_loop ex_skip_cfg 0 ex_hist = Ok out /\ rounds_of (out_state out) = 3%nat /\ out_done out = true.
Proof. exact skip_floor_example. Qed.

Theorem C04_loop_total_example :
  c_test ex_tune_cfg = false /\ c_freq ex_tune_cfg <> 0 /\ (0 < 2 ^ 64) /\
  (forall o, In o ex_tune_hist -> wf_round o) /\ c_prec ex_tune_cfg <> 0 /\ (length ex_tune_hist <= 31)%nat.
Proof. exact loop_total_example. Qed.

(** Without an exact clock (the OS timer): if every round lasts at least [d],
    the ceiling allows at most ceil(max/d) rounds. *)
Theorem C04_rounds_bounded : forall c init hist out d,
  c_test c = false -> has_samples c = true ->
  bench_loop c init hist = Ok out ->
  (forall j, (j <= length hist)%nat -> N.of_nat j * d <= elapsed_after c init hist j) ->
  c04_os_sb (c_max c) d (N.of_nat (rounds_of (out_state out))) = true.
Proof. exact rounds_bounded. Qed.
Print Assumptions C04_rounds_bounded.

Theorem C04_rounds_bounded_example :
  forall j, (j <= length ex_hist)%nat -> N.of_nat j * 300 <= elapsed_after ex_cfg 0 ex_hist j.
Proof. exact rounds_bounded_example. Qed.

(** Time limits given as decimal seconds (command line, environment) are that
    many nanoseconds exactly: 0.0004 s = 400 000 ns, not 0. *)
Theorem C04_decimal_nanos_example :
  decimal_nanos 0 [0; 0; 0; 4] = 400000 /\ decimal_nanos 1 [5] = 1500000000 /\ decimal_nanos 2 [] = 2000000000 /\
  decimal_nanos 0 [0; 0; 1; 4; 0; 0; 0; 0; 7] = 1400007.
Proof. exact decimal_nanos_example. Qed.

(** * The time origin and the first-use calibration of the timer overheads

    "Elapsed time runs from just before the first sample": the clock reads [t0]
    when the loop is about to read its origin and to look up the timer overheads;
    the lookup calibrates on its first use in a process, taking [calib] ticks
    which "min_time and max_time do not consider as benchmarking time".
    [bench_loop_cal] reads the origin before or after the lookup as the source
    does ([origin_before_calib], generated). *)

(** With the origin read BEFORE the lookup the property fails (one sample,
    min_time 500 ps, calibration 800 ps, rounds of 101 ps: the loop returns
    after one round, the rule measured from the first sample asks for five). *)
Theorem C04_origin_before_calibration_refuted :
  exists out, bench_loop cal_cfg (origin_reading true 0 800) cal_hist = Ok out /\ out_done out = true /\
    rounds_of (out_state out) = 1%nat /\
    (forall j, (j < 5)%nat -> continue_after cal_cfg (0 + 800) cal_hist j = true) /\
    continue_after cal_cfg (0 + 800) cal_hist 5 = false.
Proof. exact origin_before_refuted. Qed.
Print Assumptions C04_origin_before_calibration_refuted.

(** Obligation on the generated constant: the source reads the origin AFTER
    the overhead lookup. *)
Theorem C04_origin_after_calibration : origin_before_calib = false.
Proof. reflexivity. Qed.

(** Then the run depends on the clock after the calibration only ... *)
Theorem C04_calibration_independent : forall c t0 calib t0' calib' hist,
  origin_before_calib = false -> t0 + calib = t0' + calib' ->
  bench_loop_cal c t0 calib hist = bench_loop_cal c t0' calib' hist.
Proof. exact calib_independent. Qed.
Print Assumptions C04_calibration_independent.

(** ... and the rounds are the least k of the rule with the elapsed time
    measured from just before the first sample. *)
Theorem C04_rounds_least_from_first_sample : forall c t0 calib hist out,
  origin_before_calib = false ->
  c_test c = false -> has_samples c = true ->
  bench_loop_cal c t0 calib hist = Ok out ->
  let k := rounds_of (out_state out) in
  (k <= length hist)%nat /\
  (forall j, (j < k)%nat -> continue_after c (t0 + calib) hist j = true) /\
  (if out_done out then continue_after c (t0 + calib) hist k = false
   else k = length hist /\ continue_after c (t0 + calib) hist k = true).
Proof. exact rounds_least_cal. Qed.
Print Assumptions C04_rounds_least_from_first_sample.

Theorem C04_cal_model_sb : forall c t0 calib hist out t s,
  origin_before_calib = false ->
  bench_loop_cal c t0 calib hist = Ok out -> seen_of_outcome t out = Ok s ->
  c04_cal_sb c t0 calib (firstn (rounds_of (out_state out)) hist) s = true.
Proof. exact cal_model_sb. Qed.
Print Assumptions C04_cal_model_sb.
