(** What ocaml/prelude.ml needs from every extracted model: the arithmetic on
    [N]/[Z]/[positive] used to parse and print numbers, and the [res]/[panic]
    types.  Each Extract/<Group>.v lists [extraction_prelude] first. *)
From DivanV Require Import Base.Res.
Definition extraction_prelude :=
  (N.add, N.mul, N.div, N.modulo, N.div_eucl, N.sub, N.compare, N.eqb, N.ltb, N.leb, N.of_nat, N.to_nat,
   Z.add, Z.mul, Z.sub, Z.compare, Z.of_N, Z.to_N, Z.opp, Z.abs_N, Z.eqb, Z.ltb, Z.leb,
   [DivByZero; Overflow; UnwrapNone; OutOfBounds; OutOfFuel; NotTotalOrder; Other],
   [Ok 0%N; Panic Other], @bind N N, @is_ok N).
