(** Result type with explicit Rust panics.

    Every Rust panic site of the modelled code (division by zero, `unwrap` on
    `None`, arithmetic overflow in debug builds, index out of bounds, the
    standard sort's "not a total order" detection) is an explicit [Panic] value
    in the models.  Nothing hides behind Coq's totalised [x / 0 = 0]. *)

From Coq Require Export List NArith ZArith Bool Lia.
Export ListNotations.

Inductive panic : Type :=
| DivByZero
| Overflow
| UnwrapNone
| OutOfBounds
| OutOfFuel
| NotTotalOrder
| Other.

Inductive res (A : Type) : Type :=
| Ok : A -> res A
| Panic : panic -> res A.
Arguments Ok {A} _.
Arguments Panic {A} _.

Definition bind {A B} (r : res A) (f : A -> res B) : res B :=
  match r with Ok a => f a | Panic p => Panic p end.

Definition is_ok {A} (r : res A) : bool :=
  match r with Ok _ => true | Panic _ => false end.

Notation "'do' x <- r ; k" := (bind r (fun x => k))
  (at level 200, x name, r at level 100, k at level 200, right associativity).

(** Checked unsigned arithmetic at a given bit width. *)
Definition u128_max : N := 2 ^ 128 - 1.
Definition u64_max : N := 2 ^ 64 - 1.
Definition u32_max : N := 2 ^ 32 - 1.

Definition checked_mul (w : N) (a b : N) : res N :=
  if (a * b <? 2 ^ w)%N then Ok (a * b)%N else Panic Overflow.

Definition checked_add (w : N) (a b : N) : res N :=
  if (a + b <? 2 ^ w)%N then Ok (a + b)%N else Panic Overflow.

Definition checked_div (a b : N) : res N :=
  if (b =? 0)%N then Panic DivByZero else Ok (a / b)%N.

Definition sat_sub (a b : N) : N := (a - b)%N. (* N subtraction truncates at 0 *)

Definition sat_add (w : N) (a b : N) : N := N.min (a + b) (2 ^ w - 1).

Definition sat_mul (w : N) (a b : N) : N := N.min (a * b) (2 ^ w - 1).
