#!/bin/sh
# usage: tools/new_harness.sh <crate-name>   — creates harness/<crate> from the template
set -e
cd "$(dirname "$0")/.."
c="$1"; d="harness/$c"
[ -e "$d" ] && { echo "$d exists"; exit 1; }
mkdir -p "$d/src" "$d/.cargo"
cat > "$d/Cargo.toml" <<EOT
[package]
name = "$c"
version = "0.0.0"
edition = "2021"
publish = false

[dependencies]
divan = { path = "/repo" }
hxlib = { path = "../hxlib" }

[profile.dev]
opt-level = 1
debug = false
overflow-checks = true
debug-assertions = true

[profile.release]
overflow-checks = false
debug-assertions = false

[workspace]
EOT
cp harness/hx/.cargo/config.toml "$d/.cargo/config.toml"
cp harness/hx/Cargo.lock "$d/Cargo.lock"
cat > "$d/src/main.rs" <<EOT
//! Harness driving the real crate (built from /repo's working tree with
//! \`--cfg divan_verif\`): one mode per stream of the correspondence check.
use divan::__verif as v;

fn dispatch(mode: &str, line: &str) -> String {
    match mode {
        _ => panic!("unknown mode {mode}"),
    }
}

fn main() {
    hxlib::run(dispatch);
}
EOT
echo "created $d"
