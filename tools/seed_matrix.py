#!/usr/bin/env python3
"""Prints the seeded-change matrix of DESIGN.md section 14 from seeded/*/meta.json:
| change | needs, to manifest | final result per check run |
and, on stderr, a summary (totals, seeds not caught by the check of their own property)."""
import glob, json, os, re, sys
ROOT = os.path.dirname(os.path.dirname(os.path.abspath(__file__)))
rows, own_missed, nowhere, nfi_only = [], [], [], []
for f in sorted(glob.glob(os.path.join(ROOT, "seeded", "*", "meta.json"))):
    m = json.load(open(f))
    needs = re.sub(r"[`*|]", "", re.sub(r"\s+", " ", m.get("needs_to_manifest", "")))[:150]
    res = []
    caught_by = []
    for k, v in sorted(m.get("checks_run", {}).items()):
        if v["caught"]:
            nfi = "no-failing-input-found" in (v.get("violation_line") or "")
            res.append(f"{k} ✓" + (" (obligation/correspondence only)" if nfi else ""))
            caught_by.append((k, nfi))
        else:
            res.append(f"{k} ✗")
    own = m["breaks_property"]
    if not any(k == own for k, _ in caught_by):
        own_missed.append((m["name"], [k for k, _ in caught_by]))
    if not caught_by:
        nowhere.append(m["name"])
    if caught_by and all(n for _, n in caught_by):
        nfi_only.append(m["name"])
    rows.append(f"| {m['name']} | {needs} | {', '.join(res)} |")
print("| change | needs, to manifest | final result per check run (✓ = exit 1 with a concrete failing input) |")
print("|---|---|---|")
print("\n".join(rows))
print(f"{len(rows)} seeds; not caught by own property's check: {own_missed}; caught nowhere: {nowhere}; "
      f"caught only without a concrete input: {nfi_only}", file=sys.stderr)
