#!/usr/bin/env python3
"""Prints markdown tables for DESIGN.md: per-property state (from evidence/*.json) and the
seeded-change catch matrix (from seeded/*/meta.json)."""
import glob, json, os, re
ROOT = os.path.dirname(os.path.dirname(os.path.abspath(__file__)))
print("| id | theorems (discharged/obligations) | axioms | streams | cases (distinct non-trivial) | quick wall s |")
print("|---|---|---|---|---|---|")
for f in sorted(glob.glob(os.path.join(ROOT, "evidence", "C*.json"))):
    e = json.load(open(f)); c = e["coverage"]
    ax = c.get("axioms")
    used = sorted({a for v in ax.values() for a in v}) if isinstance(ax, dict) else ["?"]
    streams = ", ".join(f"{s['stream']} ({s['cases']})" for s in c.get("streams", []) if "stream" in s)
    print(f"| {e['property_id']} | {c.get('discharged')}/{c.get('obligations')} | {', '.join(used) or 'none'} | {streams} | "
          f"{c.get('evaluations')} ({c.get('distinct_nontrivial')}) | {e['wall_s']} ({e['tier']}) |")
print()
print("| seeded change | breaks | needs (short) | checks run -> result |")
print("|---|---|---|---|")
for f in sorted(glob.glob(os.path.join(ROOT, "seeded", "*", "meta.json"))):
    m = json.load(open(f))
    needs = re.sub(r"\s+", " ", m.get("needs_to_manifest", ""))[:160]
    res = "; ".join(f"{k}: " + ("caught" + (" (no-failing-input-found)" if "no-failing-input-found" in (v.get('violation_line') or '') else f" `{(v.get('replay_input') or '')[:50]}`") if v["caught"] else "missed")
                    for k, v in sorted(m.get("checks_run", {}).items()))
    print(f"| {m['name']} | {m['breaks_property']} | {needs} | {res} |")
