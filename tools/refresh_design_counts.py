#!/usr/bin/env python3
"""Refreshes the numbers of DESIGN.md section 12 from evidence/*.json and the source tree:
 - the sentence with the total number of theorems / lines of Coq / drivers / harness crates,
 - the leading theorem count of every table row `| Cxx | N, ...`."""
import glob, json, os, re, subprocess
ROOT = os.path.dirname(os.path.dirname(os.path.abspath(__file__)))
ev = {}
for f in sorted(glob.glob(os.path.join(ROOT, "evidence", "C*.json"))):
    e = json.load(open(f)); ev[e["property_id"]] = e["coverage"]["obligations"]
total = sum(ev.values())
def wc(pat):
    n = 0
    for f in glob.glob(os.path.join(ROOT, pat), recursive=True):
        n += sum(1 for _ in open(f, errors="replace"))
    return n
coq = wc("coq/theories/**/*.v"); model = wc("coq/theories/Model/*.v")
drivers = len([f for f in glob.glob(os.path.join(ROOT, "ocaml", "*.ml")) if not f.endswith("prelude.ml") and not f.endswith("model.ml")])
crates = len([d for d in glob.glob(os.path.join(ROOT, "harness", "hx*")) if os.path.isdir(d) and os.path.basename(d) != "hxlib"])
p = os.path.join(ROOT, "DESIGN.md"); s = open(p).read()
s = re.sub(r"\(\d+ theorems at the time of writing", f"({total} theorems at the time of writing", s)
s = re.sub(r"The development is ≈ [\d  ]+ lines of Coq \([\d  ]+ of them", f"The development is ≈ {coq:,} lines of Coq ({model:,} of them".replace(",", " "), s)
s = re.sub(r"executable models and boolean specifications\), \w+ extracted OCaml drivers\s+and \w+ Rust harness crates",
           f"executable models and boolean specifications), {drivers} extracted OCaml drivers\nand {crates} Rust harness crates", s)
for pid, n in ev.items():
    s = re.sub(rf"^\| {pid} \| \d+([,;])", rf"| {pid} | {n}\1", s, flags=re.M)
open(p, "w").write(s)
print(total, coq, model, drivers, crates)
