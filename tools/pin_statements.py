#!/usr/bin/env python3
"""Pins the statements of coq/theories/Properties/C*.v (hash of the file with comments and whitespace
normalised) into coq/statement_hashes.json.  vp.py reports a proof problem when a pinned file's statements
change, so that theorems are never quietly weakened; re-run this tool deliberately after an intended change."""
import json, os, sys
sys.path.insert(0, os.path.dirname(os.path.abspath(__file__)))
import vp
pins = {}
for i in range(1, 21):
    pid = "C%02d" % i
    if os.path.exists(os.path.join(vp.COQ, "theories", "Properties", pid + ".v")):
        pins[pid] = vp.statement_hash(pid)
json.dump(pins, open(os.path.join(vp.COQ, "statement_hashes.json"), "w"), indent=1, sort_keys=True)
print("pinned", len(pins), "property files")
