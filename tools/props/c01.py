"""C01 — each generated input is benchmarked once; each value is dropped once."""
import os

from vp import Stream
import props.sample_common as S

DRV = S.DRV
CRATE = S.CRATE

RULE = ("run: the full product 6 entry points x 16 type shapes ({ZST,sized}x{Drop,no Drop} for input and output) x "
        "sample_size {0,1,2,3,5,17} x sample_count {0,1,3,7} x threads {1,2,3,5} x {bench,test} (18432 cases; input "
        "counters and the by-value function's drop/forget choice drawn at random), plus a counter-dense random stream; "
        "panic: a panic injected at every call index / generator index of every thread for small configurations "
        "(quick: sampled; thorough: exhaustive); tuned: no sample_size, a call costs 7..101 virtual ticks so that tuning takes "
        "2-5 rounds of sizes 1,2,4,..., 0-4 input counters of different kinds, threads 1-3, by-value and by-ref entry points; "
        "the model is driven with the round sizes read from thread 0's recorded log; counter-call-sequences: a random "
        "sequence of Bencher::counter (constants, also before with_inputs), input_counter and (u64 inputs) count_inputs_as "
        "calls over 1-4 kinds, explicit and tuned sizes, bench and test mode: the input counters in force are resolved by the "
        "model (last call of a kind decides), every input must be logged by exactly those, and the recorded per-sample counts "
        "(1 per iteration for every input-based kind, the constant otherwise) are compared too; e2e-macro-wrappers: the "
        "real-macro binary hx-sample-e2e, a #[divan::bench] function per wrapper arm of the attribute macro (Rust ABI, extern "
        "\"C\"/\"system\", generic, args, Bencher, Bencher+args) returning a value with a destructor, one process per case, "
        "threads 1-2: the per-thread logs must equal the model's for Bencher::bench with a sized output with destructor. Instrumented values carry thread<<32|ordinal; generator, counter "
        "closures, benchmarked closure and Drop impls append to the hook's event log, which also holds every clock "
        "read, barrier wait, tally clear and snapshot. Per-thread logs must equal the model's; the extracted sb_thread / "
        "sb_nodouble are evaluated on the implementation's logs. Non-trivial = at least one benchmarked call happened.")
ASSUMPTIONS = [
    "real memory safety of MaybeUninit/UnsafeCell (the abstract store discipline is its model-level shadow; no Miri)",
    "the optimiser (black_box) and the fences around timestamp reads: program order per thread is assumed",
    "number of rounds for explicit sample_size/sample_count is taken as ceil(count/threads) (group `loop` proves the loop); "
    "the barrier protocol itself is group `round`'s subject",
    "count_inputs_as registers a closure of the crate itself: that it sees every input is checked through the recorded "
    "per-sample counts (every input counts 1), not through the event log",
    "ZST values have no identity: their events are numbered by per-thread ordinals, so for ZSTs the check is on counts and order",
    "the barrier waits made by Drop for SampleBarrier while a thread unwinds (hook H5, events with a = 3) are part of the compared "
    "logs: the model's cut program ends with exactly the waits of the sample not yet reached (GuardWait); that they make the other "
    "threads terminate is C08's subject",
]
TRUSTED = [
    "harness/hx-sample/src/e2e.rs (real-macro benchmark functions logging calls and drops)",
    "harness/hx-sample instrumented types and closures (identifiers, per-thread ordinals, in-call flag)",
    "ocaml/sample.ml parsing/printing of event tokens",
]
CONSTS_USED = []


def _corpus(mode):
    out = []
    d = os.path.join(os.path.dirname(os.path.dirname(os.path.dirname(os.path.abspath(__file__)))), "corpus")
    for f in sorted(os.listdir(d)) if os.path.isdir(d) else []:
        if f.startswith("C01-") and f.endswith(".txt"):
            for line in open(os.path.join(d, f)):
                line = line.strip()
                if line and not line.startswith("#") and line.startswith(mode + ": "):
                    out.append(line[len(mode) + 2:])
    return out


def nontrivial(c, m):
    return " c" in m


def panic_cases(tier, rng):
    cases = []
    small = [(1, 1, 1), (2, 1, 1), (3, 2, 1), (2, 3, 2), (3, 3, 3), (1, 3, 2), (5, 1, 1), (2, 7, 5), (17, 1, 2)]
    combos = []
    for e in S.ENTRIES:
        for sh in S.SHAPES:
            if e < 2 and not sh.startswith("00"):
                continue            # input shape is irrelevant for bench/bench_local
            for (ss, sc, th) in small:
                combos.append((e, sh, ss, sc, th))
    for (e, sh, ss, sc, th) in combos:
        teff = S.eff_threads(e, th)
        for test in (0, 1):
            n = 1 if test else ss
            total = S.rounds(e, ss, sc, th, test) * n
            sites = [("c", pt, k) for pt in range(teff) for k in range(total + 1)]
            if e >= 2:
                sites += [("g", pt, k) for pt in range(teff) for k in range(total + 1)]
            if th > teff:
                sites.append(("c", teff, 0))      # a thread that does not exist: never fires
            if tier == "quick":
                sites = rng.sample(sites, min(len(sites), 2))
            for (s, pt, k) in sites:
                cases.append(S.case(e, sh, S.rand_cs(rng, e), rng.randrange(2), ss, sc, th, test, p=f"{s}:{pt}:{k}"))
    return cases


def streams(tier, rng):
    full = [S.case(e, sh, S.rand_cs(rng, e), rng.randrange(2), ss, sc, th, test)
            for (e, sh, ss, sc, th, test) in S.full_product()]
    dense = []
    n_dense = 1500 if tier == "quick" else 40000
    while len(dense) < n_dense:
        e = rng.choice([2, 3, 4, 5])
        cs = "".join(rng.choice("01") for _ in range(4))
        dense.append(S.case(e, rng.choice(S.SHAPES), cs, rng.randrange(2), rng.choice([1, 2, 3, 4, 5, 8, 17, 33]),
                            rng.choice([1, 2, 3, 4, 7, 10]), rng.choice([1, 2, 3, 4, 5, 8]), int(rng.random() < 0.2)))
    pan = panic_cases(tier, rng)
    tuned = [S.rand_tuned(rng) for _ in range(1200 if tier == "quick" else 20000)]
    e2e = S.e2e_cases(rng, tier)
    cseq = [S.counter_seq_case(rng, False) for _ in range(2500 if tier == "quick" else 40000)]
    cseq_t = [S.counter_seq_case(rng, True) for _ in range(800 if tier == "quick" else 12000)]
    return [
        Stream("corpus-run", "run", _corpus("run"), nontrivial=nontrivial),
        Stream("corpus-panic", "panic", _corpus("panic"), nontrivial=nontrivial),
        Stream("run-full-product", "run", full, nontrivial=nontrivial, hist=S.hist(full)),
        Stream("run-counter-dense", "run", dense, nontrivial=nontrivial, hist=S.hist(dense)),
        Stream("panic-injection", "panic", pan, nontrivial=nontrivial, hist=S.hist(pan)),
        # tuned sample size: rounds of sizes 1, 2, 4, ... (taken from the recorded history) with the same
        # counters in every round
        Stream("corpus-e2e", "e2e", _corpus("e2e"), nontrivial=nontrivial),
        Stream("corpus-tuned", "tuned", _corpus("tuned"), nontrivial=nontrivial, model_input=lambda c, i: c + "\t" + i),
        Stream("tuned-sample-size", "tuned", tuned, nontrivial=nontrivial, model_input=lambda c, i: c + "\t" + i,
               hist=S.hist(tuned)),
        Stream("tuned-sample-size-release", "tuned", tuned[::2], nontrivial=nontrivial,
               model_input=lambda c, i: c + "\t" + i, release=True),
        # any order of input_counter / count_inputs_as / constant counter calls: every input is shown to exactly
        # the input counters in force at the end (the last call of a kind decides)
        Stream("counter-call-sequences", "run", cseq, nontrivial=nontrivial, hist=S.hist(cseq)),
        Stream("counter-call-sequences-tuned", "tuned", cseq_t, nontrivial=nontrivial,
               model_input=lambda c, i: c + "\t" + i, hist=S.hist(cseq_t)),
        # the wrappers generated by #[divan::bench] (real-macro binary, one process per case): every returned
        # value is dropped once, after the timed section of its sample
        Stream("e2e-macro-wrappers", "e2e", e2e, nontrivial=nontrivial),
        Stream("e2e-macro-wrappers-release", "e2e", e2e[::3], nontrivial=nontrivial, release=True),
        # optimised build: the ZST fast path, forget/zeroed and black_box are what an optimiser may touch
        Stream("run-full-product-release", "run", full if tier != "quick" else full[::3], nontrivial=nontrivial, release=True),
        Stream("panic-injection-release", "panic", pan if tier != "quick" else pan[::2], nontrivial=nontrivial, release=True),
    ]


def shrink(item, rerun):
    """Greedy: smaller sample size / count / threads, no counters, while the spec still fails."""
    case, mode, rel = item["case"], item["mode"], item.get("release", False)

    def fails(c):
        mi = (lambda case, impl_line: case + "\t" + impl_line) if mode.startswith("tuned") else None   # history-driven modes
        impl, model, sb = rerun(mode, c, crate=CRATE, release=rel, model_input=mi, drv=DRV)
        # a candidate must fail the same way: same outcome word (a simplification that makes the harness itself
        # panic, e.g. a call script taking a buffer the generator no longer keeps, is not a smaller witness)
        same = impl.split(" ")[0] == str(item.get("impl") or "").split(" ")[0]
        return (not sb.startswith("true")) and same, impl, model, sb

    def setf(c, k, v):
        return " ".join(f"{k}={v}" if t.startswith(k + "=") else t for t in c.split(" "))

    changed = True
    while changed:
        changed = False
        for k, cands in (("th", [1, 2, 3]), ("sc", [1, 2, 3]), ("ss", [1, 2, 3]), ("cs", ["0000"]), ("test", [0])):
            cur = S.field(case, k)
            for v in cands:
                if cur is None or cur == "-":
                    continue
                if str(v) == cur or (k in ("th", "sc", "ss") and int(v) >= int(cur)):
                    continue
                if cur in [str(x) for x in cands] and [str(x) for x in cands].index(cur) < cands.index(v):
                    continue        # only ever move towards the simpler candidate (termination)
                c2 = setf(case, k, v)
                bad, impl, model, sb = fails(c2)
                if bad:
                    case = c2
                    item = dict(item, case=c2, impl=impl, model=model, spec_verdict=sb)
                    changed = True
                    break
    return item

MANIFEST = {
    "text": "Coq theorems for all six Bencher entry points x all 16 input/output type shapes x every sample size >= 0 x every "
            "input-counter set: the sample program of sample_recorder (its three code paths) never misuses a slot of the abstract "
            "store (no read of an uninitialised/moved-out cell, no double drop, thin-air ZSTs balanced by forgotten ones) and its "
            "observable events satisfy the monitor sb_sample (generated once; counted once per counter after generation and "
            "before the clear/start timestamp; consumed by exactly one call, in order, inside the timed section; outputs and lent "
            "inputs with destructors dropped exactly once after the end timestamp and snapshot, output before its input; by-value "
            "inputs never dropped by the framework); _local forms run on thread 0 for every configured thread count; every "
            "identifier in a thread's log was created on that thread; a panic of the benchmarked function or of the generator at "
            "any index leaves a prefix that drops nothing twice and uses nothing after its drop. The model is tied to the code by "
            "equality of per-thread event logs on the full 18432-case configuration product plus panic injection at every index.",
    "note": "Trusted: Coq kernel, extraction, ocaml/sample.ml, hooks (event log, virtual clock, run_bencher) and harness/hx-sample; "
            "real memory safety of MaybeUninit/UnsafeCell, black_box and fences are outside the model; ZSTs are checked by counts and order; "
            "rounds for explicit sample_size/sample_count and the barrier protocol belong to groups loop/round.",
    "technique": "machine-checked proof in Coq (phase-wise induction over an abstract cell store and a property monitor) + differential "
                 "correspondence of event logs against the real crate, monitor evaluated on the implementation's logs",
}
