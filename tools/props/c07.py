"""C07 — the thread pool never deadlocks, loses a wake-up or leaks workers."""
from props import pool_common as pc

DRV = "pool"
CRATE = "hx-sched"
RULE = pc.RULE
ASSUMPTIONS = pc.ASSUMPTIONS
TRUSTED = pc.TRUSTED + [
    "harness/hx-pool-e2e: in-process runs through Divan::default().test_benches()/run_benches(); thread census via /proc/self/task/*/comm (Linux)",
]
CONSTS_USED = pc.CONSTS_USED
GENERATED_OBLIGATIONS = [
    "C07_cfg_good : pool_unpark_when_old = 1, pool_wait_is_loop = true, pool_wait_while_nonzero = true",
]


def streams(tier, rng):
    from vp import Stream
    runs = ["runs=test,bench", "runs=bench", "runs=test", "runs=bench,bench,test", "runs=test,test,bench,bench"]
    # user code that prints to stdout on every thread of a threads=[2,3] benchmark (the run must finish), and
    # user code that panics on a pooled thread (must end as a reported panic, exit code 101, not a signal)
    runs += ["runs=bench noisy=1", "runs=test noisy=1", "runs=test,bench noisy=1", "runs=bench boom=1", "runs=test boom=1"]
    if tier != "quick":
        runs += ["runs=" + ",".join(rng.choice(["test", "bench"]) for _ in range(rng.randrange(1, 9))) for _ in range(40)]
    e2e = Stream("e2e-no-leaked-workers", "c07leak", runs, crate="hx-pool-e2e",
                 compare=lambda i, m: i == m,
                 describe="whole runs through divan's public API in one process (benchmarks with threads=[2,5] and [1,3], "
                          "test_benches / run_benches, each run owns its ThreadPool); afterwards /proc/self/task is polled "
                          "(<= 10 s) until no divan-* thread remains; expected: 0 survivors, 4 workers seen inside a call",
                 hist={"runs per case": sorted({len(r.split(",")) for r in runs})})
    return pc.streams("c07", tier, rng) + [e2e]


def post(tier, rng, api):
    return pc.post(tier, rng, api, publication=False)

shrink = pc.shrink

MANIFEST = {
    "text": "Coq theorems over ALL reachable states of the transition system of pool.rs, for every script of broadcasts (growing and shrinking thread counts), every interleaving, any panicking subset, spurious wake-ups and stale tokens included: caller parked with counter 0 and no token implies a worker of this broadcast is at its unpark (no lost wake-up); every non-final state has an enabled non-spurious step (deadlock freedom, also for the executable label enumeration); a lexicographic measure decreases on every non-spurious step, so every infinite execution contains infinitely many spurious wake-ups and the final state (pool dropped, all workers exited) is reachable from every state; after drop nothing is called and every worker exits. Tied to the code by replaying every explored schedule of the verbatim pool.rs (shuttle random/PCT/bounded DFS, deadlock detection with attached worker threads, join of all workers after drop) through the extracted step function.",
    "note": "Trusted: Coq kernel, extraction, OCaml driver, harness hx-sched (sched_std shim over shuttle 0.9.3), extract_consts.py. std's park/unpark/sync_channel(0)/Mutex semantics are assumed (token, spurious wake-ups allowed, rendezvous, sender drop closes the channel). Fairness is not assumed by the theorems: termination is stated as 'no infinite execution with finitely many spurious wake-ups'.",
    "technique": "machine-checked proof in Coq (inductive invariant, deadlock freedom, well-founded lexicographic measure) + trace-replay correspondence against the real pool.rs under a deterministic scheduler",
}
