"""C07 — the thread pool never deadlocks, loses a wake-up or leaks workers."""
from props import pool_common as pc

DRV = "pool"
CRATE = "hx-sched"
RULE = pc.RULE
ASSUMPTIONS = pc.ASSUMPTIONS
TRUSTED = pc.TRUSTED
CONSTS_USED = pc.CONSTS_USED
GENERATED_OBLIGATIONS = [
    "C07_cfg_good : pool_unpark_when_old = 1, pool_wait_is_loop = true, pool_wait_while_nonzero = true",
]


def streams(tier, rng):
    return pc.streams("c07", tier, rng)


def post(tier, rng, api):
    return pc.post(tier, rng, api, publication=False)
