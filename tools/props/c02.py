"""C02 — only the benchmarked calls happen inside a sample's timed section."""
import os

from vp import Stream
import props.sample_common as S

DRV = S.DRV
CRATE = S.CRATE

RULE = ("alloc: the harness binary installs divan::AllocProfiler as #[global_allocator]; generator, counter closures, "
        "benchmarked closure and the Drop impls of the instrumented types perform scripted real allocations through every "
        "GlobalAlloc entry point (alloc: Vec<u8>::with_capacity; alloc_zeroed: vec![0u8; n]; realloc grow/shrink: "
        "reserve_exact / shrink_to; dealloc: drop; leftovers leaked), scripts drawn at random per "
        "case over all entry points x 16 shapes x sizes x counts x threads x {bench,test}; the per-sample alloc_infos "
        "of the RunDump must equal the model's snapshot (tally of the calls' operations only) and the per-thread event "
        "logs (clock reads, clear, snapshot, generator/counter/call/drop events) must equal the model's; streams with "
        "no user allocation at all and with allocations only outside the calls must report no figures. sb_thread "
        "(monitor + timed-section decomposition) and the attribution equation are evaluated on the implementation's "
        "output. tuned-alloc: no sample_size (tuning rounds 1,2,4,...), the call script runs only for the first FL calls "
        "of a thread, so discarded tuning rounds allocate and kept samples may not: the reported figures of a kept sample must "
        "be the tally of its own calls. tuned-alloc-max-time: additionally a max_time (virtual ticks) that is used up in "
        "round k = 1, 2, 3, R-1, R, R+1 of the R rounds tuning needs, threads 1-3: when the run ends while still tuning the "
        "reported samples are those of the last tuning round and must carry their own figures. alloc-resize-or-free-only: the generator script allocates and keeps 1-2 buffers (k), the "
        "call script takes them (t) and only grows / shrinks / frees them, so the timed section contains no allocation: the "
        "figures must be exactly those operations. e2e-macro-wrappers: the real-macro binary hx-sample-e2e (one process per "
        "case, Divan::from_args().main(), TSC timer on the virtual clock) with a #[divan::bench] function for every wrapper arm "
        "of the attribute macro (Rust ABI, extern \"C\", extern \"system\", generic extern \"C\", generic Rust, args, Bencher, "
        "extern \"C\" Bencher, Bencher+args; args of a Copy type whose hand-written Clone logs and allocates, by value and by "
        "reference: the macro glue must not run it), outputs owning a Box: per-thread event logs must equal the model's for "
        "bench/bench(f) with a sized output with destructor, and the allocation rows of the printed table must be exactly the "
        "operations of the calls (alloc, no dealloc). Non-trivial = at least one sample reports non-zero figures (scripted stream) / at least one call "
        "(other streams).")
ASSUMPTIONS = [
    "compiler and CPU respect the fences around the timestamp reads (time/fence.rs): the model is program order per thread",
    "tally arithmetic is taken without overflow (figures over unbounded integers; widths are C10's subject)",
    "Vec<u8>::with_capacity(n)/reserve_exact/shrink_to/drop issue exactly alloc(n)/realloc/dealloc on the global allocator",
    "the hook's event logging inside the timed section does not allocate (log reserved up front)",
]
TRUSTED = [
    "harness/hx-sample/src/e2e.rs (real-macro benchmark functions) and the parsing of the table's allocation row labels",
    "harness/hx-sample script interpreter (fixed-size stack, black_box against allocation elision) and instrumented types",
    "ocaml/sample.ml parsing/printing of event tokens and figures",
]
CONSTS_USED = []


def _corpus(mode):
    out = []
    d = os.path.join(os.path.dirname(os.path.dirname(os.path.dirname(os.path.abspath(__file__)))), "corpus")
    for f in sorted(os.listdir(d)) if os.path.isdir(d) else []:
        if f.startswith("C02-") and f.endswith(".txt"):
            for line in open(os.path.join(d, f)):
                line = line.strip()
                if line and not line.startswith("#") and line.startswith(mode + ": "):
                    out.append(line[len(mode) + 2:])
    return out


def has_figures(c, m):
    return not m.rstrip().endswith("| A")


def has_call(c, m):
    return " c" in m


def script_hist(cases):
    h = S.hist(cases)
    h["scripts"] = {k: sum(1 for c in cases if S.field(c, k) != "-") for k in "GKFOI"}
    h["call_script_limit"] = sum(1 for c in cases if S.field(c, "FL") not in (None, "-"))
    return h


def streams(tier, rng):
    n = 3000 if tier == "quick" else 60000
    scripted = []
    while len(scripted) < n:
        e = rng.choice(S.ENTRIES)
        scripted.append(S.case(
            e, rng.choice(S.SHAPES), S.rand_cs(rng, e), rng.randrange(2),
            rng.choice([1, 2, 3, 5, 17]), rng.choice([1, 2, 3, 7]), rng.choice(S.THREADS), int(rng.random() < 0.1),
            G=S.rand_script(rng), K=S.rand_script(rng), F=S.rand_script(rng, 6), O=S.rand_script(rng), I=S.rand_script(rng)))
    prod = list(S.full_product())
    if tier == "quick":
        prod = rng.sample(prod, 4000)
    zero = [S.case(e, sh, S.rand_cs(rng, e), rng.randrange(2), ss, sc, th, test) for (e, sh, ss, sc, th, test) in prod]
    outside = []
    for (e, sh, ss, sc, th, test) in (rng.sample(prod, 2000) if tier == "quick" else prod):
        g, k, o, i = (S.rand_script(rng) for _ in range(4))
        if g == k == o == i == "-":
            g = "a16,d"
        outside.append(S.case(e, sh, S.rand_cs(rng, e), rng.randrange(2), ss, sc, th, test, G=g, K=k, F="-", O=o, I=i))
    resize = []
    for _ in range(1500 if tier == "quick" else 25000):
        e = rng.choice([2, 3, 4, 5])
        g, f = S.rand_kept_scripts(rng)
        resize.append(S.case(e, rng.choice(S.SHAPES), S.rand_cs(rng, e), rng.randrange(2), rng.choice([1, 2, 3, 5, 17]),
                             rng.choice([1, 2, 3, 7]), rng.choice(S.THREADS), 0, G=g, K=S.rand_script(rng), F=f,
                             O=S.rand_script(rng), I=S.rand_script(rng)))
    resize_t = []
    for _ in range(300 if tier == "quick" else 5000):
        e = rng.choice([2, 3, 4, 5])
        g, f = S.rand_kept_scripts(rng)
        resize_t.append(S.tuned_case(e, rng.choice(S.SHAPES), S.rand_cs(rng, e), rng.randrange(2), rng.choice([1, 2, 3, 5]),
                                     rng.choice([1, 2, 3]), rng.choice([20, 30, 45, 60]), 1000, G=g, F=f))
    e2e = S.e2e_cases(rng, tier)
    tmax = [S.tuned_max_case(rng) for _ in range(800 if tier == "quick" else 15000)]
    tuned = [S.rand_tuned(rng, scripts=True) for _ in range(1500 if tier == "quick" else 25000)]
    return [
        Stream("corpus-alloc", "alloc", _corpus("alloc"), nontrivial=has_call),
        Stream("alloc-scripted", "alloc", scripted, nontrivial=has_figures, hist=script_hist(scripted)),
        Stream("alloc-no-user-allocation", "alloc", zero, nontrivial=has_call, hist=script_hist(zero)),
        Stream("alloc-only-outside-the-calls", "alloc", outside, nontrivial=has_call, hist=script_hist(outside)),
        # tuned sample size: early calls allocate, later ones do not; the figures of a kept sample must be the
        # tally of its own calls (nothing inherited from a discarded tuning round with the same index)
        Stream("corpus-e2e", "e2e", _corpus("e2e"), nontrivial=has_call),
        Stream("corpus-tuned-alloc", "tuned-alloc", _corpus("tuned-alloc"), nontrivial=has_call,
               model_input=lambda c, i: c + "\t" + i),
        Stream("tuned-alloc", "tuned-alloc", tuned, nontrivial=has_call, model_input=lambda c, i: c + "\t" + i,
               hist=script_hist(tuned)),
        # the timed section only resizes / frees buffers the generator allocated: the figures are exactly those
        # operations (no allocation inside the calls at all)
        Stream("alloc-resize-or-free-only", "alloc", resize, nontrivial=has_figures, hist=script_hist(resize)),
        Stream("alloc-resize-or-free-only-tuned", "tuned-alloc", resize_t, nontrivial=has_call,
               model_input=lambda c, i: c + "\t" + i, hist=script_hist(resize_t)),
        # the wrappers generated by #[divan::bench] (real-macro binary, one process per case): the destructor of
        # the returned value runs after the timed section, its deallocation is not attributed to the samples
        Stream("e2e-macro-wrappers", "e2e", e2e, nontrivial=has_call),
        Stream("e2e-macro-wrappers-release", "e2e", e2e[::3], nontrivial=has_call, release=True),
        # max_time used up in round k: for k below the number of rounds tuning needs, the reported samples are
        # tuning-round samples; their figures must still be the tally of their own calls
        Stream("tuned-alloc-max-time", "tuned-alloc", tmax, nontrivial=has_figures,
               model_input=lambda c, i: c + "\t" + i, hist=script_hist(tmax)),
        # optimised build (allocation elision, reordering around the timestamps would show here)
        Stream("alloc-scripted-release", "alloc", scripted if tier != "quick" else scripted[::2], nontrivial=has_figures, release=True),
        Stream("alloc-no-user-allocation-release", "alloc", zero if tier != "quick" else zero[::2], nontrivial=has_call, release=True),
    ]


def shrink(item, rerun):
    case, mode, rel = item["case"], item["mode"], item.get("release", False)

    def fails(c):
        mi = (lambda case, impl_line: case + "\t" + impl_line) if mode.startswith("tuned") else None   # history-driven modes
        impl, model, sb = rerun(mode, c, crate=CRATE, release=rel, model_input=mi, drv=DRV)
        # a candidate must fail the same way: same outcome word (a simplification that makes the harness itself
        # panic, e.g. a call script taking a buffer the generator no longer keeps, is not a smaller witness)
        same = impl.split(" ")[0] == str(item.get("impl") or "").split(" ")[0]
        return (not sb.startswith("true")) and same, impl, model, sb

    def setf(c, k, v):
        return " ".join(f"{k}={v}" if t.startswith(k + "=") else t for t in c.split(" "))

    changed = True
    while changed:
        changed = False
        for k, cands in (("th", [1, 2]), ("sc", [1, 2]), ("ss", [1, 2]), ("cs", ["0000"]), ("test", [0]),
                         ("K", ["-"]), ("G", ["-", "a16,d"]), ("O", ["-", "a8,d"]), ("I", ["-", "a4,d"]), ("F", ["-", "a32"])):
            cur = S.field(case, k)
            for v in cands:
                if cur is None or cur == "-":
                    continue
                if str(v) == cur or (k in ("th", "sc", "ss") and int(v) >= int(cur)):
                    continue
                if cur in [str(x) for x in cands] and [str(x) for x in cands].index(cur) < cands.index(v):
                    continue        # only ever move towards the simpler candidate (termination)
                c2 = setf(case, k, v)
                bad, impl, model, sb = fails(c2)
                if bad:
                    case = c2
                    item = dict(item, case=c2, impl=impl, model=model, spec_verdict=sb)
                    changed = True
                    break
    return item

MANIFEST = {
    "text": "Coq theorems for all six entry points x 16 type shapes x every sample size x every counter set: the observable events "
            "of a sample decompose as generation/counting, start synchronisation with exactly one tally clear, start timestamp, the n "
            "calls in order (each with at most the callee's own drop of its argument), end timestamp, end barrier, tally snapshot, drops; "
            "on the loop's internal actions the only other things between the timestamps are the store/forget of each output; for every "
            "allocation script of generator/counters/function/destructors and every prior tally the snapshot equals the tally of exactly "
            "the calls' operations (allocations outside the calls are never reported). Tied to the code by equal event logs and equal "
            "per-sample alloc_infos with divan::AllocProfiler as the harness's real global allocator and scripted real allocations.",
    "note": "Trusted: Coq kernel, extraction, ocaml/sample.ml, hooks (event log lines at clock reads, barrier waits, tally clear and "
            "snapshot) and harness/hx-sample; fences/optimiser (program order assumed), tally width/overflow (C10) and the exact "
            "allocator calls made by Vec are outside the model.",
    "technique": "machine-checked proof in Coq (list decomposition, fold over the action list) + differential correspondence of event "
                 "logs and allocation figures against the real crate under its own allocation profiler",
}
