"""C03 — sample_count, sample_size and threads fix the number of calls exactly."""
from props import loop_common as L

DRV = "loop"
CRATE = "hx-loop"

RULE = ("[options reach the loop as the runner builds them: every case places each of sample_count, sample_size, min_time, max_time, skip_ext_time on one of four layers (runner, bench, group, outer group), optionally with losing values further out, and the harness merges the layers through the real BenchOptions::overwrite; the model takes the resolved values] "
        "hx-loop runs the real bench_loop_threaded (Bencher::with_inputs(..).bench_refs) under the per-thread virtual "
        "clock: random (sample_count incl. unset/0/< T, sample_size incl. 0/unset, T in 1..4, bench/test mode, counter on/off, "
        "overheads, timer frequency) x scripted generator/call/drop costs (constant, jittered, growing, per-thread skew, "
        "per-thread clock offsets); a second stream aims min_time/max_time at the elapsed time of some round +-1 tick so that "
        "the 'no time limit reached' premise is both met and not met; a third runs tuned sizes with max_time ending the run right "
        "after a tuning round, where the reported iters must still be the recorded samples times the calls each took. The harness prints per-thread call counts, the size of "
        "every round, recorded durations, final sample size, Stats.sample_count/iter_count and the timestamp log; the log "
        "drives the extracted model; the extracted c03_sb is evaluated on the implementation's output. End to end: a real "
        "#[divan::bench] binary (hx-loop-e2e) is run through Divan::main with sample_count/sample_size/threads given on the command "
        "line, in DIVAN_* variables, by builder calls before config_with_args() (alone, or with one of the two overridden by the environment; builder n = 0) "
        "or in bench/bench_group attributes, incl. attribute/group-level min_time = 0 and max_time = 0, groups with a display name, on a raw-identifier module, "
        "nested, and with sample_count = 0, benchmarks with args / types / consts with and without a Bencher parameter, extern \"C\"/\"system\" functions, sibling benchmarks "
        "with different thread counts run in one process (1-4 thread counts per benchmark, n < T, default n, test mode); the run is started through main(), through "
        "test_benches()/run_benches() on the pre-configured default runner, or through the API on a runner configured from arguments for the OTHER action "
        "(the requested action decides); the "
        "samples and iters cells of every t=N row and the per-thread call counts logged by the benchmark body are compared with the model "
        "run for each thread count, and the extracted c03_e2e_sb (T*ceil(n/T), that times s, s*ceil(n/T) calls per thread) is evaluated on them. "
        "Non-trivial = implementation and model agree on an `ok` line with at least one round; distinct by input line.")
ASSUMPTIONS = [
    "the T raw samples of a round come back from ThreadPool::par_extend in thread order, index 0 = caller (C06's subject)",
    "each thread calls the benchmarked function sample_size times per raw sample (C01's subject); observed here through the call counters",
    "the ways of setting the options (attribute, group, CLI, environment) are C15's subject; here BenchOptions is given directly",
]
TRUSTED = ["tools/props/loop_common.py (case generators; its Python rendering of the loop only aims cases at boundaries)"]
CONSTS_USED = ["default_sample_count", "max_time_cmp_is_ge", "min_time_cmp_is_lt", "tune_threshold", "tune_factor", "min_progress_picos"]
GENERATED_OBLIGATIONS = ["C03_default_count_const : default_sample_count = 100"]


def streams(tier, rng):
    big = tier != "quick"
    n1, n2 = (700, 100) if not big else (12000, 1500)
    cases = []
    # hand-picked corners first
    for T in (1, 2, 3, 4):
        for n in ("-", 0, 1, 2, 3, 4, 5, 7):
            for s in (0, 1, 3):
                cases.append(dict(mode="b", n=n, s=s, T=T, g=3, c=40, d=2, off=",".join("0" * 1 for _ in range(T))))
        cases.append(dict(mode="t", n=5, s=4, T=T, g=3, c=40, d=2))
        cases.append(dict(mode="t", n="-", s="-", T=T, g=3, c=40, d=2, p=1000000))
        cases.append(dict(mode="t", n=0, s=4, T=T, c=5))
        cases.append(dict(mode="t", n=3, s=0, T=T, c=5))
        cases.append(dict(mode="t", n=3, s=2, T=T, c=5, max="0:0"))
        cases.append(dict(mode="b", n=3, s=2, T=T, c=5, max="0:0"))
        cases.append(dict(mode="b", n=3, s=2, T=T, c=5, max="18446744073709551615:999999999", min="0:0"))
    while len(cases) < n1:
        c = L.rand_case(rng, tuned=(rng.random() < 0.12), timed=False)
        if rng.random() < 0.15:
            c["skip"] = "1"
        if L.fits(c):
            cases.append(c)
    aimed = []
    tries = 0
    while len(aimed) < n2 and tries < 20 * n2:
        tries += 1
        base = L.rand_case(rng, tuned=False, test=False, timed=True)
        if base["s"] == 0 or base["n"] == 0:
            continue
        if base["n"] == "-" or int(base["n"]) > 14:
            base["n"] = rng.randrange(1, 12)
        aimed.extend(L.aim_budget(rng, base, rng.choice(["max", "max", "min"])))
    e2e = L.e2e_cases(rng, 210 if not big else 500)
    cut = L.tuned_cut_cases(rng, 150 if not big else 3000)
    return [
        L.make_stream("c03-corpus", "c03", L.corpus("C03")),
        L.e2e_stream("c03-e2e-table", e2e),
        L.fig_stream("c03-figures-large", rng, 80 if not big else 2000),
        L.into_threads_stream("c03-into-threads", rng),
        L.make_stream("c03-counts", "c03", cases, hist=L.histogram(cases),
                      describe="(n, s, T, mode) x cost scripts, no time budget"),
        L.make_stream("c03-budget-premise", "c03", aimed, hist=L.histogram(aimed),
                      describe="explicit size; min_time/max_time at the elapsed time of a round -1/0/+1 tick"),
        L.make_stream("c03-tuned-cut-by-max-time", "c03", cut, hist=L.histogram(cut),
                      describe="tuned size, max_time ends the run right after a (mostly doubling) round: Stats.iter_count must be the "
                               "recorded samples times the calls each of them took"),
    ]


MANIFEST = {
    "text": "Coq theorems about an executable model of bench_loop_threaded (Model/Loop.v: modes, rem_samples saturating per raw sample, "
            "loop condition, test-mode break, early return, Stats.sample_count/iter_count), for every history of per-thread raw samples: "
            "explicit size s, count n (default = generated constant = 100), T >= 1 threads and no binding time limit => exactly "
            "ceil(n/T) rounds, T*ceil(n/T) recorded samples, every round of size s, s*ceil(n/T) calls per thread (C03_exact_counts); "
            "test mode => one round of size 1 per thread, nothing stored (C03_test_mode_once); n = 0, s = 0 or max_time = 0 => no round in "
            "either mode (C03_zero_runs_nothing); reported samples/iters = recorded count and count x size (C03_reported_figures); the "
            "boolean specification evaluated on the implementation holds of the model for every history (C03_model_sb). The model is tied "
            "to the code by differential execution of the real loop under the virtual clock (hx-loop) and by the generated constants.",
    "note": "All theorems full strength, closed under the global context. Trusted: Coq kernel, extraction, OCaml driver, hooks H1-H3, "
            "hx-loop harness, the hand-written model as validated by the correspondence streams. Assumed, not proved here: the pool returns "
            "one raw sample per thread in thread order with index 0 = caller (C06), each raw sample is sample_size calls (C01); the ways of "
            "setting the options are C15's subject (the end-to-end stream only uses CLI, DIVAN_* and attribute settings with explicit sizes). "
            "End to end: the samples/iters cells of every t=N row printed by the real runner and the per-thread call counts are compared with the "
            "model and with c03_e2e_sb (C03_e2e_model).",
    "technique": "machine-checked proof in Coq (closed-form invariant of the loop state over the executed prefix, least-index argument) "
                 "+ history-driven differential correspondence against the real crate + extracted boolean specification on implementation outputs",
}


def shrink(item, rerun_case):
    return L.shrink_item(item, rerun_case)
