"""C19 — automatic sample size: first power of two outlasting 100x timer precision."""
from props import loop_common as L

DRV = "loop"
CRATE = "hx-loop"

RULE = ("hx-loop runs the real bench_loop_threaded with sample_size unset under the per-thread virtual clock; the timer "
        "precision is set through set_precision_override, overheads through set_overhead_override. Streams: (1) threshold-aimed: "
        "round j's slowest sample is exactly 100*p, 101*p-1, 101*p (p = precision) on one thread of 1..3; (2) random "
        "per-iteration costs from far below to far above the precision (constant, growing per round, jittered, per-thread "
        "skew), sample counts incl. default, input-based counters of any subset of the four kinds (bytes, chars, cycles, items) on one "
        "bencher with their own scripted per-input values, allocations inside the call, overhead subtraction; (3) max_time cutting the tuning "
        "short; (4) end to end: tuned benchmarks of hx-loop-e2e run through Divan::main on the virtual clock with max_time as the only runtime "
        "option (--max-time, DIVAN_MAX_TIME, or Divan::max_time before config_with_args) reaching benchmarks with no, an attribute or a group "
        "option; the rounds and their sizes are read from the dumped event log, the model is driven by the same history and c19_e2e_sb is evaluated. "
        "Sizes of successive rounds (from the call counters), recorded durations, final size, Stats figures and the "
        "timestamp log are printed; the log drives the extracted model; the extracted c19_sb is evaluated on the "
        "implementation's output. Non-trivial = agreed `ok` line with at least one round; distinct by input line.")
ASSUMPTIONS = [
    "Timer::precision() is taken as given (override); its measurement is C11's subject",
    "sizes stay below 2^31 (the u32 doubling overflows after 31 rounds; it would take 2^31 iterations within 100x the precision)",
    "allocation data: the harness installs AllocProfiler as its global allocator and the benchmarked call allocates/frees a scripted number "
    "of Box<u64>; the per-sample tallies in the dump (index, alloc count/bytes, dealloc count, grow, shrink) are compared with the model's map",
]
TRUSTED = ["tools/props/loop_common.py (case generators; its Python rendering of the loop only aims cases at boundaries)"]
CONSTS_USED = ["tune_threshold", "tune_factor", "default_sample_count", "max_time_cmp_is_ge", "min_time_cmp_is_lt", "min_progress_picos"]
GENERATED_OBLIGATIONS = ["C19_loop_consts : tune_threshold = 100 /\\ tune_factor = 2"]


def streams(tier, rng):
    big = tier != "quick"
    n_thr, n_rand, n_cut = (300, 450, 150) if not big else (6000, 9000, 3000)
    thr, tries = [], 0
    while len(thr) < n_thr and tries < 30 * n_thr:
        tries += 1
        c = L.aim_threshold(rng)
        if c:
            thr.append(c)
    rand = []
    for T in (1, 2, 4):
        for p, cst in ((1, 1), (1, 100), (1, 101), (10, 1000), (10, 1010), (1000, 3), (7, 50)):
            for c in (dict(mode="b", n=3, s="-", T=T, p=p, c=cst, g=2, d=1, ic=1),
                      dict(mode="b", n="-", s="-", T=T, p=p, c=cst, g=2, d=1, oh=f"{cst},0,0,0")):
                if L.fits(c):
                    rand.append(c)
    while len(rand) < n_rand:
        c = L.rand_case(rng, tuned=True, test=False, timed=False)
        if c["n"] == 0:
            continue
        if rng.random() < 0.2:
            c["skip"] = "1"
        if L.fits(c):
            rand.append(c)
    cut = L.tuned_cut_cases(rng, n_cut)
    cli = L.c19_cli_cases(rng, 60 if not big else 300)
    return [
        L.make_stream("c19-corpus", "c19", L.corpus("C19")),
        L.c19_cli_stream("c19-e2e-max-time-covers-tuning", cli),
        L.make_stream("c19-precision-zero-panics", "c19", L.corpus("loop"), sb=False,
                      describe="precision override 0: `slowest / precision` panics (DivByZero) in the crate and in the model; outside the property"),
        L.make_stream("c19-threshold", "c19", thr, hist=L.histogram(thr),
                      describe="slowest/precision of some round exactly at 100 / 101"),
        L.make_stream("c19-random-costs", "c19", rand, hist=L.histogram(rand),
                      describe="costs far below to far above the precision; constant, growing, noisy"),
        L.make_stream("c19-max-time-cuts-tuning", "c19", cut, hist=L.histogram(cut),
                      describe="max_time at the elapsed time of some (tuning) round"),
    ]


MANIFEST = {
    "text": "Coq theorems about the same model of bench_loop_threaded with sample_size unset, for every history: round i has size 2^i while no "
            "earlier round's slowest sample exceeded 100 whole multiples of the precision, and 2^j0 from the first such round j0 on "
            "(C19_tune_sequence); samples, allocation map and per-input counts hold exactly what recording the rounds from j0 on (or only "
            "the newest round while none has passed) into empty collections gives, all at the final size (C19_discard_earlier); the round "
            "that first passes counts against sample_count: with no binding time limit exactly j0 + ceil(n/T) rounds run and T*ceil(n/T) "
            "samples are reported (C19_threshold_round_counts); max_time also stops tuning rounds (C19_max_time_covers_tuning); the checked "
            "u32 doubling cannot overflow within 31 rounds and does at 32 (C19_no_overflow_below_2_31, C19_doubling_overflows_example); the "
            "boolean specification holds of the model for every history (C19_model_sb). Threshold (<= 100) and factor (2) are generated "
            "from the source (C19_loop_consts).",
    "note": "All theorems full strength, closed under the global context. Timer::precision() is an input (override hook H3; its measurement "
            "is C11's); precision 0 is a modelled panic (DivByZero) outside the property. Trusted: Coq kernel, extraction, OCaml driver, hooks, "
            "hx-loop (AllocProfiler as global allocator, scripted allocations), the model as validated by the correspondence streams.",
    "technique": "machine-checked proof in Coq + history-driven differential correspondence (threshold-aimed scripts, costs far below to far "
                 "above the precision, max_time cutting tuning) + extracted specification on implementation outputs",
}


def shrink(item, rerun_case):
    return L.shrink_item(item, rerun_case)
