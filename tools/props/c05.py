"""C05 — reported statistics are the exact order statistics of the samples."""
import os
from fractions import Fraction

from vp import Stream, ROOT

DRV = "stats"
CRATE = "hx-stats"

RULE = ("stats: BenchContext::compute_stats on generated sample sets loaded through divan::__verif::stats_from_samples: "
        "n in 0..40 samples (empty, singleton, even/odd) plus a few sets of 100..300 (thorough: ..2000) samples, durations drawn from tie-heavy small ranges, 0, values around "
        "2^64 and up to 2^120, sample_size in {0 (only with no samples), 1, 2, 3, 7, 1000, 2^32-1, random}, allocation "
        "info present for a random subset of the indices (distinct figures per index, some keys beyond the last sample, "
        "figures up to 2^63-1), each counter kind absent / constant / per-input (complete or truncated), counts up to "
        "2^64-1; out-of-domain stream: sample_size 0 with samples, u128 overflow of the duration total; periter: one real "
        "sample through Bencher::with_inputs + input_counter; run: real Bencher runs (history-driven); e2e: Divan::main over several thread counts under the virtual clock. Non-trivial = at least two samples and an Ok result "
        "(stats), at least two inputs (periter); distinct by input line.")
ASSUMPTIONS = [
    "sort_unstable_by_key returns some permutation of the samples that is sorted by duration (theorems quantify over all of them)",
    "max_count/max_size of ThreadAllocInfo are never negative (C10); a key occurs once in alloc_info_by_sample (it is a HashMap)",
    "f64 rounding (u64/u128 -> f64 and the f64 divisions) is not modelled: f64 figures are exact rationals, compared at relative tolerance 1e-12 with exact zero/finite/inf/NaN classification",
    "the hook stats_from_samples loads exactly the given samples into a BenchContext (verif_load) and calls the real compute_stats",
]
TRUSTED = ["ocaml/stats.ml: parsing, and the (unverified) search for the sorted view the implementation's sort chose among tied samples; the view found is checked by the extracted admissibleb before it is used"]
CONSTS_USED = []

U64 = 2**64 - 1
I64 = 2**63 - 1


# --------------------------------------------------------------------------
# case construction
# --------------------------------------------------------------------------

def mk_case(ssize, durs, allocs, counts, uses):
    d = ",".join(map(str, durs)) if durs else "-"
    a = ";".join(":".join(map(str, (i,) + tuple(f))) for i, f in allocs) if allocs else "-"
    c = "|".join(",".join(map(str, k)) for k in counts)
    u = "".join("1" if b else "0" for b in uses)
    return f"{ssize} {d} {a} {c} {u}"


def parse_case(line):
    s, d, a, c, u = line.split(" ")
    durs = [] if d == "-" else [int(x) for x in d.split(",")]
    allocs = []
    if a != "-":
        for e in a.split(";"):
            f = [int(x) for x in e.split(":")]
            allocs.append((f[0], tuple(f[1:])))
    counts = [[int(x) for x in k.split(",")] if k else [] for k in c.split("|")]
    uses = [ch == "1" for ch in u]
    return int(s), durs, allocs, counts, uses


def gen_durs(rng, n):
    k = rng.random()
    if k < 0.30:      # heavy ties
        hi = rng.choice([1, 2, 3, 5])
        return [rng.randrange(hi + 1) * rng.choice([1, 7]) for _ in range(n)]
    if k < 0.40:      # all equal
        v = rng.choice([0, 1, 12345, 2**64, 2**100])
        return [v] * n
    if k < 0.60:      # realistic picosecond values
        base = rng.randrange(1, 10**9)
        return [base + rng.randrange(0, 50) * rng.choice([0, 1, 1000]) for _ in range(n)]
    if k < 0.75:      # around 2^64 and far above
        return [rng.choice([2**64 - 1, 2**64, 2**64 + 1, 2**100, 2**120, rng.getrandbits(rng.randrange(60, 121))]) for _ in range(n)]
    if k < 0.85:      # boundary mix incl. 0
        return [rng.choice([0, 0, 1, 2, 999, 1000, 2**32, 2**64 - 1, 2**64]) for _ in range(n)]
    return [rng.getrandbits(rng.randrange(1, 100)) for _ in range(n)]


def gen_figs(rng, idx):
    k = rng.random()
    if k < 0.6:       # small, distinct per index
        b = 10 * (idx + 1)
        return tuple(b + j + rng.randrange(3) for j in range(10))
    if k < 0.8:
        return tuple(rng.choice([0, 1, rng.randrange(1000), rng.getrandbits(40)]) for _ in range(10))
    return (rng.choice([I64, rng.getrandbits(62)]), rng.choice([I64, rng.getrandbits(62)])) + \
        tuple(rng.choice([U64, rng.getrandbits(63), 0]) for _ in range(8))


def gen_allocs(rng, n):
    k = rng.random()
    if k < 0.15:
        return []
    p = rng.choice([0.3, 0.7, 1.0])
    keys = [i for i in range(n) if rng.random() < p]
    if rng.random() < 0.15:
        keys += rng.sample([n, n + 1, n + 5, 2**32 - 1], rng.randrange(1, 3))
    rng.shuffle(keys)
    return [(i, gen_figs(rng, i)) for i in keys]


def gen_counts(rng, n):
    counts, uses = [], []
    for _ in range(4):
        k = rng.random()
        val = lambda: rng.choice([rng.randrange(10), rng.randrange(10**6), rng.getrandbits(64), U64, 0])
        if k < 0.35:
            counts.append([]); uses.append(False)
        elif k < 0.55:
            counts.append([val()]); uses.append(False)
        elif k < 0.62:     # several constant entries (only index 0 is looked up; the mean is over all)
            counts.append([val() for _ in range(rng.randrange(2, 4))]); uses.append(False)
        elif k < 0.92:     # per-input, one per sample, distinct-ish
            counts.append([val() if rng.random() < 0.3 else 100 * (i + 1) + rng.randrange(5) for i in range(n)]); uses.append(True)
        elif k < 0.96:     # per-input, truncated
            counts.append([val() for _ in range(rng.randrange(0, max(n, 1)))]); uses.append(True)
        else:              # per-input with nothing recorded
            counts.append([]); uses.append(True)
    return counts, uses


SIZES = [1, 1, 1, 2, 3, 7, 64, 1000, 2**31, 2**32 - 1]


def gen_case(rng, nmax):
    k = rng.random()
    if k < 0.08:
        n = 0
    elif k < 0.2:
        n = 1
    elif k < 0.3:
        n = 2
    else:
        n = rng.randrange(3, nmax + 1)
    ssize = rng.choice(SIZES) if rng.random() < 0.8 else rng.randrange(1, 2**32)
    if n == 0 and rng.random() < 0.5:
        ssize = 0
    durs = gen_durs(rng, n)
    allocs = gen_allocs(rng, n)
    counts, uses = gen_counts(rng, n)
    return mk_case(ssize, durs, allocs, counts, uses)


def gen_big(rng, n, order):
    """Many samples (the default sample_count is 100), allocation info and a per-input count for every index."""
    spread = rng.choice([n // 8 + 1, 10**9])
    durs = [1000 + rng.randrange(spread) for _ in range(n)]
    if order == "asc":       # the slowest sample has the highest index
        durs.sort()
    elif order == "desc":    # the fastest sample has the highest index
        durs.sort(reverse=True)
    allocs = [(i, gen_figs(rng, i)) for i in range(n)]
    counts = [[100 * (i + 1) + rng.randrange(7) for i in range(n)], [], [rng.randrange(1000)], []]
    return mk_case(rng.choice([1, 3, 16]), durs, allocs, counts, [True, False, False, False])


def gen_out_of_domain(rng):
    n = rng.randrange(1, 6)
    counts, uses = gen_counts(rng, n)
    if rng.random() < 0.5:     # sample size 0 although samples exist
        return mk_case(0, gen_durs(rng, n), gen_allocs(rng, n), counts, uses)
    durs = [rng.choice([2**128 - 1, 2**127, 2**128 - rng.randrange(1, 100)]) for _ in range(max(n, 2))]
    return mk_case(rng.choice([1, 2, 3]), durs, [], [[], [], [], []], [False] * 4)


FIXED = [
    "1 - - ||| 0000",
    "0 - - ||| 0000",
    "0 - 0:1:2:3:4:5:6:7:8:9:10 5||| 0000",
    "4294967295 - 3:1:2:3:4:5:6:7:8:9:10 |1,2||7 0101",
    "1 0 - ||| 0000",
    "1 5 0:1:2:3:4:5:6:7:8:9:10 9|8|7|6 0000",
    "3 10,7,9 0:5:100:1:2:3:4:5:6:7:8;2:1:1:1:1:1:1:1:1:1:1 4||1,2,3| 0010",
    "2 7,7,7,7 0:1:10:0:0:0:0:1:10:0:0;1:2:20:0:0:0:0:2:20:0:0;2:3:30:0:0:0:0:3:30:0:0;3:4:40:0:0:0:0:4:40:0:0 |||1,2,3,4 0001",
    "2 5,6 - |||1 0001",
    "1 3,1,2,1,3,2 1:11:12:13:14:15:16:17:18:19:20;3:31:32:33:34:35:36:37:38:39:40 10,20,30,40,50,60||| 1000",
    "1000 18446744073709551616,18446744073709551615,0 - ||| 0000",
    "1 1,1 0:9223372036854775807:9223372036854775807:18446744073709551615:18446744073709551615:0:0:0:0:0:0 18446744073709551615,18446744073709551615||| 1000",
]


def corpus_cases(prefix):
    d = os.path.join(ROOT, "corpus")
    out = []
    if os.path.isdir(d):
        for f in sorted(os.listdir(d)):
            if f.startswith(prefix) and f.endswith(".txt"):
                for line in open(os.path.join(d, f), encoding="utf-8"):
                    line = line.rstrip("\n")
                    if line and not line.startswith("#"):
                        out.append(line)
    return out


# --------------------------------------------------------------------------
# comparison of an implementation line with a model line
# --------------------------------------------------------------------------

def parse_num(tok):
    """('nan'|'inf'|Fraction) from the harness's `m:e`, the model's `a/b`, or a plain integer."""
    if tok in ("nan", "inf", "-inf"):
        return tok
    if ":" in tok:
        m, e = tok.split(":")
        m, e = int(m), int(e)
        return Fraction(m) * (Fraction(2) ** e)
    if "/" in tok:
        a, b = tok.split("/")
        if int(b) == 0:
            return "baddenominator"
        return Fraction(int(a), int(b))
    return Fraction(int(tok))


def close(x, y):
    """x: implementation value, y: exact model value."""
    if isinstance(x, str) or isinstance(y, str):
        return x == y
    if y == 0 or x == 0:
        return x == y
    return abs(x - y) <= Fraction(1, 10**12) * abs(y)


def compare(impl, model):
    if impl == model:
        return True
    ti, tm = impl.split(" "), model.split(" ")
    if len(ti) != len(tm) or ti[0] != "ok" or tm[0] != "ok":
        return False
    for a, b in zip(ti[1:], tm[1:]):
        ka, _, va = a.partition("=")
        kb, _, vb = b.partition("=")
        if ka != kb:
            return False
        if ka in ("sc", "ic", "t", "c"):
            if va != vb:
                return False
            continue
        xa = va.replace(";", ",").split(",")
        xb = vb.replace(";", ",").split(",")
        if len(xa) != len(xb):
            return False
        try:
            if not all(close(parse_num(p), parse_num(q)) for p, q in zip(xa, xb)):
                return False
        except (ValueError, ZeroDivisionError):
            return False
    return True


def compare_run(impl, model):
    if not (impl.startswith("IN ") and model.startswith("IN ") and " OUT " in impl and " OUT " in model):
        return False
    ii, io = impl[3:].split(" OUT ", 1)
    mi_, mo = model[3:].split(" OUT ", 1)
    return ii == mi_ and compare(io, mo)


KINDS = "bcyi"


def gen_run(rng):
    """<sample_count> <sample_size|t> <threads> <opt/pre/inp/post[/cia] kinds> <allocator behaviour> <seed> [<shape>]"""
    def subset(p):
        return "".join(k for k in KINDS if rng.random() < p) or "-"
    k = rng.random()
    if k < 0.45:      # a constant counter (options or Bencher::counter) and an input counter of the SAME kind
        kind = rng.choice(KINDS)
        other = rng.choice(KINDS)
        where = rng.random()
        opt = kind if where < 0.5 else "-"
        pre = kind if where >= 0.35 else "-"
        inp = kind
        if rng.random() < 0.4 and other != kind:      # two kinds mixed
            inp = "".join(sorted({kind, other}, key=KINDS.index))
            if rng.random() < 0.5:
                opt = "".join(sorted(set(opt.replace("-", "")) | {other}, key=KINDS.index)) or "-"
        post = "-"
        if rng.random() < 0.3:       # Bencher::counter AFTER input_counter: same kind, another kind, or both
            post = rng.choice([kind, other, "".join(sorted({kind, other}, key=KINDS.index))])
        spec = f"{opt}/{pre}/{inp}/{post}"
    else:
        spec = f"{subset(0.25)}/{subset(0.25)}/{subset(0.3)}/{subset(0.15)}"
    size = "t" if rng.random() < 0.2 else str(rng.choice([0, 1, 1, 2, 3, 8]))
    count = rng.choice([0, 1, 2, 3, 4, 5, 8, 20]) if size != "t" else rng.choice([1, 2, 3, 5])
    if rng.random() < 0.15:      # zero-sized input (the counter value comes from the call ordinal) x output shape
        inp = "".join(k for k in KINDS if rng.random() < 0.4) or rng.choice(KINDS)
        o = "".join(k for k in KINDS if rng.random() < 0.2) or "-"
        p = "".join(k for k in KINDS if rng.random() < 0.2) or "-"
        mode = rng.choice("00al")
        th = 1 if mode == "l" else rng.choice([1, 1, 2, 3])
        return (f"{count} {size} {th} {o}/{p}/{inp}/- {mode} {rng.randrange(1000)} "
                f"{rng.choice(['zu', 'zn', 'zd', 'zs'])}")
    if rng.random() < 0.15:      # count_inputs_as::<K>() for some kinds, alone or next to constants of other kinds
        cia = "".join(k for k in KINDS if rng.random() < 0.4) or rng.choice(KINDS)
        others = [k for k in KINDS if k not in cia]
        o = "".join(k for k in others if rng.random() < 0.4) or "-"
        p = "".join(k for k in others if rng.random() < 0.3) or "-"
        if rng.random() < 0.3:
            o = rng.choice(cia) if o == "-" else o       # a constant of the SAME kind is overridden
        return (f"{count} {size} {rng.choice([1, 1, 2, 3])} {o}/{p}/-/-/{cia} {rng.choice('0ao')} {rng.randrange(1000)}")
    if rng.random() < 0.12:      # lazy initialisation: only the first calls of the run allocate; mostly with tuning
        size = "t" if rng.random() < 0.75 else size
        count = rng.choice([1, 2, 3, 5]) if size == "t" else count
        return f"{count} {size} 1 {spec} l {rng.randrange(1000)}"
    return f"{count} {size} {rng.choice([1, 1, 2, 3])} {spec} {rng.choice('0aofsgmmm')} {rng.randrange(1000)}"


def gen_e2e(rng):
    """<sample_count> <sample_size> <thread counts> <per-input counter 0|1|2|3><allocation mode 0|a|i|x|r> <seed>"""
    th = rng.choice(["1", "2", "3", "1,2", "1,2", "2,1", "1,2,3", "3,1,2", "1,2,4", "2,2", "1,3"])
    return (f"{rng.choice([1, 2, 3, 4, 5, 7, 8])} {rng.choice([1, 1, 2, 3, 5])} {th} "
            f"{rng.choice('01223')}{rng.choice('00iiixar')} {rng.randrange(1000)}")


# --------------------------------------------------------------------------
# streams
# --------------------------------------------------------------------------

def hist_of(cases):
    h = {"n=0": 0, "n=1": 0, "n=2": 0, "n odd>=3": 0, "n even>=4": 0, "ties at an observed position": 0,
         "duration >= 2^64": 0, "duration 0": 0, "sample_size 0": 0, "alloc info missing for some index": 0,
         "alloc key beyond samples": 0, "per-input counter": 0, "truncated per-input counter": 0}
    for c in cases:
        s, durs, allocs, counts, uses = parse_case(c)
        n = len(durs)
        h["n=0" if n == 0 else "n=1" if n == 1 else "n=2" if n == 2 else "n odd>=3" if n % 2 else "n even>=4"] += 1
        sd = sorted(durs)
        if n >= 2:
            pos = {0, n - 1, n // 2} | ({n // 2 - 1} if n % 2 == 0 else set())
            if any(sd.count(sd[p]) > 1 for p in pos):
                h["ties at an observed position"] += 1
        h["duration >= 2^64"] += any(d >= 2**64 for d in durs)
        h["duration 0"] += any(d == 0 for d in durs)
        h["sample_size 0"] += s == 0
        keys = {i for i, _ in allocs}
        h["alloc info missing for some index"] += any(i not in keys for i in range(n))
        h["alloc key beyond samples"] += any(i >= n for i in keys)
        h["per-input counter"] += any(uses)
        h["truncated per-input counter"] += any(u and len(k) < n for k, u in zip(counts, uses))
    return h


def streams(tier, rng):
    quick = tier == "quick"
    n_main = 1800 if quick else 40000
    nmax = 12
    main = corpus_cases("C05-stats") + list(FIXED)
    for k, n in enumerate([100, 257, 300] if quick else [100, 101, 255, 256, 257, 300, 513, 1000, 1001, 2000]):
        for order in (["rand", "asc", "desc"][k % 3:][:1] if quick else ["rand", "asc", "desc"]):
            main.append(gen_big(rng, n, order))
    while len(main) < n_main:
        main.append(gen_case(rng, 40 if rng.random() < 0.03 else nmax))
    ood = corpus_cases("C05-ood") + ["0 5 - ||| 0000", "0 1,2,3 0:1:2:3:4:5:6:7:8:9:10 4||| 0000",
                                    "1 340282366920938463463374607431768211455,1 - ||| 0000"]
    while len(ood) < (60 if quick else 1500):
        ood.append(gen_out_of_domain(rng))
    per = ["1 0", "1 7", "3 10,20,31", "2 18446744073709551615,18446744073709551615", "4 1,1,1,0", "5 0,0,0,0,0"]
    while len(per) < (150 if quick else 3000):
        s = rng.choice([1, 2, 3, 5, 8, 16, 33, 64])
        per.append(f"{s} " + ",".join(str(rng.choice([rng.randrange(100), rng.getrandbits(64), U64, 0, rng.getrandbits(32)]))
                                      for _ in range(s)))

    runs = corpus_cases("C05-run")
    for kind in KINDS:     # constant of kind K (options / Bencher::counter) overridden by input_counter(K), explicit and tuned size
        runs += [f"3 2 1 {kind}/-/{kind}/- 0 7", f"3 2 1 -/{kind}/{kind}/- 0 7", f"4 1 2 {kind}/{kind}/{kind}/- 1 5",
                 f"2 t 1 {kind}/-/{kind}/- 0 3", f"3 2 1 -/-/{kind}/{kind} 0 7", f"2 t 1 -/-/{kind}/{kind} 0 3",
                 f"4 1 2 {kind}/-/bi/{kind} 1 5"]
    for mode in "0aofsgm":      # what the timed section does with the allocator (memory may be acquired outside it)
        runs += [f"3 2 1 -/-/-/- {mode} 7", f"4 1 2 -/-/i/- {mode} 5", f"6 3 1 -/-/-/- {mode} 11"]
    for kind in KINDS:     # count_inputs_as::<K>() alone, next to a constant of another kind, overriding one of its own kind
        other = KINDS[(KINDS.index(kind) + 1) % 4]
        runs += [f"3 2 1 -/-/-/-/{kind} 0 7", f"3 2 1 {other}/-/-/-/{kind} a 7", f"4 1 2 -/{other}/-/-/{kind} 0 5",
                 f"3 2 1 {kind}/-/-/-/{kind} 0 9"]
    runs += ["2 1 2 -/b/-/-/bcyi 0 5", "2 t 1 y/-/-/-/c l 5"]
    for shape in ("zu", "zn", "zd", "zs"):     # zero-sized input x output (), u64, zero-sized with Drop, String
        runs += [f"3 2 1 -/-/i/- 0 7 {shape}", f"4 1 2 b/-/bi/- a 5 {shape}", f"2 t 1 -/-/y/- 0 3 {shape}"]
    runs += ["3 t 1 -/-/-/- l 0", "3 t 1 -/-/-/- l 2", "5 t 1 -/-/i/- l 1", "4 2 1 -/-/-/- l 1"]
    runs += ["8 2 1 -/-/-/- m 21", "8 1 1 b/-/b/- m 2", "2 t 1 -/-/-/- f 3", "2 t 1 -/-/-/- s 4"]
    runs += ["0 2 1 -/-/-/- 0 1", "2 0 1 -/-/b/- 1 3", "1 1 1 -/-/-/- 0 1", "3 2 1 -/-/b/- 1 7", "4 1 2 -/c/i/- 1 5",
             "5 3 1 -/i/-/- 0 9", "2 1 3 bc/y/bi/- 1 4", "0 2 1 i/-/i/- 0 1", "3 3 1 bi/ci/bci/- 1 11"]
    while len(runs) < (300 if quick else 4500):
        runs.append(gen_run(rng))

    e2e = corpus_cases("C05-e2e") + ["5 2 1,2 0 3", "4 3 2 1 3", "7 1 1,2,3 1 9", "3 2 2,1 1 4", "1 5 1,3 0 8",
                                      "6 1 1,2 2i 3", "7 1 1,2 20 6", "8 2 1,3 30 4", "5 1 2 10 9", "6 1 1,2 0i 3", "4 3 2 1a 3", "7 1 1 0i 5", "5 1 1,2,3 0x 8", "8 2 1,2 1r 2"]
    while len(e2e) < (60 if quick else 800):
        e2e.append(gen_e2e(rng))

    def nt(c, m):
        return m.startswith("ok ") and c.split(" ")[1].count(",") >= 1

    mi = lambda case, impl: case + "\t" + impl
    rel = main[: len(main) // 2]
    return [
        Stream("compute_stats-debug", "stats", main, compare=compare, nontrivial=nt, model_input=mi, hist=hist_of(main)),
        Stream("compute_stats-release", "stats_rel", rel, compare=compare, nontrivial=nt, model_input=mi, release=True,
               hist=hist_of(rel)),
        Stream("out-of-domain-debug", "stats", ood, compare=compare, nontrivial=lambda c, m: False, model_input=mi,
               describe="sample_size 0 with samples (division by zero) and u128 overflow of the total: outside the property's "
                        "quantifier, implementation and model must still agree (panic kinds included)"),
        Stream("out-of-domain-release", "stats_rel", ood, compare=compare, nontrivial=lambda c, m: False, model_input=mi,
               release=True),
        Stream("per-input-counter-stored", "periter", per, nontrivial=lambda c, m: "," in c),
        Stream("real-runs-debug", "run", runs, compare=compare_run, model_input=mi,
               nontrivial=lambda c, m: m.startswith("IN ") and len(m.split(" ")) > 2 and m.split(" ")[2].count(",") >= 1,
               describe="real Bencher runs (sample_count, explicit or tuned sample_size, threads 1..3, constant counters from the "
                        "options and from Bencher::counter (before and after input_counter) combined with input_counter or "
                        "count_inputs_as::<K>() of the same "
                        "(sized inputs, and zero-sized inputs with outputs (), u64, zero-sized with Drop, String) "
                        "and of other kinds, the timed section allocating+freeing / only allocating / only freeing / only "
                        "shrinking / only growing memory (acquired by the generator) / nothing / a per-input mix / only in "
                        "the first calls of the run (lazy initialisation, with tuning rounds that are discarded), "
                        "allocating or not, AllocProfiler installed): the stored per-input counts must be one per recorded "
                        "sample with that sample's own value (the harness knows the inputs it generated), a kind whose last word "
                        "was a constant stores exactly that constant and is not per-input, the allocation records are exactly "
                        "the samples with a non-zero tally row each carrying its own rows, and compute_stats "
                        "on what the run recorded; model driven by the recording"),
        Stream("e2e-thread-counts", "e2e", e2e, model_input=mi, nontrivial=lambda c, m: "," in c.split(" ")[2],
               describe="the real benchmark binary hx-stats-e2e through Divan::main (run_bench_entry: one row per thread "
                        "count) with explicit sample_count/sample_size, TSC timer on the virtual clock: every call advances "
                        "the clock by a known amount, so the samples each thread count records are known; each printed row "
                        "(fastest/slowest/median/mean as 4-digit truncations, samples, iters) must stand for the statistics "
                        "and the allocation blocks shown under it (max alloc / alloc / dealloc / grow / shrink; calls allocate "
                        "only in the middle time classes, only in the extreme ones, always, at random or never) must be exactly "
                        "those with a non-zero figure in some sample, and every throughput cell (per-input item counts independent "
                        "of, anti-correlated or correlated with the sample time) must be based on the count of a sample that "
                        "supplied that column's time (mean: the mean count) "
                        "of exactly that run's samples (model: compute_stats; Sb: the declarative order statistics)"),
        Stream("real-runs-release", "run_rel", runs[: len(runs) // 2], compare=compare_run, model_input=mi, release=True,
               nontrivial=lambda c, m: m.startswith("IN ") and len(m.split(" ")) > 2 and m.split(" ")[2].count(",") >= 1),
    ]


# --------------------------------------------------------------------------
# shrinking a failing case: drop samples / allocation entries while the spec still fails
# --------------------------------------------------------------------------

def drop_sample(parsed, k):
    s, durs, allocs, counts, uses = parsed
    durs2 = durs[:k] + durs[k + 1:]
    allocs2 = [((i - 1) if i > k else i, f) for i, f in allocs if i != k]
    counts2 = [(c[:k] + c[k + 1:]) if u else list(c) for c, u in zip(counts, uses)]
    return s, durs2, allocs2, counts2, uses


def shrink(item, rerun):
    if item.get("mode") not in ("stats", "stats_rel"):
        return item
    mi = lambda case, impl: case + "\t" + impl
    cur = parse_case(item["case"])

    def fails(p):
        case = mk_case(*p)
        impl, model, sb = rerun(item["mode"], case, crate=item.get("crate", CRATE), release=item.get("release", False),
                                model_input=mi, drv=item.get("drv", DRV))
        return (not sb.startswith("true")), case, impl, model, sb

    best = None
    budget = [250]          # at most this many re-runs

    def try_drop(cur, ks):
        if budget[0] <= 0:
            return None
        budget[0] -= 1
        cand = cur
        for k in sorted(ks, reverse=True):
            cand = drop_sample(cand, k)
        bad, case, impl, model, sb = fails(cand)
        return (cand, (case, impl, model, sb)) if bad else None

    # delta debugging on the samples: drop chunks of decreasing size
    chunk = max(1, len(cur[1]) // 2)
    while chunk >= 1 and budget[0] > 0:
        k = 0
        removed = False
        while k < len(cur[1]) and budget[0] > 0:
            r = try_drop(cur, range(k, min(k + chunk, len(cur[1]))))
            if r:
                cur, best = r
                removed = True
            else:
                k += chunk
        if chunk == 1 and not removed:
            break
        chunk = chunk // 2 if chunk > 1 else (1 if removed else 0)
    # then allocation entries
    j = 0
    while j < len(cur[2]) and budget[0] > 0:
        budget[0] -= 1
        cand = (cur[0], cur[1], cur[2][:j] + cur[2][j + 1:], cur[3], cur[4])
        bad, case, impl, model, sb = fails(cand)
        if bad:
            cur, best = cand, (case, impl, model, sb)
        else:
            j += 1
    if best:
        item = dict(item)
        item["case"], item["impl"], item["model"], item["spec_verdict"] = best
    return item


MANIFEST = {
    "text": ("Coq theorems about an executable model of BenchContext::compute_stats that takes the sorted view of the samples as "
             "a parameter and are proved for every list of durations and EVERY admissible view (every permutation of the "
             "indexed samples sorted by duration, i.e. whatever sort_unstable does with ties): fastest/slowest/median/mean are "
             "the floor-division order statistics in integer picoseconds (C05_order_stats), fastest <= median <= slowest and "
             "fastest <= mean <= slowest hold with the floors (C05_bounds), no panic and every f64 field finite for all inputs "
             "incl. no samples / sample size 0 / no counters (C05_total_no_nan; the pre-fix code is refuted by an Example, and "
             "sample size 0 WITH samples still divides by zero: C05_total_refuted_zero_sample_size, unreachable from the "
             "sampling loop), allocation and counter figures of a column come from the same sample index as its time and the "
             "even-count median averages two different samples (C05_provenance), means over all infos/iterations (C05_means), "
             "counter presence, the stored per-input counter is the sum over the sample's inputs / sample size without loss "
             "(C05_counter_per_iter), and the boolean specification used by the violation search holds of the model "
             "(C05_model_sb). Tied to the code by differential execution through divan::__verif::stats_from_samples on "
             "generated sample sets (ties with distinct per-index data, empty/singleton, > 2^64, up to 300/2000 samples, debug "
             "and release) with membership comparison over the admissible views, and by history-driven replays of real Bencher "
             "runs (threads 1..3, per-input counters, AllocProfiler installed)."),
    "note": ("Trusted: Coq kernel, extraction (ExtrOcamlBasic), ocaml/stats.ml (parsing; its search for the view the real sort "
             "chose is unverified but the view is checked by the extracted admissibleb), hooks stats_from_samples/verif_load/"
             "run_bencher, harness hx-stats. f64 rounding is not modelled: f64 figures are exact rationals compared at 1e-12 "
             "relative tolerance with exact zero/finite/inf/NaN classification. Guards of the theorems: no u128 overflow of the "
             "duration total, no u64 overflow of the iteration count, counter values fit u64, allocation peaks non-negative. "
             "Not done: C05_print_total (composition with the formatting/painter models of other groups)."),
    "technique": "machine-checked proof in Coq (lists, permutations, lia/nia over N) + differential and history-driven correspondence against the real crate",
}
