"""C14 — listing runs nothing and agrees exactly with what a run would execute."""
import glob
import os
from vp import Stream, ROOT
from props import treelib as T

DRV = "tree"
CRATE = "hx-run"

RULE = ("Synthetic registries (random module trees of depth <= 4 with shared prefixes, bench_group entries with and without "
        "custom names and options, plain / argument (12 container kinds) / generic type x const entries, duplicate names) pushed "
        "through divan::__private into the real global lists; per case the real CLI is run as child processes: NEXTEST=1 --list "
        "--format terse (T), --test (R), --list (L), Divan::from_args().list_benches() (A), and for the round-trip stream every "
        "listed path fed back as the only --exact filter (E); x {no flag, --ignored, --include-ignored} x exact / literal-regex "
        "positive and skip filters. The ignore stream enumerates option chains group/group/leaf over {none, unset, true, false}. "
        "Non-trivial = the model's test run executes at least one case; distinct by input line.")
ASSUMPTIONS = [
    "the filter is an arbitrary predicate on the display path in the theorems; the correspondence uses exact and literal-regex filters",
    "sorting is an arbitrary permutation of siblings / argument names (outputs are compared as multisets; the terse listing, which is not sorted, in order)",
    "no `threads` option: one run per case",
    "GenericBenchEntry with neither type nor const (unreachable!() in display_name) is not representable: the macro never emits it",
]
TRUSTED = [
    "harness/hx-run: synthetic entries built with the same public __private API the macros use; the painted tree is parsed by indentation",
    "clap argument parsing and regex-lite are exercised, not modelled",
]
CONSTS_USED = []


def corpus_cases():
    out = []
    for p in sorted(glob.glob(os.path.join(ROOT, "corpus", "C14-*.txt"))):
        for l in open(p, encoding="utf-8"):
            l = l.rstrip("\n")
            if l and not l.startswith("#"):
                out.append(l)
    return out


def ignore_chain_cases():
    """crate::g1::g2::leaf with every combination of options on g1, g2 and the leaf, under the three flags;
    plain, argument and generic leaves."""
    out = []
    O = ["-", "n", "t", "f"]
    for flag in "noy":
        for o1 in O:
            for o2 in O:
                for ol in O:
                    r = T.Reg()
                    r.bench("cr::g1::g2", "leaf", opts=ol)
                    r.bench("cr::g1", "mid", opts="-")
                    r.bench("cr::g1::g2", "argl", opts=ol, kind="i", vals=[1, 2])
                    r.bench("cr", "top", opts="-")
                    r.generic_fn("cr::g1::g2", "gen", types=[0, 1], opts=ol)
                    r.group("cr", "g1", opts=o1)
                    r.group("cr::g1", "g2", opts=o2, display="G Two")
                    out.append(r.line("TRLA", ign=flag))
    return out


def empty_threads_cases():
    """`threads` present but empty — on the benchmark, inherited from a group, or set through the builder
    (`Divan::threads([])`): every listed case still runs exactly once."""
    out = []
    for (og, ol) in [("-", "ne"), ("ne", "-"), ("ne", "n"), ("te", "f"), ("n", "fe"), ("ne", "ne"), ("-", "-"), ("te", "-")]:
        for flag in "noy":
            r = T.Reg()
            r.bench("cr::g", "plain", opts=ol)
            r.bench("cr::g", "withargs", opts=ol, kind="i", vals=[1, 2, 3])
            r.bench("cr", "top", opts="-")
            r.generic_fn("cr::g", "gen", types=[0, 1], opts=ol)
            r.group("cr", "g", opts=og)
            out.append(r.line("TRmnLE", ign=flag))
    return out


def nt(case, model):
    return "=C" in model


def hist_of(cases):
    h = {"ign_none": 0, "ign_only": 0, "ign_include": 0, "with_filters": 0, "exact": 0, "entries_1_3": 0, "entries_4_8": 0, "entries_9plus": 0,
         "has_generic": 0, "has_args": 0, "has_ignore_true": 0, "has_ignore_false": 0}
    for c in cases:
        items = c.split(" ")
        f = items[0].split(",")
        h[{"n": "ign_none", "o": "ign_only", "y": "ign_include"}[f[2]]] += 1
        if f[4] != "-" or f[5] != "-":
            h["with_filters"] += 1
        if f[3] == "e":
            h["exact"] += 1
        n = len(items) - 1
        h["entries_1_3" if n <= 3 else "entries_4_8" if n <= 8 else "entries_9plus"] += 1
        if any(i.startswith("G,") and not i.endswith(",-") for i in items):
            h["has_generic"] += 1
        if any(i.split(",")[8] != "p" for i in items[1:]):
            h["has_args"] += 1
        if any(i.split(",")[7].startswith("t") for i in items[1:] if i[:2] in ("B,", "G,")):
            h["has_ignore_true"] += 1
        if any(i.split(",")[7].startswith("f") for i in items[1:] if i[:2] in ("B,", "G,")):
            h["has_ignore_false"] += 1
    return h


def streams(tier, rng):
    big = tier != "quick"
    n_rand = 12000 if big else 1500
    n_rt = 2500 if big else 250
    corpus = corpus_cases()
    chain = ignore_chain_cases()
    rand = []
    while len(rand) < n_rand:
        reg = T.rand_registry(rng, max_items=14 if big and rng.random() < 0.3 else 9)
        ign = rng.choice("nnoy")
        if rng.random() < 0.55:
            exact, pos, skip = T.rand_filters(rng, reg)
        else:
            exact, pos, skip = False, [], []
        rand.append(reg.line("TRLA" + ("mn" if rng.random() < 0.2 else ""), ign=ign, exact=exact, pos=pos, skip=skip, sort=rng.choice("-knlKNL")))
    rt = []
    while len(rt) < n_rt:
        reg = T.rand_registry(rng, max_items=6, max_args=3)
        exact, pos, skip = T.rand_filters(rng, reg) if rng.random() < 0.3 else (False, [], [])
        rt.append(reg.line("TE", ign=rng.choice("nnoy"), exact=exact, pos=pos, skip=skip))
    # combinations and orders of the action flags (--list --bench is what `cargo bench -- --list` passes)
    combos = []
    while len(combos) < (1200 if big else 120):
        reg = T.rand_registry(rng, max_items=5, max_args=3)
        exact, pos, skip = T.rand_filters(rng, reg) if rng.random() < 0.3 else (False, [], [])
        combos.append(reg.line("R" + "".join(rng.sample("abcdfghjk", rng.randrange(3, 7))), ign=rng.choice("nnoy"), exact=exact, pos=pos, skip=skip))
    out = []
    if corpus:
        out.append(Stream("corpus", "c14", corpus, nontrivial=nt, hist=hist_of(corpus)))
    et = empty_threads_cases()
    out.append(Stream("empty-threads", "c14", et, nontrivial=nt, hist=hist_of(et),
                      describe="threads = [] on the benchmark, inherited from a group, and Divan::threads([]) through the builder"))
    out.append(Stream("flag-combinations", "c14", combos, nontrivial=nt,
                      describe="--list --bench, --bench --list, terse variants under NEXTEST=1 with --bench, --test --bench, --bench --test, "
                               "no action flag, --list --test (rejected by clap); the model's action_of_flags says which action results"))
    # generated crates using the attribute macros (the tour crate is the one C12 builds: cached)
    from props import c12, treeprog
    progs = [treeprog.feature_tour("e2e_tour")] + [treeprog.rand_program(rng, "e2e_l%d" % i, size=12) for i in range(1 if not big else 6)]
    real = []
    for p in progs:
        exe = c12.exe_path(p)
        for flag in "noy":
            real.append(p.line("TRLA", exe, ign=flag))
        for _ in range(3 if not big else 8):
            real.append(p.line("TRE", exe, ign=rng.choice("noy"),
                               pos=[rng.choice(["alpha", "m", "::", "a", "1", "x", "Raw", "inner", "loop"])] if rng.random() < 0.7 else [],
                               skip=[rng.choice(["beta", "2", "String", "q"])] if rng.random() < 0.4 else []))
    out += [
        Stream("real-crates", "c14", real, nontrivial=nt, impl_runner=c12.build_then_run(progs), impl_timeout=900,
               describe="%d generated crates using the attribute macros; listing, run and exact round trip of the compiled program" % len(progs)),
        Stream("ignore-chains", "c14", chain, nontrivial=nt, hist=hist_of(chain),
               describe="group/group/leaf option chains x 3 ignore flags, plain + args + generic leaves"),
        Stream("random-registries", "c14", rand, nontrivial=nt, hist=hist_of(rand)),
        Stream("exact-roundtrip", "c14", rt, nontrivial=nt, hist=hist_of(rt)),
    ]
    return out


def shrink(item, rerun):
    """Drop registry items / filters while the specification still fails on the implementation's output."""
    def fails(case):
        impl, model, sb = rerun(item["mode"], case, crate=item.get("crate", CRATE), drv=item.get("drv", DRV))
        return (not sb.startswith("true")), impl, model, sb
    case = item["case"]
    if " X," in case:
        return item
    ok, *_ = fails(case)
    if not ok:
        return item
    changed = True
    while changed:
        changed = False
        parts = case.split(" ")
        for i in range(1, len(parts)):
            cand = " ".join(parts[:i] + parts[i + 1:])
            bad, impl, model, sb = fails(cand)
            if bad:
                case, changed = cand, True
                item = dict(item, case=cand, impl=impl, model=model, spec_verdict=sb)
                break
    return item

MANIFEST = {
    "text": "Coq theorems over all registries, filter predicates, ignore flags, run-time options and sorts (any permutation of siblings and "
            "argument names): the action sequences of --list, the terse listing and Divan::list_benches contain no runner construction, no "
            "Bencher and no invocation (C14_list_runs_nothing); for every well-formed forest, parent path and inherited options the terse "
            "walk prints exactly path + ': benchmark' for the cases the test walk executes, same multiplicity and order "
            "(C14_terse_eq_run), as multisets at the level of whole actions because only the run sorts (C14_terse_eq_run_action); "
            "retain keeps exactly the executed cases whose path passes the filter (C14_retain_exec); with unique paths a listed path as "
            "the only exact filter lists and executes exactly that case (C14_exact_roundtrip). The model (Registry/Tree/Driver) is tied "
            "to the code by whole-program differential runs: synthetic registries pushed through divan::__private, the real CLI run as "
            "child processes for the terse listing, --test, --list and list_benches, stdout and an invocation log compared.",
    "note": "Trusted: Coq kernel, extraction, OCaml driver, harness/hx-run (synthetic entries built with the macros' public API; painted "
            "tree parsed by indentation). Abstracted: the filter language (a predicate on the display path; the correspondence uses exact "
            "and literal-regex filters), the sort comparator (any sibling permutation), thread counts (no `threads` option). clap and "
            "regex-lite are exercised, not modelled. Corpus cases keep failing if F2 (a75ec0a) or F3 (8d95131) return.",
    "technique": "machine-checked proof in Coq (structural induction over entry trees, trace monad with explicit panics) + whole-program "
                 "differential correspondence against the real crate",
}
