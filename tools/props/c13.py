"""C13 — a benchmark case runs iff its full display path passes the filters."""
import os
import re

from vp import Stream, run_lines
from props import select_e2e as E

DRV = "select"
CRATE = "hx-select"

RULE = ("ismatch: FilterSet built by a random interleaving of 0-8 include/exclude insertions (regex or exact, overlapping "
        "patterns over a tiny alphabet, empty pattern, anchors, alternations) queried on 4-10 paths; retain: random entry sets "
        "(modules up to depth 4, groups with display names, r#-prefixed modules, benches with name=, generic type/const groups, "
        "argument lists incl. empty ones, duplicate names) turned into the runner's tree by the crate and filtered by 0-4 positive "
        "and 0-4 skip filters derived from case paths, inner-node paths, raw names, argument names, or matching nothing; the regex "
        "truth table is evaluated by the crate's engine and replayed into the model; e2e: a real #[divan::bench] binary run with "
        "positional filters/--skip/--exact in list and test mode. Non-trivial = the filter set keeps something and removes something "
        "(retain/e2e) or answers both true and false (ismatch); distinct by input line.")
ASSUMPTIONS = [
    "regex::Regex::is_match is an oracle (Section variable `matches`); its answers are recorded from the crate's own engine",
    "the tree handed to retain is what EntryTree::from_benches/insert_group built (taken from the implementation's unfiltered dump); "
    "tree construction itself is not part of this model",
    "clap's argument parsing is exercised end to end only",
]
TRUSTED = [
    "harness/hx-select: hand-made BenchEntry/GroupEntry/GenericBenchEntry values mirror what the attribute macros emit; "
    "candidate-path enumeration for the regex truth table",
]
CONSTS_USED = []

SPECIAL = set(".+*?()[]{}|^$\\")


def esc(s):
    return "".join("\\" + ch if ch in SPECIAL else ch for ch in s)


# ---------------------------------------------------------------------------
# ismatch
# ---------------------------------------------------------------------------
ATOMS = ["a", "b", "c", "ab", "bc", "a::b", "b::c", "a::b::c", "abc", "", "a::a", "c::a::b", "b::b", "aa", "a::bc"]
REGEXES = ["a", "b", "c", "^a", "c$", "^a$", "a.*c", "a|b", "", "::", "^b::", "::c$", "a+", "[ab]c", "^(a|c)", "b::c", "a::b$",
           "zz", "^$", ".", "a.b", "(a::)+b", "[^a]", "^[bc]"]


def gen_ismatch(rng, k):
    nops = rng.choice([0, 1, 1, 2, 2, 3, 4, 5, 6, 8])
    paths = rng.sample(ATOMS, rng.randrange(4, 11))
    ops = []
    for _ in range(nops):
        inc = rng.random() < 0.55
        if rng.random() < 0.4:
            pat = rng.choice(paths) if rng.random() < 0.7 else rng.choice(ATOMS)
            ops.append(("+" if inc else "-") + "e:" + pat)
        else:
            ops.append(("+" if inc else "-") + "r:" + rng.choice(REGEXES))
    shape = "only-skip" if ops and all(o[0] == "-" for o in ops) else "only-positive" if ops and all(o[0] == "+" for o in ops) \
        else "none" if not ops else "mixed"
    return f"i{k} #F " + " ".join(ops) + " #Q " + " ".join("?" + p for p in paths), shape


# ---------------------------------------------------------------------------
# retain: random entry sets
# ---------------------------------------------------------------------------
MODS = ["m", "a", "b", "ab", "util", "r#type", "r#fn", "x1", "x10", "outer", "inner", "a_b", "crate_x"]
FNS = ["f", "g", "a", "b", "ab", "bench", "add", "sub", "x1", "x2", "sort", "r#loop", "a_b", "f1", "f10"]
DISP = ["Alpha", "a", "A::B", "fast path", "a.b", "a+", "x*", "sum", "b", "renamed", "$x", "(p)", "ab"]
ARGS = ["0", "1", "2", "10", "100", "x", "y", "a", "b", "ab", "-1", "1.5", "true", "foo", "a.b", "f"]
TYPES = {0: "i32", 1: "String", 2: "Vec<u8>", 3: "&str", 4: "Option<alloc::string::String>", 5: "Ty",
         6: "Gen<hx_select::tree::deep::er::Ty>", 7: "()"}


def ok_name(s):
    return " " not in s and "/" not in s and "~" not in s


def pick_disp(rng, raw):
    if rng.random() < 0.3:
        d = rng.choice(DISP)
        if ok_name(d):
            return d
    return raw[2:] if raw.startswith("r#") else raw


def gen_args(rng):
    k = rng.random()
    if k < 0.5:
        return None
    if k < 0.58:
        return []
    n = rng.randrange(1, 5)
    a = [rng.choice(ARGS) for _ in range(n)] if rng.random() < 0.2 else rng.sample(ARGS, n)
    return a


def gen_entries(rng):
    """Returns (entry tokens, display case paths, inner display paths, raw paths, stats)."""
    benches, groups = [], []
    cases, inners, raws = [], [], []
    stats = {"depth": 0, "leaves": 0, "arg_leaves": 0, "groups": 0, "generic": 0, "renamed": 0}
    budget = [rng.randrange(1, 14)]
    slots = [0]

    def node(raw_path, disp_path, depth):
        """Populate one module (raw_path/disp_path are lists)."""
        stats["depth"] = max(stats["depth"], depth)
        nkids = rng.randrange(1, 4 if depth else 5)
        for _ in range(nkids):
            if budget[0] <= 0:
                return
            k = rng.random()
            if k < 0.35 and depth < 4:
                raw = rng.choice(MODS)
                disp = raw[2:] if raw.startswith("r#") else raw
                if rng.random() < 0.45:
                    gd = pick_disp(rng, raw)
                    # sometimes a group that matches no parent (wrong path): never inserted
                    if rng.random() < 0.1:
                        groups.append("g/" + "::".join(raw_path + ["nomatch"]) + f"/{raw}/{gd}")
                    else:
                        groups.append("g/" + "::".join(raw_path) + f"/{raw}/{gd}")
                        disp = gd
                        stats["groups"] += 1
                        if gd != raw:
                            stats["renamed"] += 1
                inners.append("::".join(disp_path + [disp]))
                raws.append("::".join(raw_path + [raw]))
                node(raw_path + [raw], disp_path + [disp], depth + 1)
            elif k < 0.45 and depth >= 1 and slots[0] < 50:
                # generic group: types and/or consts
                raw = rng.choice(FNS)
                gd = pick_disp(rng, raw)
                gens = []
                tys = rng.sample(sorted(TYPES), rng.randrange(0, 4))
                consts = rng.sample(ARGS, rng.randrange(0, 4)) if rng.random() < 0.6 else []
                if not tys and not consts:
                    tys = [0]
                gpath = disp_path + [gd]
                inners.append("::".join(gpath))
                raws.append("::".join(raw_path + [raw]))
                for t in (tys or [None]):
                    for c in (consts or [None]):
                        tok = ("-" if t is None else str(t)) + "~" + ("-" if c is None else "=" + c)
                        if c is not None and t is not None:
                            p = gpath + [TYPES[t], c]
                            inners.append("::".join(gpath + [TYPES[t]]))
                        elif c is not None:
                            p = gpath + [c]
                        else:
                            p = gpath + [TYPES[t]]
                        a = gen_args(rng) if rng.random() < 0.3 else None
                        if a is not None:
                            tok += "~A" + "".join("~" + x for x in a)
                            slots[0] += 1
                            cases.extend("::".join(p + [x]) for x in a)
                            inners.append("::".join(p))
                        else:
                            cases.append("::".join(p))
                        gens.append(tok)
                        budget[0] -= 1
                groups.append("g/" + "::".join(raw_path) + f"/{raw}/{gd}/X/" + "/".join(gens))
                stats["generic"] += 1
            elif depth >= 1 or rng.random() < 0.15:
                raw = rng.choice(FNS)
                disp = pick_disp(rng, raw)
                if disp != raw:
                    stats["renamed"] += 1
                a = gen_args(rng) if slots[0] < 50 else None
                tok = "b/" + "::".join(raw_path) + f"/{raw}/{disp}"
                p = disp_path + [disp]
                raws.append("::".join(raw_path + [raw]))
                if a is not None:
                    tok += "/A" + "".join("/" + x for x in a)
                    slots[0] += 1
                    cases.extend("::".join(p + [x]) for x in a)
                    inners.append("::".join(p))
                    stats["arg_leaves"] += 1
                else:
                    cases.append("::".join(p))
                stats["leaves"] += 1
                benches.append(tok)
                budget[0] -= 1

    for _ in range(rng.choice([1, 1, 1, 2, 3])):
        root = rng.choice(MODS[:5] + ["crate_x"])
        rdisp = root
        inners.append(rdisp)
        node([root], [rdisp], 1)
    if rng.random() < 0.3:
        rng.shuffle(benches)
    if not benches and not any("/X/" in g for g in groups):
        benches.append("b/m/f/f")
        cases.append("m::f")
    return benches + groups, cases, inners, raws, stats


def gen_filters(rng, cases, inners, raws):
    """0-4 positive, 0-4 skip; --exact style (all exact), all regex, or mixed."""
    style = rng.choice(["regex", "regex", "exact", "mixed"])
    npos = rng.choice([0, 0, 1, 1, 1, 2, 2, 3, 4])
    nskip = rng.choice([0, 0, 0, 1, 1, 2, 3, 4])
    kinds = []

    def one():
        exact = style == "exact" or (style == "mixed" and rng.random() < 0.5)
        k = rng.random()
        src = None
        if k < 0.30 and cases:
            src, kind = rng.choice(cases), "case"
        elif k < 0.45 and inners:
            src, kind = rng.choice(inners), "inner"
        elif k < 0.55 and raws:
            src, kind = rng.choice(raws), "raw"
        elif k < 0.75 and cases:
            comps = rng.choice(cases).split("::")
            src, kind = rng.choice(comps), "component"
        elif k < 0.85 and cases:
            comps = rng.choice(cases).split("::")
            i = rng.randrange(len(comps))
            src, kind = "::".join(comps[i:]), "suffix"
        elif k < 0.92:
            src, kind = rng.choice(["zzz", "nomatch::x", "q"]), "nothing"
        else:
            src, kind = rng.choice(["", "::", "a", "1"]), "broad"
        if not ok_name(src):
            src, kind = "zzz", "nothing"
        kinds.append(kind + ("-exact" if exact else "-regex"))
        if exact:
            return "e:" + src
        form = rng.random()
        if form < 0.35:
            return "r:" + esc(src)
        if form < 0.55:
            return "r:^" + esc(src) + "$"
        if form < 0.65:
            return "r:" + esc(src) + "$"
        if form < 0.75:
            return "r:^" + esc(src)
        if form < 0.85:
            other = rng.choice(cases) if cases else "x"
            if not ok_name(other):
                other = "x"
            return "r:" + esc(src) + "|" + esc(other.split("::")[-1])
        if form < 0.93:
            return "r:" + src  # unescaped: special characters act as regex syntax
        return "r:" + rng.choice([".*", "::[0-9]+$", "^[a-z]+::", "(a|b)$", "[xy]", "::.::", "^[^:]*$"])

    ops = ["+" + one() for _ in range(npos)] + ["-" + one() for _ in range(nskip)]
    if rng.random() < 0.3:
        rng.shuffle(ops)  # builder calls can interleave
    # unescaped patterns must still be valid regexes
    good = []
    for o in ops:
        if o[1] == "r":
            try:
                re.compile(o[3:])
            except re.error:
                o = o[:3] + esc(o[3:])
        good.append(o)
    return good, style, npos, nskip, kinds


def gen_retain(rng, k):
    entries, cases, inners, raws, stats = gen_entries(rng)
    ops, style, npos, nskip, kinds = gen_filters(rng, cases, inners, raws)
    return f"t{k} #E " + " ".join(entries) + " #F " + " ".join(ops), stats, style, npos, nskip, kinds


def retain_model_input(case, impl):
    head = case.split(" #E ")[0]
    f = case.split(" #F", 1)[1]
    if " #U" not in impl:
        return head + " #F" + f
    return head + " #F" + f + " #U" + impl.split(" #U", 1)[1]


def ismatch_model_input(case, impl):
    if " #T" not in impl:
        return case
    return case + " #T" + impl.split(" #T", 1)[1]


# ---------------------------------------------------------------------------
# e2e: the real benchmark binary with CLI filters and builder skips
# ---------------------------------------------------------------------------
E2E_CASES = [
    "hx_select_e2e::sel::top", "hx_select_e2e::sel::renamed", "hx_select_e2e::sel::with_args::1", "hx_select_e2e::sel::with_args::10",
    "hx_select_e2e::sel::str_args::x", "hx_select_e2e::sel::str_args::top", "hx_select_e2e::sel::gen_ty::i32",
    "hx_select_e2e::sel::gen_const::8", "hx_select_e2e::sel::both::u8::4", "hx_select_e2e::sel::ty_args::i32::3",
    "hx_select_e2e::sel::alpha::a", "hx_select_e2e::sel::alpha::beta::a", "hx_select_e2e::sel::alpha::beta::b::5",
    "hx_select_e2e::sel::Grp::inner", "hx_select_e2e::sel::Grp::sub::top", "hx_select_e2e::sel::type::loop",
    "hx_select_e2e::opt::g1::g2::g3::inherit", "hx_select_e2e::opt::plain",
    "hx_select_e2e::sel::pair::Pair<u8, u8>", "hx_select_e2e::sel::pair::Pair<u8, i8>", "hx_select_e2e::sel::tuple::(1, 2)",
    "hx_select_e2e::sel::tuple::(2, 2)", "hx_select_e2e::sel::comma_str::a,b", "hx_select_e2e::sel::comma_str::a, b",
    "hx_select_e2e::sel::comma_str::a", "hx_select_e2e::sel::x, y",
    "hx_select_e2e::sel::pair::Pair<u8, u8>", "hx_select_e2e::sel::tuple::(1, 2)", "hx_select_e2e::sel::comma_str::a,b",
    "hx_select_e2e::sel::fast", "hx_select_e2e::sel::quick::gen::i32", "hx_select_e2e::sel::quick::gen::u8",
    "hx_select_e2e::sel::shape::String::1", "hx_select_e2e::sel::shape::Square::2", "hx_select_e2e::sel::shape::Vec<alloc::string::String>::1",
    "hx_select_e2e::sel::shape::String::2", "hx_select_e2e::sel::quick::gen::i32",
    "hx_select_e2e::sel::dup_args::7", "hx_select_e2e::sel::dup_args::8", "hx_select_e2e::sel::lossy::1", "hx_select_e2e::sel::lossy::2",
    "hx_select_e2e::sel::dup_args::7", "hx_select_e2e::sel::lossy::1",
    "hx_select_e2e::sel::nest::Option<u8>", "hx_select_e2e::sel::nest::Vec<core::option::Option<u8>>", "hx_select_e2e::sel::nest::Vec<u8>",
    "hx_select_e2e::sel::nest::HashMap<u64, alloc::vec::Vec<u8>>", "hx_select_e2e::sel::nestc::Vec<core::option::Option<u8>>::1",
    "hx_select_e2e::sel::nestc::Option<u8>::2", "hx_select_e2e::sel::refs::String", "hx_select_e2e::sel::refs::&alloc::string::String",
    "hx_select_e2e::sel::renamed_ty::u8", "hx_select_e2e::sel::renamed_ty::u16", "hx_select_e2e::sel::renamed_const::3",
    "hx_select_e2e::sel::renamed_both::i64::6", "hx_select_e2e::sel::renamed_both::u8::5",
]
E2E_INNER = ["hx_select_e2e::sel::renamed_ty", "hx_select_e2e::sel::renamed_both::u8", "hx_select_e2e::sel::original_ty::u8",
             "hx_select_e2e::sel::original_const::3", "hx_select_e2e::sel::original_both::i64::6", "hx_select_e2e::sel::original_ty","hx_select_e2e::sel::nest", "hx_select_e2e::sel::nestc::Vec<core::option::Option<u8>>", "hx_select_e2e::sel::nestc::Option<u8>",
             "hx_select_e2e::sel::nest::Option<u8>>", "hx_select_e2e::sel::nest::Vec<Option<u8>>", "hx_select_e2e::sel::nestc::Option<u8>>::1",
             "hx_select_e2e::sel::nest::Vec<u8>>", "hx_select_e2e::sel::refs::&String", "hx_select_e2e::sel::refs::&'static String","hx_select_e2e::sel::quick", "hx_select_e2e::sel::quick::gen", "hx_select_e2e::sel::shape::String", "hx_select_e2e::sel::shape",
             "hx_select_e2e::sel::shape::Square", "hx_select_e2e::sel::fast::gen::i32", "hx_select_e2e::sel::shape::alloc::string::String::1",
             "hx_select_e2e::sel::shape::hx_select_e2e::sel::Square::1","hx_select_e2e::sel::alpha", "hx_select_e2e::sel::alpha::beta", "hx_select_e2e::sel::Grp", "hx_select_e2e::sel::with_args",
             "hx_select_e2e", "hx_select_e2e::sel", "hx_select_e2e::sel::both::i32", "hx_select_e2e::sel::grp", "hx_select_e2e::sel::orig",
             "hx_select_e2e::sel::r#type::r#loop", "hx_select_e2e::sel::no_args", "hx_select_e2e::sel::Grp::sub::x"]
E2E_WORDS = ["top", "a", "b", "alpha", "beta", "Grp", "grp", "sub", "1", "10", "i32", "u8", "loop", "type", "renamed", "orig", "x",
             "with_args", "args", "gen", "sel", "opt", "inherit", "zzz", "no_args",
             "renamed_ty", "original_ty", "original", "renamed", "renamed_both", "original_const",
             "quick", "fast", "alloc", "string", "String", "Square", "shape", "Vec", "gen",
             "u8, u8", "(1, 2)", "a,b", "a, b", "x, y", ", ", ",", "Pair<u8, i8>", "1, 2", "y"]
# legitimate paths / fragments that are not valid regexes: only meaningful with --exact (or skip_exact)
E2E_NOT_REGEX = ["hx_select_e2e::sel::tok(", "hx_select_e2e::sel::[", "hx_select_e2e::sel::C:\\dir", "[", "tok(", "C:\\dir", "(", "a\\",
                 "hx_select_e2e::sel::tuple::(1,", "*", "+x", "x{2", "(?", "[a-"]
# inline flags: unscoped `(?i)` / `(?x)` belong to the one pattern they are written in
E2E_INLINE = ["(?i)STRING", "(?i)GRP", "(?i)ALPHA", "(?i)hx_select_e2e::SEL::top", "(?i)pair", "(?x)alpha # beta", "(?x) top",
              "(?i)I32", "(?s)a.b", "(?i)LOOP", "(?x)gen_ty #", "(?i:TYPE)"]
E2E_DEGENERATE = ["", "", "^", "$", ".*", "^$", "hx_select_e2e::sel::top", "hx_select_e2e"]
E2E_REGEX = ["::a$", "^hx_select_e2e::sel::[a-z]+$", "::[0-9]+$", "alpha|Grp", "top$", "(i32|u8)::", "::b::", "^sel", "sel::.*::a", "r#",
             "gen_(ty|const)", "::1", "::1$", "beta::[ab]$", "[A-Z]", ".", "^$", "e2e::sel::t"]


def gen_e2e(rng, k):
    exact = rng.random() < 0.35
    npos = rng.choice([0, 1, 1, 1, 2, 2, 3, 4])
    nskip = rng.choice([0, 0, 1, 1, 2, 3, 4])

    def text(is_exact):
        r = rng.random()
        if rng.random() < 0.12:
            # the empty string and other degenerate patterns: as a regex they match every path (a positive one
            # narrows nothing, a skip deselects everything); exact, they match no path (or exactly one)
            return rng.choice(E2E_DEGENERATE)
        if is_exact and rng.random() < 0.15:
            return rng.choice(E2E_NOT_REGEX)
        if not is_exact and rng.random() < 0.15:
            return rng.choice(E2E_INLINE)
        if is_exact:
            return rng.choice(E2E_CASES) if r < 0.6 else rng.choice(E2E_INNER) if r < 0.85 else rng.choice(E2E_WORDS)
        if r < 0.25:
            return esc(rng.choice(E2E_CASES)) + rng.choice(["", "$"])
        if r < 0.4:
            return "^" + esc(rng.choice(E2E_INNER)) + rng.choice(["", "$", "::"])
        if r < 0.7:
            return rng.choice(E2E_WORDS)
        return rng.choice(E2E_REGEX)

    def builder_op():
        # skip_exact / skip_regex(&str) / skip_regex(pre-built Regex with a RegexBuilder flag)
        r = rng.random()
        if r < 0.35:
            return "-e:" + text(True)
        if r < 0.7:
            return "-r:" + text(False)
        if r < 0.9:
            # case_insensitive with a metacharacter-free pattern whose case differs from the path's
            w = rng.choice(E2E_WORDS[:19] + ["string", "hx_select_e2e::sel::top", "alpha::beta", "sel::grp", "Pair", "ty"])
            return "-i:" + rng.choice([w.upper(), w.lower(), w.swapcase(), w.capitalize()])
        return rng.choice(["-m:", "-s:", "-U:"]) + rng.choice(["^hx.*top$", "alpha.beta", "a.b", "::a+?$", "top", "[0-9]+?$"])

    ops, origins = [], []
    nb = rng.choice([0, 0, 0, 1, 2])
    for _ in range(nb):   # builder skips before the command line is parsed
        ops.append(builder_op())
        origins.append("p")
    for _ in range(npos):
        ops.append("+" + ("e:" if exact else "r:") + text(exact))
        origins.append("c")
    for _ in range(nskip):
        ops.append("-" + ("e:" if exact else "r:") + text(exact))
        origins.append("c")
    if rng.random() < 0.2:   # a builder skip after parsing
        ops.append(builder_op())
        origins.append("q")
    return f"e{k} #F " + " ".join(E.enc(o) for o in ops) + " #O " + ("".join(origins) or "-")


def e2e_cli(case):
    ops = [t for t in case.split(" #F", 1)[1].split(" #O")[0].split(" ") if t]
    origins = case.split(" #O ", 1)[1].strip()
    origins = "" if origins == "-" else origins
    args, builder, exact = [], [], False
    for op, o in zip(ops, origins):
        inc, ex, pat = op[0] == "+", op[1] == "e", E.dec(op[3:])
        if o == "c":
            exact = exact or ex
            args += [pat] if inc else ["--skip", pat]
        else:
            call = {"e": "skip_exact", "r": "skip_regex"}.get(op[1], "skip_regex_" + op[1])
            builder.append(("pre:" if o == "p" else "post:") + call + "=" + pat)
    if exact:
        args.append("--exact")
    # `--` so that no pattern is taken for a flag
    pos = [a for a in args]
    return pos, {"HX_BUILDER": ";".join(builder)}


class E2EContext:
    def __init__(self):
        self.ready = False

    def prepare(self, hbin):
        if self.ready:
            return
        rc, out, err = E.run(hbin, ["--list", "--format", "terse", "--include-ignored"], {"NEXTEST": "1"})
        self.all_cases = [E.enc(c) for c in E.terse_cases(out)]
        rc, out, err = E.run(hbin, ["--list", "--include-ignored"])
        self.list_leaves = [E.enc(p) for p, leaf, _ in E.tree_paths(E.parse_tree(out)) if leaf]
        self.u_tokens = E.build_u_tokens(self.list_leaves, self.all_cases)
        inner = set()
        for c in self.all_cases:
            comps = c.split("::")
            for i in range(1, len(comps) + 1):
                inner.add("::".join(comps[:i]))
        self.paths = sorted(inner)
        self.ready = True


def e2e_impl_runner(ctx):
    def runner(st, hbin):
        ctx.prepare(hbin)
        lines = []
        oracle_in = []
        for case in st.cases:
            ops = [t for t in case.split(" #F", 1)[1].split(" #O")[0].split(" ") if t]
            pats = [o[1] + ":" + o[3:] for o in ops if o[1] != "e"]
            oracle_in.append("o #P " + " ".join(pats) + " #Q " + " ".join("?" + p for p in ctx.paths))
        rc, tables, err, _ = run_lines(hbin, "oracle", oracle_in, 120)
        for case, tline in zip(st.cases, tables + ["crash"] * (len(st.cases) - len(tables))):
            ops = [t for t in case.split(" #F", 1)[1].split(" #O")[0].split(" ") if t]
            args, env = e2e_cli(case)
            # --max-time at the runner level: the binary also holds benchmarks with a zero time budget (for C15),
            # which pass the filters but are never called (bench loop returns at once), in test mode too.
            rc1, out1, err1 = E.run(hbin, ["--include-ignored", "--max-time", "1000"] + args, env)
            rc2, out2, err2 = E.run(hbin, ["--list", "--format", "terse", "--include-ignored"] + args, dict(env, NEXTEST="1"))
            rc3, out3, err3 = E.run(hbin, ["--list", "--include-ignored"] + args, env)
            if rc1 != 0 or rc2 != 0 or rc3 != 0 or not tline.startswith("#T"):
                lines.append(f"crash rc={rc1},{rc2},{rc3} {(err1 + err2 + err3).strip().splitlines()[-1:] } {tline[:40]}")
                continue
            # one execution per selected case: multiplicities count (two arguments with the same label are two cases);
            # the option benchmarks (mod opt) run once per thread in test mode, those are taken as a set
            tags = E.ran_tags(err1)
            ran = sorted([E.enc(t) for t in tags if "::opt::" not in t] + list(set(E.enc(t) for t in tags if "::opt::" in t)))
            listed = sorted(E.enc(c) for c in E.terse_cases(out2))
            leaves = sorted(E.enc(p) for p, leaf, _ in E.tree_paths(E.parse_tree(out3)) if leaf)
            rows = iter(t for t in tline[2:].split(" ") if t)
            trows = [next(rows) if o[1] != "e" else "x" for o in ops]
            q = lambda l: " ".join("?" + x for x in l)
            lines.append(f"X {q(ran)} #L {q(listed)} #S {q(leaves)} #U {' '.join(ctx.u_tokens)} #Q {q(ctx.paths)} #T {' '.join(trows)}")
        return lines
    return runner


def e2e_model_input(case, impl):
    head = case.split(" #O")[0]
    if " #U" not in impl:
        return head
    return head + " #U" + impl.split(" #U", 1)[1]


def corpus_lines(prefix):
    d = os.path.join(os.path.dirname(os.path.dirname(os.path.dirname(os.path.abspath(__file__)))), "corpus")
    out = []
    if os.path.isdir(d):
        for fn in sorted(os.listdir(d)):
            if fn.startswith(prefix) and fn.endswith(".txt"):
                for line in open(os.path.join(d, fn), encoding="utf-8"):
                    line = line.rstrip("\n")
                    if line and not line.startswith("#"):
                        out.append(line)
    return out


def bump(h, k):
    h[k] = h.get(k, 0) + 1


def streams(tier, rng):
    n = 1500 if tier == "quick" else 40000
    im, im_hist = corpus_lines("C13-ismatch"), {}
    for k in range(n):
        c, shape = gen_ismatch(rng, k)
        im.append(c)
        bump(im_hist, "ops:" + shape)
    rt, rt_hist = corpus_lines("C13-retain"), {}
    for k in range(n):
        c, stats, style, npos, nskip, kinds = gen_retain(rng, k)
        rt.append(c)
        bump(rt_hist, f"depth:{stats['depth']}")
        bump(rt_hist, f"positive:{npos}")
        bump(rt_hist, f"skip:{nskip}")
        bump(rt_hist, "style:" + style)
        bump(rt_hist, "leaves:" + ("1-3" if stats["leaves"] <= 3 else "4-8" if stats["leaves"] <= 8 else "9+"))
        if stats["arg_leaves"]:
            bump(rt_hist, "has-arg-lists")
        if stats["generic"]:
            bump(rt_hist, "has-generic-group")
        if stats["renamed"]:
            bump(rt_hist, "has-display-name!=raw-name")
        for kd in kinds:
            bump(rt_hist, "filter:" + kd)

    def nt_ismatch(c, m):
        return m.startswith("r ") and "0" in m and "1" in m

    def nt_retain(c, m):
        # keeps something and removes something
        if not m.startswith("K ") or " #N " not in m:
            return False
        kept, total = m.split(" #N ")[1].split(" ")
        return 0 < int(kept) < int(total)

    ne = 120 if tier == "quick" else 2500
    e2e, e2e_hist = corpus_lines("C13-e2e"), {}
    for k in range(ne):
        c = gen_e2e(rng, k)
        e2e.append(c)
        o = c.split(" #O ")[1]
        cli = [t for t, og in zip(c.split(" #F", 1)[1].split(" #O")[0].split(), o) if og == "c"]
        bump(e2e_hist, "cli-none" if not cli else "cli-exact" if cli[0][1] == "e" else "cli-regex")
        if "p" in o or "q" in o:
            bump(e2e_hist, "builder-skip")
        if any(t[1] in "imsU" for t in c.split(" #F", 1)[1].split(" #O")[0].split()):
            bump(e2e_hist, "builder-skip-prebuilt-regex-with-flag")
    ctx = E2EContext()

    def nt_e2e(c, m):
        if not m.startswith("X "):
            return False
        n = len([t for t in m.split(" #L")[0].split(" ")[1:] if t])
        return 0 < n < 40

    return [
        Stream("filterset-is-match", "ismatch", im, nontrivial=nt_ismatch, model_input=ismatch_model_input,
               compare=lambda i, m: i.split(" #T")[0] == m, hist=im_hist),
        Stream("tree-retain", "retain", rt, nontrivial=nt_retain, model_input=retain_model_input,
               compare=lambda i, m: i.split(" #U")[0] == m.split(" #N")[0], hist=rt_hist),
        E.rcfg_stream(Stream, run_lines, tier, rng, corpus_lines("C13-rcfg")),
        Stream("e2e-real-binary-filters", "e2e", e2e, nontrivial=nt_e2e, model_input=e2e_model_input,
               impl_runner=e2e_impl_runner(ctx), compare=lambda i, m: i.split(" #U")[0] == m, hist=e2e_hist,
               describe="hx-select-e2e (real #[divan::bench] items) run three times per case: test mode (RAN log), "
                        "NEXTEST terse listing, --list tree; positional filters, --skip, --exact, builder skip_exact/skip_regex"),
    ]


MANIFEST = {
    "text": "Coq theorems, for every filter history and every tree: SplitVec insertion keeps the partition, the order of the skip half and "
            "the multiset of the positive half; FilterSet::is_match on a set built by ANY interleaving of include/exclude equals "
            "'no skip filter matches and (no positive filter or some positive matches)' without panicking (regex matching abstract, "
            "exact = string equality); EntryTree::retain keeps exactly the selected cases in order (per argument), leaves no empty group "
            "or emptied leaf, keeps an inner node iff a selected case lies below it; composed: what run_action keeps is the filter of "
            "the cases by the specification. Tied to the code by differential runs of FilterSet and of the runner's own tree "
            "construction + retain on random entry sets with the crate's regex engine as recorded oracle, and by running a real "
            "#[divan::bench] binary with positional filters/--skip/--exact/builder skips in test, terse-list and list mode.",
    "note": "Trusted: Coq kernel, extraction, OCaml driver, hooks (VerifFilterSet, regex_is_match, tree_dump), harness hx-select. "
            "Regex semantics are an oracle; tree construction (from_benches/insert_group) is taken from the implementation, not modelled; "
            "clap parsing only end to end. In release builds SplitVec::split_index's assertion is assert_unchecked (UB if violated); the "
            "invariant theorem shows it is never violated.",
    "technique": "machine-checked proof in Coq (structural induction over nested trees, permutation invariant of the split vector) "
                 "+ history-driven differential correspondence + end-to-end runs of a real benchmark binary",
}
