"""Shared by C06 and C07 (group `pool`, harness `hx-sched`).

Correspondence = trace replay: the harness runs the verbatim pool.rs on the
deterministic scheduler shuttle for a group of schedules (one harness line per
group), every distinct schedule trace becomes one case; the driver replays the
trace through the extracted `step` (mode c06/c07) and evaluates the extracted
monitor `PoolMon.check` on it (mode c06.sb / c07.sb).
"""
import collections
import glob
import os
import subprocess

from vp import Stream, ENV

RULE = ("groups = script (aux thread counts of successive broadcasts on one pool, growing and shrinking, 0..8 workers) x "
        "panicking subset of calls (optionally the caller's call panics with a payload whose Drop panics, so that the "
        "panic escapes from broadcast) x scheduler (shuttle random, PCT depth 2-3, bounded DFS with a budget of spurious park "
        "wake-ups) x seed; every DISTINCT global event trace of a group is one case (duplicates are counted in the "
        "histogram). Non-trivial = the script has a broadcast with >= 1 auxiliary thread; distinct by (group, trace index).")

ASSUMPTIONS = [
    "a refused thread creation (Builder::spawn -> Err; the `expect` in pool.rs panics under the lock, before any send) is not a "
    "transition of the model: the aborted broadcast is treated at the sequence level — it must hand out nothing, call nothing and "
    "leave n+1 empty slots — and is replaced, for everything that follows, by a successful broadcast on exactly the threads "
    "that exist afterwards (same pool state, same broadcast numbering); every later broadcast is judged as usual",
    "std's park/unpark (token semantics, spurious wake-ups allowed), sync_channel(0) (rendezvous), Mutex and thread spawn behave as documented; "
    "they are replaced by the sched_std shim over shuttle 0.9.3 in the harness",
    "sequentially consistent interleavings only on the implementation side (shuttle); weak-memory behaviour is covered by the view model "
    "(release-sequence fragment of C++11) and the generated-constant obligations on the two orderings, not by execution",
    "a panicking task call takes the same protocol path as a returning one (catch_unwind); a panic-payload destructor that panics (abort guard) is not modelled",
]
TRUSTED = [
    "harness/hx-sched: build.rs copies pool.rs / sync.rs / defer verbatim; src/sched_std.rs (drop-in for the std subset, logs the protocol events, "
    "liveness table for the task block's handle and counter); shuttle 0.9.3 scheduler",
    "ocaml/pool.ml: translation of trace tokens to model labels (spawns aggregated into EBegin, first of send-returned/recv-returned = ESend)",
]
CONSTS_USED = ["pool_load_ordering", "pool_dec_ordering", "pool_unpark_when_old", "pool_wait_is_loop", "pool_wait_cmp_gt0"]


def _panic_subsets(script, rng, k):
    calls = [(b + 1, i) for b, n in enumerate(script) for i in range(n + 1)]
    out = [[]]
    if calls:
        out.append([rng.choice(calls)])
    while len(out) < k:
        out.append(sorted(c for c in calls if rng.random() < 0.4))
    return out[:k]


def corpus_groups(mode):
    out = []
    root = os.path.dirname(os.path.dirname(os.path.dirname(os.path.abspath(__file__))))
    for f in sorted(glob.glob(os.path.join(root, "corpus", mode.upper() + "-*.txt"))):
        for line in open(f):
            line = line.strip()
            if line and not line.startswith("#"):
                out.append(line)
    return out


def rtype_groups(tier, rng):
    """result types T whose Option<T> is niche-optimised (no all-zero None): bool, char, Ordering, Duration; always with
    panicking calls (their slots must stay None), also on a reused / pre-filled vector"""
    quick = tier == "quick"
    out = []
    for rt in ("bool", "char", "ord", "dur"):
        for scr, vec in (([2, 1], "fresh"), ([1, 3], "clear"), ([2], "pre3.4")):
            calls = [(b + 1, i) for b, n in enumerate(scr) for i in range(n + 1)]
            pan = sorted(set([rng.choice(calls), rng.choice(calls), (len(scr), 0)]))
            s = "script=%s panics=%s rtype=%s vec=%s" % (",".join(map(str, scr)), ",".join("%d.%d" % c for c in pan), rt, vec)
            out.append(f"{s} sched=random seed={rng.randrange(1 << 30)} iters={12 if quick else 300}")
    return out


def state_groups(tier, rng):
    """the whole captured state of the task closure is one over-aligned value (16 / 64) with a position-dependent
    pattern, or three words (control): the offset of the closure inside the task block depends on its alignment"""
    quick = tier == "quick"
    out = []
    for scr in ([0], [1], [3], [1, 3, 0]):
        for state in ("a16", "a64", "w3"):
            pan = _panic_subsets(scr, rng, 2)[1] if len(scr) > 1 else []
            s = "script=%s panics=%s state=%s" % (",".join(map(str, scr)), ",".join("%d.%d" % c for c in pan), state)
            out.append(f"{s} sched=random seed={rng.randrange(1 << 30)} iters={15 if quick else 300}")
    return out


def failspawn_groups(tier, rng):
    """the k-th thread creation is refused (Builder::spawn -> Err, `expect` panics under the lock, the harness catches
    the unwind); the script goes on with later broadcasts that need the missing threads again / reuse the live ones"""
    quick = tier == "quick"
    out = []
    cases = [([2, 2], 2), ([2, 2], 1), ([1, 3, 2], 2), ([2, 0, 2, 1], 1), ([3, 1, 3], 3), ([1, 2, 2, 1], 2), ([1, 1, 3, 1], 3)]
    if not quick:
        cases += [([4, 4, 2], 3), ([1, 5, 5], 4), ([2, 3, 1, 3], 3), ([6, 6], 6)]
    for scr, k in cases:
        pan = _panic_subsets(scr, rng, 2)[1]
        s = "script=%s panics=%s failspawn=%d" % (",".join(map(str, scr)), ",".join("%d.%d" % c for c in pan), k)
        out.append(f"{s} sched=random seed={rng.randrange(1 << 30)} iters={40 if quick else 1500}")
        out.append(f"{s} sched=pct{rng.choice([2, 3])} seed={rng.randrange(1 << 30)} iters={20 if quick else 600}")
    return out


def vec_groups(tier, rng):
    quick = tier == "quick"
    out = []
    cases = [([1, 4], "clear"), ([2, 0, 3], "clear"), ([0, 1, 2, 5], "clear"), ([1, 1], "append"), ([0, 2, 1], "append"),
             ([2], "pre3.4"), ([0, 2], "pre1.2"), ([1, 3], "pre5.6"), ([3, 1], "pre0.2")]
    if not quick:
        cases += [([1, 8], "clear"), ([2, 2, 2, 6], "clear"), ([4], "pre7.9"), ([1, 2, 3, 4], "append"), ([3], "pre2.16")]
    for scr, vec in cases:
        for pan in _panic_subsets(scr, rng, 2):
            s = "script=%s panics=%s vec=%s" % (",".join(map(str, scr)), ",".join("%d.%d" % c for c in pan), vec)
            out.append(f"{s} sched=random seed={rng.randrange(1 << 30)} iters={25 if quick else 400}")
    return out


def groups(tier, rng):
    quick = tier == "quick"
    scripts = [[1], [2], [2, 1], [0, 3, 1], [1, 1, 1], [2, 2], [1, 2], [3, 1, 2], [4, 0, 2]]
    if not quick:
        scripts += [[3, 3], [1, 3, 1, 3], [5, 2, 5], [8, 4, 8], [0, 0, 1], [6], [2, 1, 2, 1, 2], [7, 1]]
    it_r, it_p = (110, 50) if quick else (4000, 1500)
    gs = []
    for scr in scripts:
        for pan in _panic_subsets(scr, rng, 3 if quick else 5):
            s = "script=%s panics=%s" % (",".join(map(str, scr)), ",".join("%d.%d" % c for c in pan))
            gs.append(f"{s} sched=random seed={rng.randrange(1 << 30)} iters={it_r}")
            gs.append(f"{s} sched=pct{rng.choice([2, 3])} seed={rng.randrange(1 << 30)} iters={it_p}")
    # the caller's call panics with a payload whose own Drop panics: the panic escapes from broadcast
    # (legal after the wait loop); a worker is still running when the caller's call ends
    for scr in ([1], [2, 1], [1, 1], [3, 1]) if quick else ([1], [2, 1], [1, 1], [3, 1], [2, 2, 2], [4, 1], [1, 5]):
        for b in sorted({1, len(scr)}):
            if scr[b - 1] >= 1:
                pan = [c for c in _panic_subsets(scr, rng, 2)[1] if c != (b, 0)]
                s = "script=%s panics=%s bombs=%d.0" % (",".join(map(str, scr)), ",".join("%d.%d" % c for c in pan), b)
                gs.append(f"{s} sched=random seed={rng.randrange(1 << 30)} iters={it_r}")
                gs.append(f"{s} sched=pct{rng.choice([2, 3])} seed={rng.randrange(1 << 30)} iters={it_p}")
    gs.append("script=1 panics= bombs=1.0 sched=dfs seed=0 iters=100000 spur=1")
    # vector discipline: ONE result vector across the broadcasts of the script (cleared in between, appended to,
    # or starting with k elements and capacity c), thread counts growing after a smaller broadcast
    gs += vec_groups(tier, rng)
    gs += state_groups(tier, rng)
    gs += failspawn_groups(tier, rng)
    gs += rtype_groups(tier, rng)
    # bounded DFS (exhaustive for the smallest cases)
    gs.append("script=1 panics= sched=dfs seed=0 iters=100000 spur=2")
    gs.append("script=1 panics=1.1 sched=dfs seed=0 iters=100000 spur=1")
    gs.append("script=0,1 panics=1.0 sched=dfs seed=0 iters=100000 spur=1")
    if quick:
        gs.append("script=1,1 panics= sched=dfs seed=0 iters=15000 spur=0")
        gs.append("script=2 panics= sched=dfs seed=0 iters=15000 spur=0")
    else:
        gs.append("script=1,1 panics= sched=dfs seed=0 iters=400000 spur=1")
        gs.append("script=2 panics= sched=dfs seed=0 iters=400000 spur=1")
        gs.append("script=2,1 panics=1.2 sched=dfs seed=0 iters=400000 spur=0")
        gs.append("script=1,2 panics= sched=dfs seed=0 iters=400000 spur=0")
    return gs


def _run_groups(hbin, group_lines, timeout):
    """one output line per group; a group on which the harness process dies gets `None` and the run resumes after it"""
    out = []
    notes = {}
    todo = list(group_lines)
    while todo:
        try:
            p = subprocess.run([hbin, "replay"], input="\n".join(todo) + "\n", stdout=subprocess.PIPE,
                               stderr=subprocess.PIPE, text=True, timeout=timeout, env=ENV)
            lines, rc, err = p.stdout.split("\n"), p.returncode, p.stderr
        except subprocess.TimeoutExpired as e:
            dec = lambda b: b.decode() if isinstance(b, bytes) else (b or "")
            lines, rc, err = dec(e.stdout).split("\n"), 124, dec(e.stderr)
        if lines and lines[-1] == "":
            lines.pop()
        lines = lines[:len(todo)]
        out.extend(lines)
        if len(lines) == len(todo):
            break
        # the harness died on group number len(lines)
        why = [l for l in err.split("\n") if l.startswith("hx-sched:")]
        notes[len(out)] = "rc=%s %s" % (rc, (why[-1][:200] if why else err.strip().split("\n")[-1][:120]))
        out.append(None)
        todo = todo[len(lines) + 1:]
    return out, notes


def _runner(group_lines):
    def run(st, hbin):
        out, notes = _run_groups(hbin, group_lines, st.impl_timeout)
        cases, impl = [], []
        hist = collections.Counter()
        for gi, g in enumerate(group_lines):
            if out[gi] is None or out[gi].startswith("panic "):
                cases.append(g + " #crash")
                impl.append("crash " + (notes.get(gi) or out[gi][:80]))
                continue
            toks = _parse_group(g)[3]
            key = "script=%s %s%s" % (toks.get("script", ""), toks.get("sched", "").rstrip("0123456789"),
                                      (" vec=" + toks["vec"]) if "vec" in toks else "")
            for t in out[gi].split(" ## "):
                head, _, evs = t.partition(":")
                cases.append(g + " #" + head)
                impl.append(evs)
                hist[key + " distinct"] += 1
                try:
                    hist[key + " schedules"] += int(head.split("*")[1])
                except Exception:
                    pass
        st.cases = cases
        st.hist = dict(sorted(hist.items()))
        return impl
    return run


def _nontrivial(case, model_line):
    scr = case.split(" ")[0].split("=")[1]
    return any(x not in ("", "0") for x in scr.split(","))


def streams(mode, tier, rng):
    gs = corpus_groups(mode) + groups(tier, rng)
    st = Stream("trace-replay", mode, list(gs),
                compare=lambda i, m: m == "accept" and "!" not in i and not i.startswith("crash"),
                nontrivial=_nontrivial,
                model_input=lambda c, i: c + "\t" + i,
                impl_runner=_runner(gs), impl_timeout=170 if tier == "quick" else 1500,
                describe="verbatim pool.rs on shuttle; each distinct schedule trace replayed through the extracted step")
    vg = vec_groups(tier, rng) + state_groups(tier, rng) + rtype_groups(tier, rng)
    st2 = Stream("trace-replay-layout-release", mode, list(vg),
                 compare=lambda i, m: m == "accept" and "!" not in i and not i.startswith("crash"),
                 nontrivial=_nontrivial, model_input=lambda c, i: c + "\t" + i, release=True,
                 impl_runner=_runner(vg), impl_timeout=170 if tier == "quick" else 900,
                 describe="vector-discipline and captured-state groups, release build (std's set_len precondition and rustc's "
                          "misaligned-pointer check are off there): the harness guards (len <= capacity, n+1 new slots, old "
                          "elements untouched, captured pattern intact) are what reports")
    return [st, st2]


BFS_QUICK = ["1", "2", "1 1", "2 1", "1 2", "0 2 1", "1 1 1"]
BFS_THOROUGH = BFS_QUICK + ["3", "2 2"]


def post(tier, rng, api, publication=True):
    """Exhaustive exploration of the extracted model for small scripts: every
    reachable state satisfies the boolean invariants, the measure decreases on
    every non-spurious step, no deadlock, final states satisfy the observations."""
    drv = api["driver_bin"]("pool")
    scripts = BFS_QUICK if tier == "quick" else BFS_THOROUGH
    # C07 does not speak about publication: the views are not inspected there
    rc, lines, err, dt = api["run_lines"](drv, "pool-bfs", [s if publication else s + " ; nopub" for s in scripts], 600)
    res = {"evaluations": 0, "streams": [], "samples": [], "nontrivial_keys": []}
    bad = []
    states = 0
    for s, l in zip(scripts, lines):
        toks = l.split(" ")
        if len(toks) >= 2 and toks[0] == "states":
            states += int(toks[1])
        if not l.endswith(" ok"):
            bad.append((s, l))
    res["evaluations"] = states
    res["nontrivial_keys"] = ["bfs " + s for s in scripts]
    res["streams"].append({"stream": "model-bfs", "mode": "pool-bfs", "cases": len(scripts), "disagreements": len(bad),
                           "wall_s": round(dt, 2), "describe": "all reachable states of the extracted model for small scripts: "
                           "boolean invariants, measure, deadlock freedom, final observations", "states": states})
    res["samples"].append({"stream": "model-bfs", "case": scripts[-1], "impl": "-", "model": lines[-1] if lines else "?"})
    # a failing state of the model under the configuration read from the source is a concrete execution (label
    # sequence) on which the property fails — for weakened memory orderings it is a weak-memory execution of the view
    # model that no sequentially consistent run of the implementation can show
    wit = [(sc, l) for sc, l in bad if " WITNESS " in l]
    if wit:
        sc, l = min(wit, key=lambda x: len(x[1]))
        res["spec_failures"] = [{
            "stream": "model-bfs", "mode": "pool-bfs", "case": sc.split(" ;")[0].strip(),
            "impl": "execution of the model instantiated with the constants read from the source (view semantics of "
                    "release/acquire; a sequentially consistent run of the implementation cannot exhibit a weak-memory "
                    "execution): " + l.split(" WITNESS ", 1)[1],
            "model": l, "spec_verdict": "false " + l.split(" WITNESS ", 1)[1].split(" after ")[0],
            "crate": "hx-sched", "drv": "pool", "release": False}]
    if len(lines) != len(scripts) or bad:
        res["problem"] = "exhaustive exploration of the extracted model fails: " + "; ".join(f"[{s}] {l}" for s, l in bad[:3])
    return res


# --------------------------------------------------------------------------
# Shrinking a failing trace: fewer schedules, shorter script, smaller thread
# counts, fewer panics — as long as some schedule of the group still violates
# the property; the shortest violating trace of the smallest group is reported.
# --------------------------------------------------------------------------

def _parse_group(g):
    d = {}
    for tok in g.split(" "):
        if "=" in tok and not tok.startswith("#"):
            k, v = tok.split("=", 1)
            d[k] = v
    scr = [int(x) for x in d.get("script", "").split(",") if x != ""]
    pairs = lambda key: [tuple(int(y) for y in x.split(".")) for x in d.get(key, "").split(",") if x != ""]
    return scr, pairs("panics"), pairs("bombs"), d


def _fmt_group(scr, pan, bombs, d):
    out = ["script=" + ",".join(map(str, scr)), "panics=" + ",".join("%d.%d" % c for c in pan)]
    if bombs:
        out.append("bombs=" + ",".join("%d.%d" % c for c in bombs))
    for k in ("vec", "state", "rtype", "failspawn", "sched", "seed", "iters", "spur"):
        if k in d:
            out.append(f"{k}={d[k]}")
    return " ".join(out)


def _drop_broadcast(scr, pan, bombs, b):
    """remove broadcast b (1-based) and renumber the faults"""
    ren = lambda l: [(x - 1 if x > b else x, i) for x, i in l if x != b]
    return scr[:b - 1] + scr[b:], ren(pan), ren(bombs)


def _candidates(scr, pan, bombs, d):
    for b in range(len(scr), 0, -1):
        if len(scr) > 1:
            yield _drop_broadcast(scr, pan, bombs, b) + (d,)
    for b in range(len(scr)):
        if scr[b] > 0:
            n = scr[b] - 1
            keep = lambda l: [(x, i) for x, i in l if not (x == b + 1 and i > n)]
            yield scr[:b] + [n] + scr[b + 1:], keep(pan), keep(bombs), d
    for c in pan:
        yield scr, [x for x in pan if x != c], bombs, d
    it = int(d.get("iters", "100"))
    for k in (it // 8, it // 2):
        if 1 <= k < it:
            yield scr, pan, bombs, dict(d, iters=str(k))


def _clauses(verdict):
    return {c for c in verdict.replace("false", "", 1).strip().split(" ")[0].split(",") if c}


def _failing(group, mode, hbin, drv, want=None):
    """(head, trace, verdict) of the shortest violating trace of the group that shares a violated clause with `want`
    (a shrunk case must fail for the same reason), or None"""
    try:
        p = subprocess.run([hbin, "replay"], input=group + "\n", stdout=subprocess.PIPE, stderr=subprocess.PIPE,
                           text=True, timeout=120, env=ENV)
    except subprocess.TimeoutExpired:
        return None
    line = p.stdout.split("\n")[0] if p.stdout else ""
    if p.returncode != 0 and not line:
        # the harness process died: for C06 that is a failing outcome
        why = [l for l in (p.stderr or "").split("\n") if l.startswith("hx-sched:")]
        note = "crash rc=%s %s" % (p.returncode, why[-1][:200] if why else "")
        return ("crash", note, "false harness-crash " + note) if mode == "c06" else None
    if not line or line.startswith("panic "):
        return None
    traces = [t.partition(":") for t in line.split(" ## ")]
    q = subprocess.run([drv, mode + ".sb"], input="\n".join(f"{group} #{h}\t{ev}" for h, _, ev in traces) + "\n",
                       stdout=subprocess.PIPE, stderr=subprocess.DEVNULL, text=True, timeout=300)
    verdicts = q.stdout.split("\n")
    bad = [(h, ev, v) for (h, _, ev), v in zip(traces, verdicts)
           if v.startswith("false") and (want is None or _clauses(v) & want)]
    if not bad:
        return None
    return min(bad, key=lambda x: (len(x[1].split(" ")), x[0]))


def shrink(item, rerun):
    import vp
    mode = item["mode"]
    if mode not in ("c06", "c07"):
        return item
    hbin = os.path.join(vp.TARGET, "release" if item.get("release") else "debug", item.get("crate", "hx-sched"))
    drv = vp.driver_bin(item.get("drv", "pool"))
    group = item["case"].split(" #")[0]
    scr, pan, bombs, d = _parse_group(group)
    want = _clauses(item.get("spec_verdict") or "") or None
    best = _failing(_fmt_group(scr, pan, bombs, d), mode, hbin, drv, want)
    if best is None:
        return item
    budget = 80
    improved = True
    while improved and budget > 0:
        improved = False
        for cand in _candidates(scr, pan, bombs, d):
            budget -= 1
            if budget <= 0:
                break
            r = _failing(_fmt_group(*cand), mode, hbin, drv, want)
            if r is not None:
                scr, pan, bombs, d = cand
                best = r
                improved = True
                break
    group = _fmt_group(scr, pan, bombs, d)
    head, trace, verdict = best
    case = f"{group} #{head}"
    q = subprocess.run([drv, mode], input=f"{case}\t{trace}\n", stdout=subprocess.PIPE, stderr=subprocess.DEVNULL, text=True, timeout=120)
    out = dict(item)
    out.update({"case": case, "impl": trace, "model": q.stdout.split("\n")[0], "spec_verdict": verdict,
                "shrunk_from": item["case"]})
    return out
