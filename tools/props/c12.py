"""C12 — every #[divan::bench] / #[divan::bench_group] item is registered exactly once."""
import glob
import os
import re
from concurrent.futures import ThreadPoolExecutor

import vp
from vp import Stream, ROOT
from props import treelib as T
from props import treeprog as P

DRV = "tree"
CRATE = "hx-run"

RULE = ("(o) overlapping EntryList::push calls from k threads released by a barrier (every node must be in the list exactly once); "
        "(i) synthetic registries (as for C14) pushed into the global lists in random permutations; (ii) real crates using the "
        "attribute macros, generated from abstract programs (module trees of depth <= 4, groups with and without name/options, plain / "
        "Bencher / extern \"C\" / raw-identifier / custom-name / #[ignore] / nested-in-fn-body functions, args over 13 container "
        "expressions, types, consts literal and external, types x consts in both parameter orders, empty lists) and compiled offline "
        "against /repo: registry dump through __private (module path, raw/display name, line, column, ignore, sample_count, shape), "
        "terse listing, --test invocation log, --list, list_benches, under the three ignore flags and with filters, compared with the "
        "model's expand + tree + driver; the specification evaluated on the implementation's output is the tree-free 'flat' semantics. "
        "Non-trivial = the model's run executes at least one case; distinct by input line.")
ASSUMPTIONS = [
    "the linker/.init_array constructor mechanism and syn parsing are exercised end-to-end by the real crates, not modelled: C12 is partial at proof level",
    "theorems relating tree and flat semantics carry the guard `no_name_clash` (no generic function shares its name with a sibling module that holds benchmarks): without it the property fails in divan (finding F8)",
    "as for C14: filter = predicate on the display path, sort = any sibling permutation, no `threads` option",
    "the model follows the repaired group attachment (final match modulo a leading r#, F12); module_path!()'s edition-dependent spelling of raw-identifier modules (spell_2015) is rustc's behaviour, taken as is",
]
TRUSTED = [
    "harness/hx-run and the crate generator tools/props/treeprog.py (the generator knows line/column of every attribute it writes)",
    "rustc's module_path!/line!/column!/type_name output is taken as is",
]
CONSTS_USED = []


def corpus_cases():
    out = []
    for p in sorted(glob.glob(os.path.join(ROOT, "corpus", "C12-*.txt"))):
        for l in open(p, encoding="utf-8"):
            l = l.rstrip("\n")
            if l and not l.startswith("#"):
                out.append(l)
    return out


def clash_known():
    try:
        return any(l.startswith("finding:") and "property=C12" in l for l in open(os.path.join(ROOT, "known_findings.txt"), encoding="utf-8"))
    except OSError:
        return False


def set_fields(o):
    """Which option fields an opts token sets: (ignore?, threads?, sample_count?)."""
    if o == "-":
        return (False, False, False)
    return (o[0] in "tf", o[1:2] == "e", len(o.replace("e", "", 1)) > 1)


def has_clash(reg):
    """A generic function's key (module path + raw name) is a path prefix of an entry that is not its own
    instantiation, or two group entries have the same key."""
    keys = [tuple(g["modpath"].split("::") + [g["raw"]]) for g in reg.groups]
    if len(set(keys)) != len(keys):
        # Two generic functions of the same name under one module path (nested in different fn bodies) share one
        # node whose slot holds whichever group was registered last.  As long as both are generic, show the same
        # display name and set exactly the same option fields, every leaf's own options still decide everything
        # (child over parent) and the result is the intended one; otherwise the winner's settings leak (F8 class).
        byk = {}
        for g, k in zip(reg.groups, keys):
            byk.setdefault(k, []).append(g)
        for k, gs in byk.items():
            if len(gs) > 1:
                if any(g["generic"] is None for g in gs):
                    return True
                if len({g["display"] for g in gs}) > 1:
                    return True
                if len({set_fields(g["opts"]) for g in gs}) > 1:
                    return True
    paths = [tuple(b["modpath"].split("::")) for b in reg.benches]
    for g in reg.groups:
        if g["generic"] is not None:
            paths.append(None)
    for g in reg.groups:
        if g["generic"] is None:
            continue
        key = tuple(g["modpath"].split("::") + [g["raw"]])
        for b in reg.benches:
            p = tuple(b["modpath"].split("::"))
            if p[:len(key)] == key:
                return True
        for h in reg.groups:
            if h is g or (h["generic"] is not None and tuple(h["modpath"].split("::") + [h["raw"]]) == key):
                # (same-key generic groups were judged above)
                continue
            p = tuple(h["modpath"].split("::") + ([h["raw"]] if h["generic"] is not None else []))
            if h["generic"] is not None and p[:len(key)] == key:
                return True
            if h["generic"] is None and tuple(h["modpath"].split("::") + [h["raw"]])[:len(key)] == key and h is not g:
                # a bench_group module below / at the generic function's key
                return True
    return False


def prefix_named_cases():
    """Sibling modules whose names are prefixes of one another (x, x1, x10), each with its own bench_group
    (different display names / ignore), in every registration order of the groups; duplicate raw names among
    sibling benchmarks."""
    import itertools
    out = []
    names = ["x1", "x10", "x"]
    for order in itertools.permutations(range(3)):
        for flag in "ny":
            r = T.Reg()
            for nm in names:
                r.bench("cr::" + nm, "f")
                r.bench("cr::" + nm + "::inner", "g", kind="i", vals=[1, 2])
            r.bench("cr::x1", "f")          # same raw name twice in one module
            r.bench("cr", "f")
            gs = [("x1", "One", "t"), ("x10", "Ten", "-"), ("x", "Ex", "f")]
            for i in order:
                nm, disp, o = gs[i]
                r.group("cr", nm, display=disp, opts=o)
            r.group("cr::x10", "inner", display="In Ten", opts="t")
            r.group("cr::x1", "inner", display="In One", opts="f")
            r.group("cr::x", "inner", display="In Ex")
            out.append(r.line("TRL", ign=flag))
    return out


def same_name_generic_cases():
    """Two generic functions `inner` nested in different fn bodies of one module (same module path and raw name), both
    setting `ignore` (differently) and optionally the same other field: each must keep its own options, in every
    registration order and under every flag."""
    out = []
    for (o1, o2) in [("t", "f"), ("f", "t"), ("t", "t"), ("t3", "f5"), ("f2", "t7"), ("-", "n"), ("n", "-")]:
        for order in (0, 1):
            for flag in "noy":
                r = T.Reg()
                r.bench("cr::m", "plain")
                a = r.generic_fn("cr::m", "inner", types=[0, 6], opts=o1)
                b = r.generic_fn("cr::m", "inner", types=[1], consts=[("i", 1), ("i", 2)], opts=o2, kind="i", vals=[4, 5])
                r.group("cr", "m", display="Mod M", opts="t" if flag == "o" else "-")
                if order:
                    r.groups.reverse()
                assert not has_clash(r)
                out.append(r.line("TRL", ign=flag))
    return out


def nt(case, model):
    return "=C" in model


def real_programs(tier, rng):
    n = 2 if tier == "quick" else 14
    progs = [P.feature_tour("e2e_tour")]
    for i in range(n):
        progs.append(P.rand_program(rng, "e2e_r%d" % i, size=12 if tier == "quick" else rng.choice([8, 14, 20])))
    return progs


def clash_programs():
    F = P.F
    M = lambda raw, items, group=None: dict(k="M", raw=raw, items=items, group=group)
    return [
        P.Prog("e2e_col1", [M("foo", [F("a")], group=dict(name="Foo Group", opts=dict(ignore=True))),
                            F("foo", types=[0, 1], opts=dict(sample_count=5))]),
        P.Prog("e2e_col3", [M("foo", [F("a")]), F("foo", types=[0, 1], name="renamed", opts=dict(ignore=True))]),
        # same-named generic functions in different fn bodies, one leaving `ignore` unset: it takes the other's when that one wins the slot
        P.Prog("e2e_col4", [dict(k="N", fname="first", items=[F("inner", types=[0], opts=dict(ignore=True))]),
                            dict(k="N", fname="second", items=[F("inner", types=[1])])]),
    ]


def exe_path(prog):
    return os.path.join(P.crate_dir(prog, vp.CACHE)[0], "exe")


def build_then_run(progs):
    def runner(st, hbin):
        with vp.Lock("cargo-e2e"):
            with ThreadPoolExecutor(max_workers=4) as ex:
                res = list(ex.map(lambda p: P.build_crate(p, vp.CACHE, vp.REPO, target=vp.TARGET), progs))
        failed = {exe_path(p): log for p, (exe, log) in zip(progs, res) if exe is None}
        rc, lines, err, _ = vp.run_lines(hbin, st.mode, st.cases, st.impl_timeout)
        out = []
        for c, l in zip(st.cases, lines + ["crash rc=%s" % rc] * (len(st.cases) - len(lines))):
            m = re.search(r" X,(\S+)", c)
            exe = T_dec(m.group(1)) if m else None
            if exe in failed:
                out.append("build-failed " + failed[exe][-400:].replace("\n", " ").replace("\t", " "))
            else:
                out.append(l)
        return out
    return runner


def T_dec(s):
    import urllib.parse
    return urllib.parse.unquote(s.replace("%_", ""))


def prog_lines(rng, progs, per):
    cases = []
    for p in progs:
        exe = exe_path(p)
        cases.append(p.line("DOVTRLA", exe, ign="y"))
        cases.append(p.line("DTRL", exe, ign="n"))
        cases.append(p.line("TR", exe, ign="o"))
        for _ in range(per):
            cases.append(p.line("TR", exe, ign=rng.choice("noy"), exact=False,
                                pos=[rng.choice(["alpha", "m", "::", "a", "1", "x", "Group", "inner", "e2e"])] if rng.random() < 0.8 else [],
                                skip=[rng.choice(["beta", "2", "String", "q"])] if rng.random() < 0.4 else [],
                                sort=rng.choice("-knlKNL")))
    return cases


def streams(tier, rng):
    big = tier != "quick"
    n_syn = 8000 if big else 900
    corpus = corpus_cases()
    syn, clash = [], []
    while len(syn) < n_syn:
        reg = T.rand_registry(rng, max_items=9)
        ign = rng.choice("nyyo")
        exact, pos, skip = T.rand_filters(rng, reg) if rng.random() < 0.3 else (False, [], [])
        k = has_clash(reg)
        line = reg.line("TRL" + ("K" if k else ""), ign=ign, exact=exact, pos=pos, skip=skip, sort=rng.choice("-knlKNL"))
        (clash if k else syn).append(line)
        if not k and rng.random() < 0.5:
            # the same registry in another constructor order
            rng.shuffle(reg.benches)
            rng.shuffle(reg.groups)
            syn.append(reg.line("TRL", ign=ign, exact=exact, pos=pos, skip=skip))
    progs = real_programs(tier, rng)
    real = prog_lines(rng, progs, 3 if not big else 6)
    # one edition-2015 crate: module_path!() drops the r# of raw-identifier modules that are not keywords there
    p2015 = P.edition_2015_crate()
    progs.append(p2015)
    real += [p2015.line("DOTRL", exe_path(p2015), ign="n"), p2015.line("TRL", exe_path(p2015), ign="y"),
             p2015.line("TR", exe_path(p2015), ign="o")]
    out = []
    if corpus:
        out.append(Stream("corpus", "c12", corpus, nontrivial=nt))
    # overlapping EntryList::push calls (threads released by a barrier): each pushed node is in the list exactly once
    pushes = ["%d %d %d" % (t, n, r) for (t, n, r) in ([(8, 400, 6), (16, 150, 6), (4, 1500, 4), (2, 3000, 4), (12, 60, 20), (3, 10, 200)]
                                                     * (1 if not big else 8))]
    out.append(Stream("entry-list-push", "push", pushes, describe="k threads x n nodes x rounds of overlapping EntryList::push"))
    out.append(Stream("prefix-named-modules", "c12", prefix_named_cases(), nontrivial=nt))
    out.append(Stream("same-named-generic-fns", "c12", same_name_generic_cases(), nontrivial=nt,
                      describe="generic functions of one name nested in different fn bodies (one module path), same option fields set differently"))
    out.append(Stream("synthetic-permutations", "c12", syn, nontrivial=nt,
                      hist={"cases": len(syn), "name_clash_cases_set_aside": len(clash)}))
    out.append(Stream("real-crates", "c12", real, nontrivial=nt, impl_runner=build_then_run(progs), impl_timeout=900,
                      describe="%d generated crates using the attribute macros (feature tour + random), compiled against the checked tree" % len(progs),
                      hist={"crates": len(progs), "cases": len(real)}))
    if clash_known():
        cp = clash_programs()
        cl = clash[: (400 if big else 60)] + [p.line("TRK", exe_path(p), ign="n") for p in cp]
        out.append(Stream("name-clash (known finding F8)", "c12", cl, nontrivial=nt, impl_runner=build_then_run(cp), impl_timeout=900))
    else:
        # correspondence only: model and code agree on what happens under a name clash (the property itself fails: finding F8)
        out.append(Stream("name-clash-correspondence", "c12", clash[: (400 if big else 60)], nontrivial=nt, sb=False))
    return out


def post(tier, rng, api):
    """The push model has the store into the new node's `next` inside the CAS retry loop: pin that the code does too."""
    try:
        src = open(os.path.join(api["REPO"], "src", "entry", "list.rs"), encoding="utf-8").read()
        body = src[src.index("pub fn push("):]
        i_loop, i_store, i_cas = body.index("loop {"), body.index("other.next.store("), body.index("compare_exchange_weak(")
        ok = i_loop < i_store < i_cas
    except (OSError, ValueError):
        ok = False
    if ok:
        return {"coverage": {"push_shape": "src/entry/list.rs push: `other.next.store(..)` is inside the retry loop, before the CAS (as in Model/ListPush.v)"}}
    return {"problem": "src/entry/list.rs EntryList::push no longer has `other.next.store(old_next)` inside the CAS retry loop: "
                       "Model/ListPush.v (C12_push_linearizable) does not describe this code"}


def shrink(item, rerun):
    if item.get("mode") == "push":
        return item
    if " X," in item["case"]:
        return item
    from props import c14
    return c14.shrink(item, rerun)

MANIFEST = {
    "text": "PARTIAL at proof level (the linker/.init_array constructor mechanism and syn parsing are exercised end to end, not modelled). "
            "Coq theorems for all registries: the leaves of the built tree are the registered entries, each exactly once under the raw "
            "path its module path spells (C12_tree_complete); sibling modules are merged into a trie (C12_modules_merged); the groups "
            "above every leaf are determined by the leaf's raw path alone, the slot at prefix P holding the last registered group with "
            "key P, and group insertion changes nothing else (C12_groups_attach); hence what runs is, as a multiset, what the entries say "
            "one by one (C12_registered_cases), every case exactly once under --include-ignored (C12_all_run_once), independently of "
            "registration order when group keys are distinct (C12_order_independent; the built tree itself is then equal up to sibling "
            "order, C12_order_independent_tree), the --list view is the flat listing (C12_list_view), and the run is equal to the intended flat semantics under the "
            "no-name-clash guard (C12_flat_semantics); macro level: nothing for exclusively empty lists, one "
            "entry per function, exactly the types x consts product for generic ones, external consts 1..20 (C12_expand_*). F12 / edition 2015: module_path!() spells `mod r#try` (r#async, r#await, r#dyn) without the r#, the group's raw name keeps it; "
            "the model follows the repaired divan (20bf342) and groups attach modulo a leading r# "
            "(C12_groups_attach_raw, C12_insert_group_by_key; sibling-order independent without raw twins: C12_attach_order_independent; the "
            "exact-match code loses the group of `mod r#try` in edition 2015: C12_exact_match_refuted, F12). Without the "
            "key guard the property fails in divan: C12_name_clash_refuted (finding F8). Correspondence: synthetic registries in random "
            "constructor orders and generated crates using the real attribute macros (registry dump, terse listing, --test log, --list).",
    "note": "The specification evaluated on the implementation is the tree-free 'flat' semantics (every entry at its module path, bench_group "
            "modules contributing name and options); C12_flat_semantics proves that the model's run equals it under the no-name-clash "
            "guard and no_raw_twins (no two sibling modules differ only by a leading r#). Known finding F8 (module and generic fn of the same name share a tree node) is kept "
            "in a separate stream matched by known_findings.txt. Trusted: rustc's module_path!/line!/column!/type_name "
            "(incl. spell_2015: the edition-2015 spelling of raw-identifier modules, taken as is), the crate generator.",
    "technique": "machine-checked proof in Coq (trie invariant, chains by raw path, commuting slot updates) + whole-program differential "
                 "correspondence incl. generated macro crates compiled offline against the checked tree",
}
