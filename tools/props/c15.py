"""C15 — options resolve per field: run time over benchmark over innermost group."""
import os
import re

from vp import Stream, run_lines
from props import select_e2e as E
from props.c13 import corpus_lines, bump

DRV = "select"
CRATE = "hx-select"

RULE = ("ovw: stacks of 0-3 group levels (each absent or a random {unset,value} assignment of the 11 fields: sample_count, "
        "sample_size, threads, min_time, max_time, skip_ext_time, ignore, 4 counter kinds) + benchmark + runner, resolved with the "
        "crate's BenchOptions::overwrite in run_tree/run_bench_entry order, optionally followed by a Bencher::counter call whose "
        "effect on the Bencher's counters is read back; into: IntoThreads on random lists/scalars/bools; opt: the real benchmark "
        "binary in --bench mode with the runner level set by flags, DIVAN_* variables, builder calls before/after parsing (and "
        "conflicting combinations), under none/--ignored/--include-ignored, observing per benchmark the (ignored) mark, the t=N "
        "branches, the samples/iters columns, the throughput lines and the number of calls. Non-trivial = at least two levels set "
        "the same field to different values (ovw), a list with a duplicate or disorder (into), a runner-level setting present (opt).")
ASSUMPTIONS = [
    "bench-mode observables are derived from the effective options with C03's formula (one sample per thread per round: "
    "ceil(count/t)*t samples of size iterations); the formula is not a theorem of this property",
    "clap's precedence 'flag over DIVAN_* variable' is assumed in the model of the runner level and exercised end to end",
    "the per-benchmark option table of harness/hx-select/src/e2e.rs is mirrored by hand in tools/props/c15.py",
    "available parallelism is probed from the binary itself and handed to the model as a parameter",
    "decimal seconds: std's f64::from_str + Duration::try_from_secs_f64 are assumed correctly rounded, which for plain decimals with "
    "<= 9 fractional digits below 2^52 ns yields exactly the decimal's nanoseconds (checked against parse_seconds on every run)",
    "skip_ext_time end to end: a 50 ms sleeping generator against a 100 ms budget (6 samples iff external time is skipped, 1-3 "
    "otherwise); sleeps only overshoot, so the classification does not depend on machine speed",
]
TRUSTED = ["harness/hx-select/src/opts.rs re-implements the two match statements of run_tree/run_bench_entry around the crate's "
           "overwrite for the function-level stream; the real descent is exercised by the end-to-end stream"]
CONSTS_USED = ["default_sample_count"]

FIELDS = ["sc", "ss", "th", "mn", "mx", "se", "ig", "cb", "cc", "cy", "ci"]


def rand_value(rng, f):
    if f in ("sc", "ss"):
        return str(rng.choice([0, 1, 2, 3, 7, 100, 2**32 - 1]))
    if f == "th":
        n = rng.choice([0, 1, 1, 2, 3, 5])
        return "".join(str(rng.choice([0, 1, 2, 3, 4, 8, 64])) + "." for _ in range(n))
    if f in ("mn", "mx"):
        return str(rng.choice([0, 1, 999, 10**9, 5 * 10**9 + 1, 2**63]))
    if f in ("se", "ig"):
        return str(rng.randrange(2))
    return str(rng.choice([0, 1, 5, 1000, 2**40, 2**64 - 1]))


def rand_level(rng, density):
    kv = [f"{f}={rand_value(rng, f)}" for f in FIELDS if rng.random() < density]
    return ",".join(kv)


def gen_ovw(rng, k):
    ngroups = rng.choice([0, 1, 1, 2, 2, 3, 3, 3, 5])
    density = rng.choice([0.15, 0.3, 0.5, 0.8])
    toks = []
    for _ in range(ngroups):
        toks.append("G:" + ("-" if rng.random() < 0.2 else rand_level(rng, density)))
    toks.append("B:" + ("-" if rng.random() < 0.2 else rand_level(rng, density)))
    toks.append("R:" + rand_level(rng, rng.choice([0.0, 0.15, 0.3, 0.6])))
    line = f"o{k} #L " + " ".join(toks)
    if rng.random() < 0.4:
        line += " #C " + rng.choice(["cb", "cc", "cy", "ci"]) + "=" + str(rng.choice([0, 3, 77, 2**33]))
    return line, ngroups


def ovw_conflict(c, m):
    """Some field is set at two or more levels."""
    seen = {}
    for tok in c.split(" #L ")[1].split(" #C")[0].split():
        spec = tok.split(":", 1)[1]
        for kv in spec.split(","):
            if "=" in kv:
                seen.setdefault(kv.split("=")[0], set()).add(kv.split("=")[1])
    return any(len(v) >= 2 for v in seen.values())


def gen_into(rng, k):
    r = rng.random()
    if r < 0.8:
        n = rng.choice([0, 1, 2, 3, 4, 6, 10])
        return "v " + " ".join(str(rng.choice([0, 1, 2, 3, 4, 7, 8, 16, 1000])) for _ in range(n)) if n else "v"
    if r < 0.9:
        return "u " + str(rng.choice([0, 1, 2, 3, 42, 2**31]))
    return "b " + str(rng.randrange(2))


# ---------------------------------------------------------------------------
# end to end: option table of harness/hx-select/src/e2e.rs (mod opt)
# path -> levels from the crate root down to the benchmark ("-" = no options)
# ---------------------------------------------------------------------------
ROOT = "hx_select_e2e::opt::"
G1, G2, G3 = "sc=4,ss=2", "sc=3,th=1.2.", "ss=1,ig=1"
OPT_TABLE = {
    "plain": ["-", "-", "-"],
    "own": ["-", "-", "sc=2,ss=3"],
    "thr": ["-", "-", "th=1.2."],
    "thr_dup": ["-", "-", "th=2.1.2.1."],
    "thr_false": ["-", "-", "th=1."],
    "ign": ["-", "-", "ig=1"],
    "ign_false": ["-", "-", "ig=0"],
    "mx": ["-", "-", "mx=100000000000,sc=2,ss=2"],
    "g0::inherit0": ["-", "-", "mx=0", "sc=2,ss=1"],
    "g0::mx_over": ["-", "-", "mx=0", "mx=50000000000,sc=2,ss=1"],
    "gc::inherit_items": ["-", "-", "ci=4,sc=1,ss=1", "-"],
    "gc::plus_bytes": ["-", "-", "ci=4,sc=1,ss=1", "cb=2"],
    "match::inherit": ["-", "-", "sc=3,ss=2", "-"],
    "match::size4": ["-", "-", "sc=3,ss=2", "ss=4"],
    "outer::loop::inherit": ["-", "-", "-", "sc=2,ss=3", "-"],
    "where::inherit": ["-", "-", "sc=1,ss=1,ig=1", "-"],
    "where::unignored": ["-", "-", "sc=1,ss=1,ig=1", "ig=0"],
    "ign_reason": ["-", "-", "sc=1,ss=1,ig=1"],
    "gi::inherit": ["-", "-", "sc=1,ss=1,ig=1", "-"],
    "gi::unignored": ["-", "-", "sc=1,ss=1,ig=1", "ig=0"],
    "gi::counted": ["-", "-", "sc=1,ss=1,ig=1", "sc=2"],
    "gi::inner::deep": ["-", "-", "sc=1,ss=1,ig=1", "ss=3,th=1.", "-"],
    "gi::inner::deep_unignored": ["-", "-", "sc=1,ss=1,ig=1", "ss=3,th=1.", "sc=1,ig=0"],
    "io::read": ["-", "-", "-", "-"],        # the group on platform::linux::io (no benchmarks below it) does not enclose it
    "sort": ["-", "-", "sc=1,ss=1"],
    "sort::a": ["-", "-", "sc=5,ss=2", "-"],
    "sort::b": ["-", "-", "sc=5,ss=2", "-"],
    "sort::c": ["-", "-", "sc=5,ss=2", "ss=3"],
    "tros": ["-", "-", "sc=2,ss=2"],
    "tros::a": ["-", "-", "sc=6,ss=1,th=1.2.", "-"],
    "tros::b": ["-", "-", "sc=6,ss=1,th=1.2.", "-"],
    "tros::c": ["-", "-", "sc=6,ss=1,th=1.2.", "th=1."],
    "pa": ["-", "-", "sc=1,ss=1"],
    "pa::a": ["-", "-", "sc=3,ss=2", "-"],
    "pa::b": ["-", "-", "sc=3,ss=2", "-"],
    "pa::c": ["-", "-", "sc=3,ss=2", "-"],
    "pb": ["-", "-", "sc=1,ss=1"],
    "pb::a": ["-", "-", "sc=4,ss=2", "-"],
    "pb::b": ["-", "-", "sc=4,ss=2", "-"],
    "pb::c": ["-", "-", "sc=4,ss=2", "-"],
    "pc": ["-", "-", "sc=1,ss=1"],
    "pc::a": ["-", "-", "sc=5,ss=2", "-"],
    "pc::b": ["-", "-", "sc=5,ss=2", "-"],
    "pc::c": ["-", "-", "sc=5,ss=2", "-"],
    "pd": ["-", "-", "sc=1,ss=1"],
    "pd::a": ["-", "-", "sc=6,ss=2", "-"],
    "pd::b": ["-", "-", "sc=6,ss=2", "-"],
    "pd::c": ["-", "-", "sc=6,ss=2", "-"],
    "pe": ["-", "-", "sc=1,ss=1"],
    "pe::a": ["-", "-", "sc=7,ss=2", "-"],
    "pe::b": ["-", "-", "sc=7,ss=2", "-"],
    "pe::c": ["-", "-", "sc=7,ss=2", "-"],
    "pf": ["-", "-", "sc=1,ss=1"],
    "pf::a": ["-", "-", "sc=8,ss=2", "-"],
    "pf::b": ["-", "-", "sc=8,ss=2", "-"],
    "pf::c": ["-", "-", "sc=8,ss=2", "-"],
    "g1::inherit": ["-", "-", G1, "-"],
    "g1::size5": ["-", "-", G1, "ss=5"],
    "g1::g2::inherit": ["-", "-", G1, G2, "-"],
    "g1::g2::one_thread": ["-", "-", G1, G2, "th=1."],
    "g1::g2::g3::inherit": ["-", "-", G1, G2, G3, "-"],
    "g1::g2::g3::unignored": ["-", "-", G1, G2, G3, "ig=0,th=1.,sc=1"],
    "g1::plainmod::count1": ["-", "-", G1, "-", "sc=1"],
}
B_TOKENS = " ".join(ROOT + p + "|" + "|".join(l) for p, l in sorted(OPT_TABLE.items()))

FLAG = {"mn": "--min-time", "sc": "--sample-count", "ss": "--sample-size", "th": "--threads", "mx": "--max-time", "ci": "--items-count", "cb": "--bytes-count"}
ENVV = {"mn": "DIVAN_MIN_TIME", "se": "DIVAN_SKIP_EXT_TIME", "sc": "DIVAN_SAMPLE_COUNT", "ss": "DIVAN_SAMPLE_SIZE", "th": "DIVAN_THREADS", "mx": "DIVAN_MAX_TIME",
        "ci": "DIVAN_ITEMS_COUNT", "cb": "DIVAN_BYTES_COUNT"}
BUILD = {"mn": "min_time", "se": "skip_ext_time", "sc": "sample_count", "ss": "sample_size", "th": "threads", "mx": "max_time", "ci": "items_count", "cb": "bytes_count"}


def gen_opt(rng, k, par):
    src = {"F": [], "E": [], "P": [], "Q": []}
    nset = 0
    # mn (always 0), se and mx=1000 s have no visible effect here; they ride along so that every pair of run-time options
    # meets on one command line / environment (clap-level interactions: overrides_with, conflicts_with, defaults, delimiters)
    for f in ["sc", "ss", "th", "mx", "ci", "cb", "mn", "se"]:
        p_use = {"sc": 0.5, "ss": 0.7, "th": 0.4, "mx": 0.3, "ci": 0.25, "cb": 0.15, "mn": 0.3, "se": 0.25}[f]
        if rng.random() > p_use:
            continue
        nset += 1
        where = rng.choice(["F", "E", "P", "Q", "F", "E", "FE", "PF", "PE", "QF", "PQ", "FEPQ"])
        for w in where:
            if f == "sc":
                v = str(rng.choice([1, 2, 3, 5, 6]))
            elif f == "ss":
                v = str(rng.choice([1, 2, 3]))
            elif f == "th":
                pool = [0, 1, 2, 3, "P", 1, 2, 0, "P"]
                n = rng.choice([1, 1, 2, 2, 3, 4])
                v = "".join(str(rng.choice(pool)) + "." for _ in range(n))
            elif f == "mx":
                v = rng.choice(["0", "1000000000000", "1000000000000", "1000000000000"])
            elif f == "mn":
                v = "0"
            elif f == "se":
                v = str(rng.randrange(2))
            else:
                v = str(rng.choice([1, 7, 1000]))
            src[w].append(f"{f}={v}")
    mode = rng.choice(["none", "none", "none", "ignored", "include"])
    mode_by = rng.choice(["flag", "builder"]) if mode != "none" else "-"
    line = f"p{k} #R " + " ".join(f"{w}:" + ",".join(src[w]) for w in "FEPQ") + f" #I {mode} #Y {mode_by}"
    if any("th=" in kv and ("0." in kv or "P." in kv) for w in "FEPQ" for kv in src[w]) and rng.random() < 0.5:
        line += f" #A {rng.choice([2, 3])}"     # run confined to 2 or 3 CPUs: 0 must mean what std says is available there
    return line, nset


def spec_of(case, w):
    m = re.search(rf" {w}:(\S*)", case)
    return [kv.split("=") for kv in m.group(1).split(",") if kv] if m else []


def cli_value(f, v, par):
    if f == "th":
        return ",".join(str(par) if x == "P" else x for x in v.split(".") if x)
    if f in ("mn", "mx"):
        return str(int(v) // 10**9)
    if f == "se":
        return "true" if v == "1" else "false"
    return v


def opt_cmd(case, par=1):
    """`P` in a thread list stands for the machine's available parallelism (probed)."""
    args, env, builder = ["--bench", "^hx_select_e2e::opt"], {}, []
    for f, v in spec_of(case, "F"):
        if f == "se":
            args.append("--skip-ext-time=" + cli_value(f, v, par))
        else:
            args += [FLAG[f], cli_value(f, v, par)]
    for f, v in spec_of(case, "E"):
        env[ENVV[f]] = cli_value(f, v, par)
    for w, pre in (("P", "pre:"), ("Q", "post:")):
        for f, v in spec_of(case, w):
            builder.append(f"{pre}{BUILD[f]}={cli_value(f, v, par)}")
    mode = case.split(" #I ")[1].split()[0]
    by = case.split(" #Y ")[1].split()[0]
    if mode != "none":
        if by == "flag":
            args.append("--ignored" if mode == "ignored" else "--include-ignored")
        else:
            builder.append("post:" + ("run_only_ignored" if mode == "ignored" else "run_ignored"))
    env["HX_BUILDER"] = ";".join(builder)
    return args, env


UNIT = [("B", re.compile(r"\d [KMGTP]?i?B/s")), ("C", re.compile(r"char/s")), ("Y", re.compile(r"\d [KMGTP]?Hz")), ("I", re.compile(r"item/s"))]


def parse_bench(stdout):
    """Bench-mode tree -> {path: {"ignored": bool, "rows": [(t or None, samples, iters, units)]}} for benchmark leaves."""
    nodes = []   # (depth, name, cells, units)
    for line in stdout.splitlines():
        if not line.strip():
            continue
        m = re.match(r"^((?:[│ ]  )*)[├╰]─ (.*)$", line)
        if m:
            depth = len(m.group(1)) // 3 + 1
            body = m.group(2)
        elif not line[0] in " │":
            depth, body = 0, line
        else:
            # continuation line (throughput) of the last node
            if nodes:
                for letter, rx in UNIT:
                    if rx.search(line) and letter not in nodes[-1][3]:
                        nodes[-1][3].append(letter)
            continue
        cells = [c.strip() for c in body.split("│")]
        first = cells[0]
        name = re.split(r"\s{2,}", first)[0]
        rest = first[len(name):].strip()
        nodes.append((depth, name, [rest] + cells[1:], []))
    res = {}
    stack = []
    for i, (d, name, cells, units) in enumerate(nodes):
        stack = stack[:d]
        path = "::".join(stack + [name])
        stack.append(name)
        has_child = i + 1 < len(nodes) and nodes[i + 1][0] > d
        if cells[0] == "(ignored)":
            res[path] = {"ignored": True, "rows": []}
        elif name.startswith("t=") and len(cells) >= 6 and cells[4].isdigit():
            parent = "::".join(stack[:-1])
            res.setdefault(parent, {"ignored": False, "rows": []})["rows"].append((name[2:], cells[4], cells[5], "".join(sorted(units, key="BCYI".index))))
        elif not has_child and len(cells) >= 6 and cells[4].isdigit():
            res[path] = {"ignored": False, "rows": [("-", cells[4], cells[5], "".join(sorted(units, key="BCYI".index)))]}
    return res


class OptContext:
    """Available parallelism as std reports it to a fresh harness process under the same CPU confinement as the
    benchmark binary (not read off the binary's own output: that is the thing under test)."""

    def __init__(self, hist=None):
        self.par = {}
        self.hist = hist
        self.order_done = False

    def registration_order(self, hbin):
        """How many of the function + same-named module pairs have the function's leaf registered ahead of every
        benchmark of the module in THIS build (link order; observable through BENCH_ENTRIES)."""
        if self.order_done or self.hist is None:
            return
        self.order_done = True
        rc, out, err = E.run(hbin, [], {"HX_DUMP_ORDER": "1"})
        order = out.splitlines()
        pairs = ["sort", "tros", "pa", "pb", "pc", "pd", "pe", "pf"]
        first = 0
        for n in pairs:
            leaf = "hx_select_e2e::opt::" + n
            inner = [i for i, l in enumerate(order) if l.startswith(leaf + "::")]
            if leaf in order and inner and order.index(leaf) < min(inner):
                first += 1
        self.hist[f"same-named-pairs-with-fn-leaf-registered-first:{first}-of-{len(pairs)}"] = 1

    def probe(self, hbin, ncpus=None):
        if ncpus not in self.par:
            self.par[ncpus] = E.harness_parallelism(hbin, ncpus)
        return self.par[ncpus]


def affinity_of(case):
    return int(case.split(" #A ")[1].split()[0]) if " #A " in case else None


def opt_impl_runner(ctx):
    def runner(st, hbin):
        lines = []
        ctx.registration_order(hbin)
        for case in st.cases:
            ncpus = affinity_of(case)
            par = ctx.probe(hbin, ncpus)
            if par is None:     # confinement not possible on this machine: run unconfined
                ncpus, par = None, ctx.probe(hbin, None)
            args, env = opt_cmd(case, par)
            rc, out, err = E.run(hbin, args, env, timeout=90, ncpus=ncpus)
            if rc != 0:
                lines.append(f"crash rc={rc} {err.strip().splitlines()[-1:]}")
                continue
            obs = parse_bench(out)
            calls = {}
            for tag in E.ran_tags(err):
                calls[tag] = calls.get(tag, 0) + 1
            ents = []
            for p in sorted(OPT_TABLE):
                path = ROOT + p
                o = obs.get(path)
                if o is None:
                    ents.append(path + "=missing")
                elif o["ignored"]:
                    ents.append(path + "=I" + ("" if calls.get(path, 0) == 0 else f"-but-called-{calls[path]}"))
                else:
                    rows = ";".join(f"{t}:{s}:{i}" for t, s, i, _ in o["rows"])
                    units = o["rows"][0][3] if o["rows"] else ""
                    if any(r[3] != units for r in o["rows"]):
                        units = "mixed"
                    ents.append(f"{path}=R/{rows}/{units or '-'}/{calls.get(path, 0)}")
            # the terse listing under the same flags, variables and builder calls
            largs = ["--list", "--format", "terse"] + [a for a in args if a != "--bench"]
            rc2, out2, err2 = E.run(hbin, largs, dict(env, NEXTEST="1"), timeout=60, ncpus=ncpus)
            listed = sorted(E.terse_cases(out2)) if rc2 == 0 else [f"listing-failed-rc={rc2}"]
            lines.append("O " + " ".join(ents) + " #L " + " ".join(listed) + f" #P {par} #B {B_TOKENS}")
        return lines
    return runner


def opt_model_input(case, impl):
    if " #P " not in impl:
        return case + " #P 1 #B " + B_TOKENS
    return case + " #P " + impl.split(" #P ", 1)[1]


def wildcard_eq(impl, model):
    i = impl.split(" #P ")[0]
    rx = re.escape(model).replace(r"\?u", "[A-Z-]*").replace(r"\?", r"\d+")
    return re.fullmatch(rx, i) is not None


# ---------------------------------------------------------------------------
# end to end, coarse timing: skip_ext_time and the runner-only bytes_format (mod tim of e2e.rs)
# ---------------------------------------------------------------------------
TROOT = "hx_select_e2e::tim::"
TIMING = "mx=100000000,sc=6,ss=1"
TIM_TABLE = {
    "ext": ["-", "-", "se=1," + TIMING],
    "noext": ["-", "-", TIMING],
    "gse::inherit": ["-", "-", "se=1," + TIMING, "-"],
    "gse::off": ["-", "-", "se=1," + TIMING, "se=0"],
}
TIM_B = " ".join(TROOT + p + "|" + "|".join(l) for p, l in sorted(TIM_TABLE.items()))
TIM_FIXED = [
    "s0 #R F: E: P: Q: #V eq",                      # nothing at run time: the attribute must win
    "s1 #R F:se=1 E: P: Q: #V bare",                # --skip-ext-time
    "s2 #R F:se=1 E: P: Q: #V eq",                  # --skip-ext-time=true
    "s3 #R F:se=0 E: P:bf=1 Q: #V eq",              # --skip-ext-time=false; builder bytes_format(Binary) before parsing
    "s4 #R F: E:se=1,bf=1 P: Q: #V eq",             # DIVAN_SKIP_EXT_TIME=true, DIVAN_BYTES_FORMAT=binary
    "s5 #R F:bf=0 E:se=0 P:bf=1 Q: #V eq",          # env false; flag decimal over builder binary
    "s6 #R F: E: P:se=0 Q:bf=1 #V eq",              # builder before parsing
    "s7 #R F:se=0 E:se=1 P: Q:se=1 #V eq",          # builder after parsing beats the flag
    "s8 #R F:se=1 E:se=0 P:se=0 Q: #V bare",        # flag beats env and builder-before
    "s9 #R F:bf=1 E:bf=0 P: Q:bf=0 #V eq",          # bytes_format: builder-after over flag over env
    "s10 #R F: E: P:bf=1,se=0 Q: #V eq",            # only builder calls before parsing: nothing on the command line may undo them
]
LROOT = "hx_select_e2e::lim::"
LIM_B = f"mx@{LROOT}ceil|-|-|sc=40,ss=1 mn@{LROOT}floor|-|-|sc=1,ss=1"
MN, MX = "mn=50000000", "mx=60000000"      # 50 ms floor, 60 ms ceiling
# Cases with a floor AND a ceiling in force on the same benchmark (l1, l2, l5-l9, l11) are not in this real-time stream:
# on a loaded machine one slow call can use up the ceiling before the floor shows. The exact resolution of both limits is
# checked by runner-options-fresh-process (and the pair on one command line by e2e-runner-level q15-q18).
LIM_FIXED = [
    "l0 #R F: E: P: Q: #V eq #M lim",
    f"l3 #R F:{MN} E: P: Q: #V eq #M lim",
    f"l4 #R F:{MX} E: P: Q: #V eq #M lim",
    f"l10 #R F:{MX},se=1 E: P: Q: #V bare #M lim",     # skip-ext-time + max-time
    # sub-millisecond limits (up to 9 fractional digits) are not zero: the benchmark still runs
    "l12 #R F:mx=400000 E: P: Q: #V eq #M lim",          # --max-time 0.0004
    "l13 #R F: E:mx=400000 P: Q: #V eq #M lim",          # DIVAN_MAX_TIME=0.0004
    "l14 #R F:mx=1 E: P: Q: #V eq #M lim",               # --max-time 0.000000001
    "l15 #R F:mx=499999 E:mx=0 P: Q: #V eq #M lim",      # 0.000499999 by flag over 0 by env
    "l16 #R F:mx=0 E:mx=400000 P: Q: #V eq #M lim",      # and a real zero
    "l17 #R F: E: P:mx=400000 Q: #V eq #M lim",
]
TF = {"1": "true", "0": "false"}
BF = {"1": "binary", "0": "decimal"}


def gen_tim(rng, k):
    src = {"F": [], "E": [], "P": [], "Q": []}
    for f in ("se", "bf"):
        for w in rng.choice(["", "F", "E", "P", "Q", "FE", "PF", "QF", "PE"]):
            src[w].append(f"{f}={rng.randrange(2)}")
    return f"r{k} #R " + " ".join(f"{w}:" + ",".join(src[w]) for w in "FEPQ") + " #V " + rng.choice(["bare", "eq"])


def secs(ns):
    ns = int(ns)
    return (f"{ns // 10**9}.{ns % 10**9:09d}").rstrip("0").rstrip(".")


def tim_module(case):
    return case.split(" #M ")[1].split()[0] if " #M " in case else "tim"


def tim_cmd(case):
    mod = tim_module(case)
    args, env, builder = ["--bench", "^hx_select_e2e::" + mod], {"HX_SLEEP_MS": "50"}, []
    bare = case.split(" #V ")[1].split()[0] == "bare"
    tail = []
    for f, v in spec_of(case, "F"):
        if f == "se":
            if bare and v == "1":
                tail = ["--skip-ext-time"]       # without a value; last, so that it cannot take the filter for its value
            else:
                args.append("--skip-ext-time=" + TF[v])
        elif f == "bf":
            args += ["--bytes-format", BF[v]]
        else:
            args += ["--min-time" if f == "mn" else "--max-time", secs(v)]
    for f, v in spec_of(case, "E"):
        if f in ("mn", "mx"):
            env["DIVAN_MIN_TIME" if f == "mn" else "DIVAN_MAX_TIME"] = secs(v)
        else:
            env["DIVAN_SKIP_EXT_TIME" if f == "se" else "DIVAN_BYTES_FORMAT"] = TF[v] if f == "se" else BF[v]
    for w, pre in (("P", "pre:"), ("Q", "post:")):
        for f, v in spec_of(case, w):
            if f in ("mn", "mx"):
                builder.append(pre + ("min_time=" if f == "mn" else "max_time=") + secs(v))
            else:
                builder.append(pre + ("skip_ext_time=" + TF[v] if f == "se" else "bytes_format=" + BF[v]))
    env["HX_BUILDER"] = ";".join(builder)
    return args + tail, env


def tim_impl_runner(st, hbin):
    lines = []
    for case in st.cases:
        args, env = tim_cmd(case)
        rc, out, err = E.run(hbin, args, env, timeout=60)
        if rc != 0:
            lines.append(f"crash rc={rc} {err.strip().splitlines()[-1:]}")
            continue
        obs = parse_bench(out)

        def samples(path):
            o = obs.get(path)
            return int(o["rows"][0][1]) if o and o["rows"] else None

        if tim_module(case) == "lim":
            # ceil: 40 samples of 2 ms requested (80 ms): fewer only under a ceiling; floor: 1 sample of 5 ms requested:
            # more only under a floor
            c, f = samples(LROOT + "ceil"), samples(LROOT + "floor")
            ents = [LROOT + "ceil=" + ("missing" if c is None else "Z" if c == 0 else "n" if c == 40 else "C" if 1 <= c < 40 else f"odd-{c}-samples"),
                    LROOT + "floor=" + ("missing" if f is None else "Z" if f == 0 else "n" if f == 1 else "F" if f >= 2 else f"odd-{f}-samples")]
            brow = [l for l in out.splitlines() if "B/s" in l]
            bf = "bin" if brow and "iB/s" in brow[0] else "dec"
            lines.append("T " + " ".join(ents) + f" #Z {bf} #B {LIM_B}")
            continue
        ents = []
        for p in sorted(TIM_TABLE):
            n = samples(TROOT + p)
            if n is None:
                ents.append(TROOT + p + "=missing")
                continue
            # 6 samples: external time was skipped; 1-3: the 100 ms budget was used up by the 50 ms generator
            ents.append(TROOT + p + "=" + ("S" if n == 6 else "N" if 1 <= n <= 3 else f"odd-{n}-samples"))
        brow = [l for l in out.splitlines() if "B/s" in l]
        bf = "none" if not brow else "bin" if "iB/s" in brow[0] else "dec"
        lines.append("T " + " ".join(ents) + f" #Z {bf} #B {TIM_B}")
    return lines


def tim_model_input(case, impl):
    return case + " #B " + (LIM_B if tim_module(case) == "lim" else TIM_B)


# ---------------------------------------------------------------------------
# ParsedSeconds (hook parse_seconds) and the resolved runner-level options of a fresh process (hook runner_options)
# ---------------------------------------------------------------------------
MALFORMED = ["", "abc", "-1", "1e400", "nan", "inf", "NaN", "-inf", "infinity", ".", "+", "-", "1..2", "1.2.3", "1,5", "\u24231", "1\u2423",
             "0x10", "1_000", "--1", "+-1", "1s", "ms", "1.5e", "e5", "-0.5", "-0.000000001", "1e999", "٣"]


def rand_decimal(rng):
    """Plain decimal text with at most 9 fractional digits, value below 2^52 ns."""
    ip = rng.choice(["", "0", "0", "00", str(rng.randrange(10)), str(rng.randrange(1000)), str(rng.randrange(4 * 10**6)), "007"])
    k = rng.choice([0, 1, 2, 3, 4, 6, 8, 9, 9])
    fp = "".join(rng.choice("0123456789") for _ in range(k))
    if rng.random() < 0.25 and k:
        fp = "0" * rng.randrange(k) + rng.choice(["1", "4", "5", "9", "49", "5", "999"])
        fp = fp[:9]
    form = rng.random()
    if not ip and not fp:
        ip = "0"
    t = ip + ("." + fp if fp or form < 0.1 else "")
    if t.startswith(".") and not fp:
        t = "0."
    return ("+" if rng.random() < 0.05 else "") + t


def gen_psec(rng, k):
    if rng.random() < 0.12:
        return f"d{k} " + rng.choice(MALFORMED)
    return f"d{k} " + rand_decimal(rng)


PSEC_FIXED = ["z0 0.0004", "z1 0.0005", "z2 0.000499999", "z3 0.000000001", "z4 0.000000000", "z5 0.3", "z6 0.1", "z7 0.7", "z8 1.0015",
              "z9 2.675", "z10 0.0015", "z11 4000000.999999999", "z12 0.999999999", "z13 59.9995", "z14 .0004", "z15 1.", "z16 0",
              "z17 1000", "z18 0.0025", "z19 0.0035", "z20 3600.000000001"] + [f"y{i} {m}" for i, m in enumerate(MALFORMED)]

R_FLAG = {"sc": "--sample-count", "ss": "--sample-size", "th": "--threads", "mn": "--min-time", "mx": "--max-time",
          "cb": "--bytes-count", "cc": "--chars-count", "cy": "--cycles-count", "ci": "--items-count"}
R_ENV = {"sc": "DIVAN_SAMPLE_COUNT", "ss": "DIVAN_SAMPLE_SIZE", "th": "DIVAN_THREADS", "mn": "DIVAN_MIN_TIME", "mx": "DIVAN_MAX_TIME",
         "se": "DIVAN_SKIP_EXT_TIME", "cb": "DIVAN_BYTES_COUNT", "cc": "DIVAN_CHARS_COUNT", "cy": "DIVAN_CYCLES_COUNT", "ci": "DIVAN_ITEMS_COUNT"}
R_BUILD = {"sc": "sample_count", "ss": "sample_size", "th": "threads", "mn": "min_time_ns", "mx": "max_time_ns", "se": "skip_ext_time",
           "cb": "bytes_count", "cc": "chars_count", "cy": "cycles_count", "ci": "items_count"}


def gen_ropt(rng, k):
    src = {"F": [], "E": [], "P": [], "Q": []}
    for f in ["sc", "ss", "th", "mn", "mx", "se", "cb", "cc", "cy", "ci"]:
        if rng.random() > 0.45:
            continue
        for w in rng.choice(["F", "E", "P", "Q", "F", "E", "P", "FE", "PF", "PE", "QF", "PQ", "PFE", "FEPQ"]):
            if f in ("sc", "ss"):
                v = str(rng.choice([0, 1, 2, 100, 2**32 - 1]))
            elif f == "th":
                v = "".join(str(rng.choice([0, 1, 2, 3, 8, 64])) + "." for _ in range(rng.choice([1, 1, 2, 3, 4])))
            elif f in ("mn", "mx"):
                if w in "FE":
                    v = "T" + (rng.choice(["0.0004", "0.0005", "0.000499999", "0", "0.3", "2.675", "0.000000001"]) if rng.random() < 0.4
                               else rand_decimal(rng))
                    if rng.random() < 0.03:
                        v = "T" + rng.choice(["abc", "-1", "nan", "1e400"])
                else:
                    v = str(rng.choice([0, 1, 400000, 10**9, 5 * 10**9 + 1, 2**62]))
            elif f == "se":
                v = str(rng.randrange(2))
            else:
                v = str(rng.choice([0, 1, 5, 2**40, 2**64 - 1]))
            if w in "FE" and f != "se" and rng.random() < 0.03:
                v = "X" + rng.choice(["abc", "-1", "1.5", "", "0x10", "4294967296" if f in ("sc", "ss") else "18446744073709551616"])
                if f in ("mn", "mx"):
                    v = "X" + rng.choice(["abc", "-1", "nan", "1e400"])
                if f == "th":
                    v = "X" + rng.choice(["a.", "1.x.", "-1.", "1.z.3."])
            src[w].append(f"{f}={v}")
    return f"r{k} #R " + " ".join(f"{w}:" + ",".join(src[w]) for w in "FEPQ") + " #V " + rng.choice(["bare", "eq"])


ROPT_FIXED = [
    "f0 #R F: E: P: Q: #V eq",
    "f1 #R F: E: P:mx=5000000000,mn=7 Q: #V eq",                  # builder limits, nothing on the command line: they stay
    "f2 #R F:mn=T0.25 E: P:mx=5000000000 Q: #V eq",               # --min-time given, --max-time absent: the builder ceiling stays
    "f3 #R F:mx=T0.0004 E:mn=T0.000499999 P: Q: #V eq",
    "f4 #R F:mx=T0.3,mn=T0.1 E:mx=T9,mn=T9 P:mx=1,mn=1 Q: #V eq",
    "f5 #R F:se=1 E:se=0 P:se=0 Q: #V bare",
    "f6 #R F:th=3.1.3.0. E:th=7. P:th=9. Q: #V eq",
    "f7 #R F:cb=1,cc=2,cy=3,ci=4 E:cb=9,cc=9,cy=9,ci=9 P: Q:ci=5 #V eq",
    "f8 #R F:mx=Tabc E: P: Q: #V eq",
    "f9 #R F: E:mn=T-1 P: Q: #V eq",
    "f10 #R F:sc=0,ss=0 E:sc=5 P:ss=6 Q:sc=7 #V eq",
]


def ropt_cmd(case):
    args, env, builder, tail = [], {"HX_DUMP_RUNNER": "1"}, [], []
    bare = case.split(" #V ")[1].split()[0] == "bare"

    def val(f, v):
        if f == "th":
            return ",".join(x for x in v.lstrip("X").split(".") if x)
        if v.startswith("X") or (f in ("mn", "mx") and v.startswith("T")):
            return E.dec(v[1:])     # X: text the value parser refuses; T: decimal seconds
        if f == "se":
            return TF[v]
        return v

    for f, v in spec_of(case, "F"):
        if f == "se":
            if bare and v == "1":
                tail = ["--skip-ext-time"]
            else:
                args.append("--skip-ext-time=" + TF[v])
        else:
            # `=` form: a value such as "-1" must not be taken for a flag
            args.append(R_FLAG[f] + "=" + val(f, v))
    for f, v in spec_of(case, "E"):
        env[R_ENV[f]] = val(f, v)
    for w, pre in (("P", "pre:"), ("Q", "post:")):
        for f, v in spec_of(case, w):
            builder.append(pre + R_BUILD[f] + "=" + val(f, v))
    env["HX_BUILDER"] = ";".join(builder)
    return args + tail, env


def ropt_impl_runner(st, hbin):
    lines = []
    for case in st.cases:
        args, env = ropt_cmd(case)
        rc, out, err = E.run(hbin, args, env, timeout=30)
        if rc == 2 and "error:" in err:
            lines.append("rejected")        # clap refused a value
        elif rc != 0:
            lines.append(f"crash rc={rc} {err.strip().splitlines()[-1:]}")
        else:
            lines.append((out.splitlines() or [""])[0].strip())     # first line: runner_options; the rest belongs to rcfg
    return lines


# ---------------------------------------------------------------------------
# tree building with a controlled registration order (hook tree_dump) + options resolved along the built tree
# ---------------------------------------------------------------------------
import itertools

TB_NAMES = ["sort", "io", "a", "b", "r#type", "util", "x"]


def tb_fixed():
    """A function `sort` placed before / between / after the benchmarks a, b, c of a module `sort` whose group sets
    distinctive options: all 24 registration orders, and both group orders for a doubly registered group."""
    out = []
    items = [("m", "sort", "sc=1"), ("m::sort", "a", "-"), ("m::sort", "b", "ss=3"), ("m::sort", "c", "-")]
    for n, perm in enumerate(itertools.permutations(range(4))):
        ents = [f"b/{items[i][0]}/{items[i][1]}/L{i}/{items[i][2]}" for i in perm]
        ents.append("g/m/sort/G0/sc=5,ss=2,th=1.2.,ig=1")
        if n % 3 == 0:
            ents.append("g/m::sort/sort/G1/sc=9")           # a group below the module that names nothing
        if n % 4 == 1:
            ents.insert(len(ents) - 1, "g/m/r#sort/G2/mx=7")  # registered twice (once spelt r#sort): the later one holds the slot
        out.append(f"p{n} #E " + " ".join(ents) + (" #R ss=7" if n % 2 else ""))
    return out


def gen_tb(rng, k):
    nb = rng.randrange(1, 9)
    ents, mods = [], set()
    for i in range(nb):
        depth = rng.choice([1, 1, 2, 2, 3])
        path = ["m"] + [rng.choice(TB_NAMES) for _ in range(depth - 1)]
        for d in range(1, len(path) + 1):
            mods.add(tuple(path[:d]))
        opts = rand_level(rng, 0.2) or "-"
        ents.append(f"b/{'::'.join(path)}/{rng.choice(TB_NAMES)}/L{i}/{opts if rng.random() < 0.6 else '-'}")
    mods = sorted(mods)
    ng = rng.randrange(0, 6)
    for g in range(ng):
        r = rng.random()
        if r < 0.7 and mods:
            m = list(rng.choice(mods))
            parent, raw = m[:-1], m[-1]
            if not parent:
                parent, raw = ["m"], rng.choice(TB_NAMES)
            if rng.random() < 0.25:     # the group spells the raw identifier differently from module_path!()
                raw = raw[2:] if raw.startswith("r#") else "r#" + raw
        else:   # a group whose module chain may not exist (or exists only partly)
            parent = ["m"] + [rng.choice(TB_NAMES + ["platform", "linux"]) for _ in range(rng.choice([0, 1, 2]))]
            raw = rng.choice(TB_NAMES)
        ents.append(f"g/{'::'.join(parent)}/{raw}/G{g}/{rand_level(rng, 0.35) or 'sc=4'}")
    line = f"t{k} #E " + " ".join(ents)
    if rng.random() < 0.4:
        line += " #R " + (rand_level(rng, 0.2) or "ss=7")
    return line


def streams(tier, rng):
    n = 2500 if tier == "quick" else 60000
    ov, ov_hist = corpus_lines("C15-ovw"), {}
    for k in range(n):
        c, ng = gen_ovw(rng, k)
        ov.append(c)
        bump(ov_hist, f"groups:{ng}")
        if " #C " in c:
            bump(ov_hist, "bencher-counter-call")
    it = corpus_lines("C15-into") + sorted({gen_into(rng, k) for k in range(n // 5)})
    ne = 60 if tier == "quick" else 1500
    ctx = OptContext()
    # the parallelism used for generating thread lists only makes "0 and P both present" likely; the model gets the probed value
    par_guess = len(os.sched_getaffinity(0)) if hasattr(os, "sched_getaffinity") else 1
    op, op_hist = corpus_lines("C15-opt"), {}
    ctx.hist = op_hist
    for k in range(ne):
        c, nset = gen_opt(rng, k, par_guess)
        op.append(c)
        bump(op_hist, f"runner-fields-set:{nset}")
        bump(op_hist, "mode:" + c.split(" #I ")[1].split()[0])
        if " #A " in c:
            bump(op_hist, "confined-to-2-or-3-cpus")
        for w, nm in (("F", "flag"), ("E", "env"), ("P", "builder-before"), ("Q", "builder-after")):
            if spec_of(c, w):
                bump(op_hist, "source:" + nm)

    tm = corpus_lines("C15-tim") + TIM_FIXED + LIM_FIXED + [gen_tim(rng, k) for k in range(4 if tier == "quick" else 120)]

    ps = corpus_lines("C15-psec") + PSEC_FIXED + [gen_psec(rng, k) for k in range(1500 if tier == "quick" else 60000)]
    ro = corpus_lines("C15-ropt") + ROPT_FIXED + [gen_ropt(rng, k) for k in range(150 if tier == "quick" else 4000)]

    tb = corpus_lines("C15-tb") + tb_fixed() + [gen_tb(rng, k) for k in range(1500 if tier == "quick" else 40000)]

    def nt_into(c, m):
        xs = c.split()[1:]
        return c.startswith("v") and (len(set(xs)) < len(xs) or xs != sorted(xs, key=int))

    return [
        Stream("overwrite-chains", "ovw", ov, nontrivial=ovw_conflict, hist=ov_hist),
        Stream("into-threads", "into", it, nontrivial=nt_into),
        Stream("tree-build-options", "tb", tb, nontrivial=lambda c, m: "/G/" in m,
               describe="hand-built BenchEntry/GroupEntry values handed to the crate's tree construction (hook tree_dump) in a controlled "
                        "registration order (functions named like sibling modules, before/between/after the module's benchmarks; groups "
                        "registered twice, orphan groups); the built tree and the options every benchmark resolves to along it"),
        Stream("parse-seconds", "psec", ps, nontrivial=lambda c, m: m.startswith("ok ") and not m.endswith(" 0"),
               describe="ParsedSeconds::from_str (hook parse_seconds) on decimals with up to 9 fractional digits and on malformed text"),
        Stream("runner-options-fresh-process", "ropt", ro, nontrivial=lambda c, m: any(spec_of(c, w) for w in "FEPQ"),
               impl_runner=ropt_impl_runner,
               describe="one fresh hx-select-e2e process per case: builder calls before parsing, flags, DIVAN_* variables, builder calls "
                        "after parsing -> hook runner_options (all fields) and options_time_limits, compared with runner_level"),
        E.rcfg_stream(Stream, run_lines, tier, rng, corpus_lines("C15-rcfg")),
        Stream("e2e-runner-level", "opt", op, nontrivial=lambda c, m: any(spec_of(c, w) for w in "FEPQ"),
               impl_runner=opt_impl_runner(ctx), model_input=opt_model_input, compare=wildcard_eq, hist=op_hist,
               describe="hx-select-e2e --bench '^hx_select_e2e::opt' with the runner level set by flags / DIVAN_* / builder calls; "
                        "per benchmark: (ignored) mark, t=N branches, samples and iters columns, throughput lines, RAN call count"),
        Stream("e2e-skip-ext-time-bytes-format", "tim", tm, nontrivial=lambda c, m: any(spec_of(c, w) for w in "FEPQ"),
               impl_runner=tim_impl_runner, model_input=tim_model_input, compare=lambda i, m: i.split(" #B ")[0] == m,
               describe="hx-select-e2e --bench '^hx_select_e2e::tim' (50 ms sleeping input generator, 100 ms budget, 6 samples "
                        "requested: 6 samples iff skip_ext_time is in force) with skip_ext_time / bytes_format set by flag (bare and "
                        "=value), DIVAN_* variable, builder before/after parsing; bytes row unit KiB/MiB vs KB/MB"),
    ]


MANIFEST = {
    "text": "Coq theorems, for every nesting depth and every field (sample_count, sample_size, threads, min_time, max_time, "
            "skip_ext_time, ignore, each of the four counter kinds): the effective value is the first set value in [runner; benchmark; "
            "innermost group; ...; outermost group], else the default (C15_resolution), overwrite is field-wise Option::or, the effective "
            "value of a field depends on that field's values only and changing another field at any level never changes it; the Bencher "
            "starts with the resolved count per kind and Bencher::counter replaces its own kind only; the thread counts run are strictly "
            "increasing, non-empty, never 0 and exactly the requested ones with 0 mapped to the available parallelism; a benchmark is "
            "skipped iff its effective ignore is true (no flag), never (--include-ignored), iff it is false (--ignored); the runner level "
            "is 'builder call after parsing, flag, DIVAN_* variable, builder call before parsing' per field. Tied to the code by "
            "differential runs of BenchOptions::overwrite chains (+ a real Bencher for the counters), IntoThreads, and by running a real "
            "#[divan::bench] binary in bench mode with the runner level set through flags, environment and builder calls.",
    "note": "Trusted: Coq kernel, extraction, OCaml driver, hooks (options_overwrite, options_counter, run_bencher), harness hx-select "
            "(its ovw mode re-implements the two small matches of run_tree/run_bench_entry around the real overwrite; the real descent is "
            "covered end to end), the hand-mirrored option table of the e2e binary, C03's samples formula for turning effective options "
            "into visible numbers, clap's flag-over-environment precedence (modelled as assumed, exercised end to end). min_time is "
            "checked at function level only; skip_ext_time is made visible end to end by coarse timing (50 ms generator vs 100 ms budget).",
    "technique": "machine-checked proof in Coq (induction over the option stack with a field-wise homomorphism lemma, insertion-sort/dedup "
                 "lemmas) + differential correspondence + end-to-end runs of a real benchmark binary",
}
