"""Shared case generators of group `sample` (C01, C02)."""

ENTRIES = [0, 1, 2, 3, 4, 5]            # bench, bench_local, values, local_values, refs, local_refs
ENTRY_NAMES = ["bench", "bench_local", "bench_values", "bench_local_values", "bench_refs", "bench_local_refs"]
SHAPES = [f"{a}{b}{c}{d}" for a in "01" for b in "01" for c in "01" for d in "01"]   # i_zst i_drop o_zst o_drop
SIZES = [0, 1, 2, 3, 5, 17]
COUNTS = [0, 1, 3, 7]
THREADS = [1, 2, 3, 5]
DRV = "sample"
CRATE = "hx-sample"


def case(e, sh, cs="0000", u=1, ss=1, sc=1, th=1, test=0, p="-", G="-", K="-", F="-", O="-", I="-"):
    return f"e={e} sh={sh} cs={cs} u={u} ss={ss} sc={sc} th={th} test={test} p={p} G={G} K={K} F={F} O={O} I={I}"


def tuned_case(e, sh, cs, u, sc, th, cost, prec=1000, FL="-", G="-", K="-", F="-", O="-", I="-"):
    """No sample_size: the loop tunes it (1, 2, 4, ...) until a sample outlasts 100 x prec picoseconds; a call
    costs `cost` virtual ticks of 1000 ps (cost >= 1 or tuning never ends)."""
    assert cost >= 1
    return (f"e={e} sh={sh} cs={cs} u={u} ss=- sc={sc} th={th} test=0 p=- cost={cost} prec={prec} FL={FL} "
            f"G={G} K={K} F={F} O={O} I={I}")


def elapsed_after(cost, k):
    """Virtual ticks elapsed (as the loop computes it on the caller's clock) after k tuning rounds of sizes
    1, 2, 4, ...: every round reads the clock twice (1 tick each) and makes n calls of `cost` ticks."""
    return sum(2 + (1 << i) * cost for i in range(k))


def tuned_max_case(rng, scripts=True):
    """Tuned sample size with a max_time that is used up in round k: k < R (tuning would need R rounds) ends the
    run while still tuning, so the reported samples are those of a tuning round; k >= R ends it at or after the
    round that finishes tuning."""
    e = rng.choice([0, 1, 2, 3, 4, 5, 2, 4])
    while True:
        cost, prec = rng.choice([3, 5, 7, 10, 13, 20, 30]), rng.choice([500, 1000, 2000, 4000])
        R = tuned_rounds(cost, prec)
        if 3 <= R <= 7:
            break
    k = rng.choice([1, 1, 2, 2, 3, R - 1, R - 1, R, R + 1])
    k = max(1, k)
    hi = elapsed_after(cost, k)
    lo = elapsed_after(cost, k - 1) + 1
    mx = rng.choice([hi, lo, (lo + hi) // 2])
    cs = rand_cs(rng, e)
    kw = {}
    if scripts:
        kw = dict(G=rand_script(rng), K=rand_script(rng), F=rand_script(rng, 5), O=rand_script(rng), I=rand_script(rng))
        if kw["F"] == "-":
            kw["F"] = rng.choice(["a16", "z32", "a8,d", "a24,g100"])
    c = tuned_case(e, rng.choice(SHAPES), cs, rng.randrange(2), rng.choice([1, 2, 3, 5]), rng.choice([1, 2, 3]),
                   cost, prec, **kw)
    return c.replace(" FL=", f" max={mx} FL=")


def tuned_rounds(cost, prec):
    """Number of tuning rounds (sizes 1, 2, 4, ...) until (1 + n*cost) * 1000 / prec > 100."""
    n, r = 1, 1
    while (1 + n * cost) * 1000 // prec <= 100:
        n, r = n * 2, r + 1
    return r


def rand_tuned(rng, scripts=False):
    e = rng.choice([2, 3, 4, 5, 2, 4, 0, 1])
    if e >= 2:
        k = rng.choice([1, 1, 2, 2, 3, 4, 0])
        idx = rng.sample(range(4), k)
        cs = "".join("1" if i in idx else "0" for i in range(4))
    else:
        cs = "0000"
    while True:
        cost, prec = rng.choice([7, 10, 13, 20, 26, 30, 45, 60, 101]), rng.choice([500, 1000, 1000, 2000])
        if 2 <= tuned_rounds(cost, prec) <= 5:
            break
    kw = {}
    if scripts:
        kw = dict(G=rand_script(rng), K=rand_script(rng), F=rand_script(rng, 5), O=rand_script(rng), I=rand_script(rng))
        if kw["F"] == "-":
            kw["F"] = "a16"
        # early calls allocate, later ones do not (limit inside or right after the tuning rounds)
        kw["FL"] = rng.choice(["-", 1, 2, 3, 3, 5, 7, 7, 12, 15, 40])
    return tuned_case(e, rng.choice(SHAPES), cs, rng.randrange(2), rng.choice([1, 2, 3, 5, 7]), rng.choice([1, 2, 3]),
                      cost, prec, **kw)


def field(c, k):
    for t in c.split(" "):
        if t.startswith(k + "="):
            return t[len(k) + 1:]
    return None


def rand_cs(rng, e):
    if e < 2:
        return "0000"
    r = rng.random()
    if r < 0.35:
        return "0000"
    if r < 0.5:
        return "1111"
    return "".join(rng.choice("01") for _ in range(4))


def eff_threads(e, th):
    return 1 if e in (1, 3, 5) else th


def rounds(e, ss, sc, th, test):
    if ss == 0 or sc == 0:
        return 0
    if test:
        return 1
    t = eff_threads(e, th)
    return (sc + t - 1) // t


def full_product():
    for e in ENTRIES:
        for sh in SHAPES:
            for ss in SIZES:
                for sc in COUNTS:
                    for th in THREADS:
                        for test in (0, 1):
                            yield e, sh, ss, sc, th, test


def rand_script(rng, maxlen=4):
    """A valid script of the token language aN / d / gN / sN (N >= 1)."""
    if rng.random() < 0.25:
        return "-"
    toks, stack = [], []
    for _ in range(rng.randrange(1, maxlen + 1)):
        k = rng.random()
        if not stack or k < 0.45:
            if len(stack) >= 6:
                continue
            n = rng.choice([1, 7, 8, 16, 24, 100, 1000, 4096])
            toks.append(f"{rng.choice('aaz')}{n}")      # z: zero-initialised (GlobalAlloc::alloc_zeroed)
            stack.append(n)
        elif k < 0.7:
            toks.append("d")
            stack.pop()
        elif k < 0.76:
            toks.append("r")                         # same-size realloc of the top buffer: a grow of 0 bytes
        elif k < 0.87:
            n = stack[-1] + rng.choice([1, 8, 64, 1000])
            toks.append(f"g{n}")
            stack[-1] = n
        else:
            if stack[-1] >= 2:
                n = rng.randrange(1, stack[-1])
                toks.append(f"s{n}")
                stack[-1] = n
    return ",".join(toks) if toks else "-"


def hist(cases):
    h = {"entry": {}, "shape_path": {}, "threads": {}, "size": {}, "count": {}, "mode": {}}
    for c in cases:
        e = int(field(c, "e"))
        h["entry"][ENTRY_NAMES[e]] = h["entry"].get(ENTRY_NAMES[e], 0) + 1
        sh = field(c, "sh")
        if e < 2:
            sh = "10" + sh[2:]
        iz, _, oz, od = (x == "1" for x in sh)
        path = "zst" if iz and (oz or not od) else ("slots" if od else "inputs")
        h["shape_path"][path] = h["shape_path"].get(path, 0) + 1
        for k, f in (("threads", "th"), ("size", "ss"), ("count", "sc")):
            if field(c, f) is None:
                continue
            v = field(c, f)
            h[k][v] = h[k].get(v, 0) + 1
        m = "test" if field(c, "test") == "1" else "bench"
        h["mode"][m] = h["mode"].get(m, 0) + 1
    return h


KINDS = "BCYI"


def rand_counter_seq(rng, e, allow_as):
    """A sequence of counter calls on the bencher: constants `cK` may come before `w` (with_inputs); after it any mix
    of `iK` (input_counter), `aK` (count_inputs_as, u64 inputs only) and `cK`. Biased towards several calls on
    few kinds so that replacements (constant after input counter of the same kind and vice versa) are frequent."""
    kinds = rng.sample(KINDS, rng.choice([1, 2, 2, 3, 4]))
    pre = ["c" + rng.choice(kinds) for _ in range(rng.choice([0, 0, 1, 2]))]
    if e < 2:
        return ",".join(pre + ["c" + rng.choice(kinds) for _ in range(rng.choice([0, 1, 2]))]) or "-"
    post = []
    for _ in range(rng.choice([1, 2, 3, 3, 4, 5, 6])):
        r = rng.random()
        post.append(("i" if r < 0.5 else "a" if (allow_as and r < 0.7) else "c" if r > 0.75 else "i") + rng.choice(kinds))
    return ",".join(pre + ["w"] + post)


def counter_seq_case(rng, tuned):
    e = rng.choice([2, 3, 4, 5, 2, 4, 2, 3, 4, 5, 0, 1])
    allow_as = e >= 2 and rng.random() < 0.35
    sh = rng.choice(SHAPES)
    if allow_as:
        sh = "00" + sh[2:]
    cq = rand_counter_seq(rng, e, allow_as)
    it = " it=u" if allow_as else ""
    u, sc, th = rng.randrange(2), rng.choice([1, 2, 3, 5]), rng.choice([1, 2, 3])
    if tuned:
        while True:
            cost, prec = rng.choice([10, 20, 30, 45, 60, 101]), rng.choice([500, 1000, 2000])
            if 2 <= tuned_rounds(cost, prec) <= 4:
                break
        return (f"e={e} sh={sh} cs=0000 cq={cq}{it} u={u} ss=- sc={sc} th={th} test=0 p=- cost={cost} prec={prec} FL=- "
                f"G=- K=- F=- O=- I=-")
    return (f"e={e} sh={sh} cs=0000 cq={cq}{it} u={u} ss={rng.choice([1, 2, 3, 5])} sc={sc} th={th} "
            f"test={int(rng.random() < 0.25)} p=- G=- K=- F=- O=- I=-")


def rand_kept_scripts(rng):
    """Generator script that allocates and keeps 1-2 buffers (`k`), call script that takes them (`t`) and only
    resizes and/or frees them: the timed section then contains no allocation at all."""
    g, f = [], []
    if rng.random() < 0.3:
        g += ["a8", "d"]
    for _ in range(rng.choice([1, 1, 2])):
        n = rng.choice([2, 16, 24, 100, 1000])
        g += [f"a{n}", "k"]
        kind = rng.choice(["grow", "grow", "shrink", "shrink", "free", "grow-shrink", "grow-free", "shrink-grow",
                           "same", "same", "same-free"])
        f.append("t")
        if kind == "grow":
            f.append(f"g{n + rng.choice([1, 8, 64, 1000])}")
        elif kind == "shrink":
            f.append(f"s{rng.randrange(1, n)}")
        elif kind == "free":
            f.append("d")
        elif kind == "same":
            f.append("r")
        elif kind == "same-free":
            f += ["r", "d"]
        elif kind == "grow-shrink":
            m = n + rng.choice([8, 64])
            f += [f"g{m}", f"s{rng.randrange(1, m)}"]
        elif kind == "grow-free":
            f += [f"g{n + 32}", "d"]
        else:
            m = rng.randrange(1, n)
            f += [f"s{m}", f"g{m + rng.choice([1, 50])}"]
    return ",".join(g), ",".join(f)


E2E_BENCHES = ["rust_abi", "extern_c", "extern_system", "generic_extern_c::u8", "generic_extern_c::String",
               "generic_rust::u8", "with_arg::1", "with_arg::2", "bencher_plain", "bencher_extern_c",
               "bencher_arg::1", "bencher_arg::2", "key_arg::Key(1)", "key_arg::Key(2)", "key_ref_arg::Key(1)"]


def e2e_cases(rng, tier):
    """One process of the real-macro binary hx-sample-e2e per case."""
    out = []
    for b in E2E_BENCHES:
        for th in (1, 2):
            for (ss, sc) in ((4, 3), (1, 1), (2, 5), (3, 2)) if tier != "quick" else ((4, 3), (2, 5)):
                out.append(f"bench={b} ss={ss} sc={sc} th={th} test=0")
        out.append(f"bench={b} ss=4 sc=3 th={rng.choice([1, 2, 3])} test=1")
    return out
