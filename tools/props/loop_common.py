"""Shared by c03.py / c04.py / c19.py (group `loop`, harness hx-loop).

Case lines are `key=value` tokens (see harness/hx-loop/src/main.rs).  The
harness runs the real `bench_loop_threaded` under the per-thread virtual clock
with scripted generator/call/drop costs and prints what happened plus the
recorded history of timestamps; the history is fed to the extracted model
(`model_input`).  `simulate` below is a throw-away Python rendering of the loop
used *only* to aim cases at boundaries and to keep them small; nothing is
decided by it.
"""
import os

from vp import Stream, ROOT

M64 = (1 << 64) - 1
PS = 10**12


def mix(z):
    z = (z + 0x9E3779B97F4A7C15) & M64
    z = ((z ^ (z >> 30)) * 0xBF58476D1CE4E5B9) & M64
    z = ((z ^ (z >> 27)) * 0x94D049BB133111EB) & M64
    return z ^ (z >> 31)


DEFAULTS = dict(mode="b", n="-", s="-", T=1, min="-", max="-", skip="-", f=PS, p=1, oh="0,0,0,0", ic=0,
                g=0, c=1, d=0, ja=0, js=0, grow=0, skew=0, off="0", x="", al=0, alm=0, ly="00000", dk="", budget=60000)
ORDER = ["mode", "n", "s", "T", "min", "max", "skip", "f", "p", "oh", "ic", "g", "c", "d", "ja", "js", "grow", "skew", "off", "x", "al", "alm", "ly", "dk", "budget"]


def line_of(case):
    d = dict(DEFAULTS)
    d.update(case)
    return " ".join(f"{k}={d[k]}" for k in ORDER)


def parse(line):
    d = dict(DEFAULTS)
    for tok in line.split(" "):
        k, _, v = tok.partition("=")
        d[k] = v
    for k in ("T", "f", "p", "g", "c", "d", "ja", "js", "grow", "skew", "al", "alm", "budget"):
        d[k] = int(d[k])
    return d


def dur_ns(s):
    """`secs:nanos` -> picoseconds (None when unset)."""
    if s == "-":
        return None
    a, b = s.split(":")
    return (int(a) * 10**9 + int(b)) * 1000


def ns(picos_div_1000):
    return f"{picos_div_1000 // 10**9}:{picos_div_1000 % 10**9}"


def call_cost(d, extra, r, t, i):
    c = d["c"] + d["grow"] * r + d["skew"] * t
    if d["ja"] > 0:
        c += mix(((d["js"] * 31) & M64) ^ ((r << 24) & M64) ^ ((t << 52) & M64) ^ i) % (d["ja"] + 1)
    if i == 0:
        for er, et, e in extra:
            if er == r and (et is None or et == t):
                c += e
    return c


def simulate(case, max_rounds=300, max_calls=40000):
    """Python rendering of the loop on the scripted clocks.  Returns
    dict(K, E=[elapsed after 0..K rounds], sizes, calls, slow=[...]) or None if too big."""
    d = parse(line_of(case)) if not isinstance(case, str) else parse(case)
    T, f = d["T"], d["f"]
    n = None if d["n"] == "-" else int(d["n"])
    s = None if d["s"] == "-" else int(d["s"])
    test = d["mode"] == "t"
    mn = dur_ns(d["min"]) or 0
    mx = dur_ns(d["max"])
    mx = (1 << 128) - 1 if mx is None else mx
    skip = d["skip"] == "1"
    extra = []
    for e in filter(None, d["x"].split(",")):
        a, b, c = e.split(":")
        extra.append((int(a), None if b == "*" else int(b), int(c)))
    off = [int(x) for x in d["off"].split(",")] if d["off"] else [0]
    clock = [(off[t] if t < len(off) else 0) for t in range(T)]
    res = dict(K=0, E=[0], sizes=[], calls=0, slow=[], passed=None)
    if mx == 0 or n == 0 or s == 0:
        return res
    mode, k = ("test", 1) if test else (("collect", s) if s is not None else ("tune", 1))
    rem = (n if n is not None else 100) if mode == "collect" else None
    prec = d["p"] if mode == "tune" else 0
    init = None if skip else clock[0]
    elapsed = 0
    r = 0
    while True:
        if elapsed >= mx:
            break
        if (rem if rem is not None else 1) > 0:
            pass
        elif not elapsed < mn:
            break
        if r >= max_rounds or res["calls"] + k * T > max_calls:
            return None
        durs, ends = [], []
        for t in range(T):
            clock[t] += k * d["g"]
            st = clock[t]
            for i in range(k):
                clock[t] += call_cost(d, extra, r, t, i)
            en = clock[t]
            clock[t] += k * d["d"]
            if clock[t] > M64:
                return None
            durs.append((en - st) * PS // f)
            ends.append(en)
        res["calls"] += k * T
        res["sizes"].append(k)
        slow = max(durs)
        res["slow"].append(slow)
        r += 1
        res["K"] = r
        if test:
            res["E"].append(elapsed)
            break
        if mode == "tune":
            if prec == 0:
                return None
            if slow // prec <= 100:
                if k * 2 >= 1 << 32:
                    return None
                k *= 2
            else:
                mode = "collect"
                rem = n if n is not None else 100
                res["passed"] = r - 1
        if rem is not None:
            rem = max(0, rem - T)
        if init is not None:
            le = max(ends)
            elapsed = (le - init) * PS // f if le >= init else 0
        else:
            elapsed = min((1 << 128) - 1, elapsed + max(slow, 1000))
        res["E"].append(elapsed)
    return res


def hist_part(impl_line):
    i = impl_line.find(" | ")
    return impl_line[i + 3:] if i >= 0 else ""


def model_input(case, impl_line):
    return case + " | " + hist_part(impl_line)


def compare(impl_line, model_line):
    i = impl_line.find(" | ")
    return (impl_line[:i] if i >= 0 else impl_line) == model_line


def field(line, key):
    for tok in line.split(" "):
        if tok.startswith(key + "="):
            return tok[len(key) + 1:]
    return None


def nontrivial(case, model_line):
    """Bench or test run that executed at least one round and agreed to an `ok` line."""
    if not model_line.startswith("ok "):
        return False
    k = field(model_line, "K")
    return k is not None and int(k) >= 1


# ---------------------------------------------------------------------------
# generators
# ---------------------------------------------------------------------------

def rand_costs(rng, thousand=False):
    """Per-iteration generator/call/drop costs in ticks."""
    if thousand:
        return dict(g=1000 * rng.randrange(0, 4), c=1000 * rng.randrange(1, 9), d=1000 * rng.randrange(0, 4))
    return dict(g=rng.choice([0, 1, 7, 50, rng.randrange(0, 600)]),
                c=rng.choice([1, 2, 9, 100, 999, 1000, 1001, rng.randrange(1, 3000)]),
                d=rng.choice([0, 1, 3, 40, rng.randrange(0, 600)]))


def rand_ic(rng):
    """Which counter kinds (bytes, chars, cycles, items) get an input-based counter."""
    k = rng.random()
    if k < 0.35:
        return "0000"
    if k < 0.5:
        return "0001"
    if k < 0.6:
        return rng.choice(["1000", "0100", "0010"])
    if k < 0.9:
        return rng.choice(["1001", "0101", "0011", "1100", "0110", "1010"])
    return rng.choice(["1111", "0111", "1011", "1101", "1110"])


def rand_offsets(rng, T):
    k = rng.random()
    if k < 0.4:
        return ",".join("0" for _ in range(T))
    if k < 0.5:
        v = rng.randrange(0, 10**7)
        return ",".join(str(v) for _ in range(T))
    return ",".join(str(rng.choice([0, rng.randrange(0, 5000), rng.randrange(0, 10**7)])) for _ in range(T))


def rand_case(rng, tuned=None, test=None, timed=True):
    """One random, mostly-valid configuration with a cost script.  `tuned`: force
    sample_size unset/set; `timed`: allow min/max/skip."""
    T = rng.choice([1, 1, 2, 2, 3, 4])
    c = dict(T=T)
    c["mode"] = "t" if (test if test is not None else rng.random() < 0.1) else "b"
    is_tuned = tuned if tuned is not None else rng.random() < 0.35
    c["s"] = "-" if is_tuned else rng.choice([0] + [1] * 3 + [2, 3, 4, 5, 8] * 2 + [rng.randrange(1, 20)])
    k = rng.random()
    if k < 0.12:
        c["n"] = "-"
    elif k < 0.17:
        c["n"] = 0
    elif k < 0.8:
        c["n"] = rng.randrange(1, 13)
    else:
        c["n"] = rng.randrange(13, 60)
    c["f"] = rng.choice([PS] * 6 + [10**9, 3 * 10**9, 24_000_000, 10**12 + 7])
    c.update(rand_costs(rng))
    c_ps = max(1, c["c"] * PS // c["f"])
    if is_tuned:
        # tuning must end within a few doublings: 2^j * c_ps > 100 p for some small j
        c["p"] = rng.choice([1, 1, 2, 10, rng.randrange(1, max(2, c_ps * 2)), max(1, c_ps // 100), max(1, c_ps // 7)])
    else:
        c["p"] = rng.choice([1, 50, 1000, rng.randrange(1, 5000)])
    k = rng.random()
    if k < 0.55:
        c["oh"] = "0,0,0,0"
    elif k < 0.85:
        c["oh"] = f"{rng.randrange(0, c_ps + 2)},0,0,0"
    else:
        c["oh"] = f"{rng.choice([c_ps, c_ps * 3, 1 << 100, (1 << 128) - 1])},{rng.randrange(0, 9)},{rng.randrange(0, 9)},{rng.randrange(0, 9)}"
    c["ic"] = rand_ic(rng)
    if rng.random() < 0.4:
        c["ja"] = rng.choice([1, 5, rng.randrange(1, 2 * c["c"] + 2)])
        c["js"] = rng.randrange(0, 1 << 30)
    if rng.random() < 0.25:
        c["grow"] = rng.choice([1, rng.randrange(1, 400)])
    if rng.random() < 0.4 and T > 1:
        c["skew"] = rng.choice([1, rng.randrange(1, 300)])
    c["off"] = rand_offsets(rng, T)
    if rng.random() < 0.3:
        # allocations inside the benchmarked call (AllocProfiler is the harness's global allocator)
        c["al"] = rng.choice([1, 1, 2, 5])
        c["alm"] = rng.choice([0, 2, 2, 3])
    if timed:
        k = rng.random()
        c["skip"] = "-" if k < 0.45 else ("0" if k < 0.55 else "1")
    c["ly"], c["dk"] = "00000", ""
    return c


def with_layers(rng, c):
    """Spread the option fields over the layers the runner merges (0 runner, 1 bench, 2 group,
    3 outer group) and add losing values of set fields on layers further out."""
    k = rng.random()
    if k < 0.25:
        return c
    ly = [rng.randrange(0, 4) for _ in range(5)]
    c["ly"] = "".join(str(x) for x in ly)
    dk = []
    other = {"n": lambda: rng.choice([0, 1, 2, 7, 50]), "s": lambda: rng.choice([0, 1, 2, 9]),
             "min": lambda: rng.choice(["0:0", "0:1", "0:40", "1:0"]), "max": lambda: rng.choice(["0:0", "0:1", "0:40", "1:0"]),
             "skip": lambda: rng.choice([0, 1])}
    for i, f in enumerate(("n", "s", "min", "max", "skip")):
        if str(c.get(f, "-")) != "-" and ly[i] < 3 and rng.random() < 0.35:
            dk.append(f"{f}/{rng.randrange(ly[i] + 1, 4)}/{other[f]()}")
    c["dk"] = ",".join(dk)
    return c


def fits(case, **kw):
    return simulate(case, **kw) is not None


def aim_budget(rng, case, which):
    """Put `which` (min|max) exactly at / one tick below / one tick above the
    elapsed time after some round: costs in whole nanoseconds, an extra of
    999 / 1000 / 1001 ticks on every thread in that round.  Returns up to three cases."""
    base = dict(case)
    base["f"] = PS
    base.update(rand_costs(rng, thousand=True))
    base.pop("ja", None)
    base["grow"] = 1000 * rng.randrange(0, 3) if rng.random() < 0.3 else 0
    base["skew"] = 1000 * rng.randrange(0, 3) if rng.random() < 0.3 else 0
    base["off"] = ",".join(str(1000 * rng.randrange(0, 50)) for _ in range(base["T"]))
    base["min"], base["max"] = "-", "-"
    if base.get("s", "-") == "-":
        base["p"] = rng.choice([10, 100, 250, 1000])
    sim = simulate(base, max_rounds=60, max_calls=8000)
    if sim is None or sim["K"] < 1:
        return []
    # a round index (1-based) somewhere in the run, or a little beyond when aiming min
    hi = sim["K"] + (3 if which == "min" else 0)
    k = rng.randrange(1, hi + 1)
    probe = dict(base)
    probe["x"] = f"{k - 1}:*:1000"
    if which == "min":
        probe["min"] = "100:0"   # run long enough to see round k
        probe["max"] = "-"
    sim = simulate(probe, max_rounds=80, max_calls=12000)
    if sim is None or sim["K"] < k:
        return []
    target = sim["E"][k]
    if target % 1000 != 0 or target == 0:
        return []
    out = []
    for e in (999, 1000, 1001):
        cse = dict(base)
        cse["x"] = f"{k - 1}:*:{e}"
        cse[which] = ns(target // 1000)
        other = "max" if which == "min" else "min"
        r = rng.random()
        if r < 0.3:
            # the other budget somewhere around as well (min > max included)
            cse[other] = ns(max(0, target // 1000 + rng.choice([-5, -1, 0, 1, 5, 50])))
        if fits(cse, max_rounds=120, max_calls=15000):
            out.append(cse)
    return out


def aim_threshold(rng):
    """Tuned runs whose round j has slowest/precision exactly 100 or 101."""
    T = rng.choice([1, 2, 3])
    j = rng.randrange(0, 6)
    p = rng.choice([1, 3, 7, 50, 1000, rng.randrange(1, 400)])
    want = rng.choice([101 * p - 1, 101 * p, 100 * p, 100 * p + p // 2, 102 * p - 1])
    size = 1 << j
    c = max(1, want // size - rng.randrange(0, 3))
    e = want - c * size
    if e < 0:
        return None
    case = dict(mode="b", n=rng.choice(["-", 1, 2, 5, rng.randrange(1, 12)]), s="-", T=T, f=PS, p=p,
                g=rng.randrange(0, 50), c=c, d=rng.randrange(0, 50), x=f"{j}:{rng.randrange(0, T)}:{e}",
                off=rand_offsets(rng, T), ic=rand_ic(rng),
                oh=rng.choice(["0,0,0,0", f"{rng.randrange(0, c + 1)},0,0,0"]))
    if rng.random() < 0.3:
        case["skip"] = "1"
    return case if fits(case, max_rounds=150, max_calls=30000) else None


def tuned_cut_cases(rng, count):
    """Tuned runs whose max_time sits at the elapsed time of some round (mostly a tuning round,
    -1/0/+1 ns), so that the loop is cut right after a round that decided to double."""
    cut = []
    while len(cut) < count:
        c = rand_case(rng, tuned=True, test=False, timed=True)
        if c["n"] == 0:
            continue
        sim = simulate(c)
        if sim is None or sim["K"] < 2:
            continue
        hi = sim["K"]
        if sim["passed"] is not None and rng.random() < 0.7:
            hi = max(1, sim["passed"])          # a round that fails the threshold (it doubles)
        k = rng.randrange(1, hi + 1)
        e = sim["E"][k]
        c["max"] = ns(max(0, e // 1000 + rng.choice([-1, 0, 0, 1])))
        if rng.random() < 0.3:
            c["min"] = ns(e // 1000 + rng.randrange(0, 50))
        if fits(c):
            cut.append(c)
    return cut


def make_stream(name, mode, cases, describe=None, hist=None, sb=True):
    import random
    import zlib
    lines = []
    for c in cases:
        if isinstance(c, str):
            lines.append(c)          # corpus lines are taken as they are
            continue
        c = dict(c)
        if c.get("ly", "00000") == "00000" and not c.get("dk"):
            # where each option field is set (runner / bench / group / outer group): drawn from the case itself
            with_layers(random.Random(zlib.crc32(line_of(c).encode())), c)
        lines.append(line_of(c))
    return Stream(name, mode, lines, compare=compare, nontrivial=nontrivial, model_input=model_input,
                  crate="hx-loop", drv="loop", impl_timeout=420, describe=describe, hist=hist, sb=sb)


def histogram(cases):
    h = {}

    def bump(k):
        h[k] = h.get(k, 0) + 1
    for c in cases:
        d = parse(line_of(c) if not isinstance(c, str) else c)
        bump("mode=" + d["mode"])
        bump("T=%d" % d["T"])
        bump("size=" + ("tuned" if d["s"] == "-" else ("0" if d["s"] == "0" else "explicit")))
        bump("count=" + ("default" if d["n"] == "-" else ("0" if d["n"] == "0" else "set")))
        bump("skip=" + d["skip"])
        bump("min=" + ("unset" if d["min"] == "-" else "set"))
        bump("max=" + ("unset" if d["max"] == "-" else "set"))
        nk = sum(1 for ch in str(d["ic"]) if ch == "1") if len(str(d["ic"])) == 4 else int(d["ic"])
        bump("input_counter_kinds=%d" % nk)
        bump("allocs=" + ("none" if d["al"] == 0 else ("all" if d["alm"] == 0 else "some threads/rounds")))
    return h


def corpus(pid):
    """corpus/<pid>-*.txt: one case line per line."""
    out = []
    cdir = os.path.join(ROOT, "corpus")
    if not os.path.isdir(cdir):
        return out
    for f in sorted(os.listdir(cdir)):
        if f.lower().startswith(pid.lower() + "-") and f.endswith(".txt"):
            for line in open(os.path.join(cdir, f), encoding="utf-8"):
                line = line.strip()
                if line and not line.startswith("#"):
                    out.append(line)
    return out


# ---------------------------------------------------------------------------
# shrinking a failing case (used by c03/c04/c19.shrink)
# ---------------------------------------------------------------------------

def shrink_item(item, rerun_case):
    """Greedy: drop script features and lower n / T / s while the specification
    still fails on the implementation's output."""
    mode = item["mode"]
    if mode == "c03e2e":
        return shrink_e2e(item, rerun_case)
    if mode in ("c04cli", "c04os", "c19cli", "c04ev", "c03fig", "c04cal", "c04dur", "c03thr"):
        return item          # already small; their tokens are not those of a loop case

    def fails(case_line):
        impl, model, sb = rerun_case(mode, case_line, crate="hx-loop", release=False, model_input=model_input, drv="loop")
        return (not sb.startswith("true")), impl, model, sb

    cur = parse(item["case"])
    cur_line = item["case"]
    best = None
    for _ in range(3):
        changed = False
        cands = []
        for k, v in (("ja", 0), ("grow", 0), ("skew", 0), ("ic", "0000"), ("dk", ""), ("ly", "00000"), ("al", 0), ("alm", 0), ("oh", "0,0,0,0"), ("g", 0), ("d", 0)):
            if str(cur[k]) != str(v):
                cands.append({k: v})
        if cur["off"].replace("0", "").replace(",", "") != "":
            cands.append({"off": ",".join("0" for _ in range(cur["T"]))})
        if cur["T"] > 1:
            cands.append({"T": cur["T"] - 1, "off": ",".join(cur["off"].split(",")[:cur["T"] - 1]) or "0"})
        if cur["n"] not in ("-", "0") and int(cur["n"]) > 1:
            cands.append({"n": int(cur["n"]) - 1})
            cands.append({"n": (int(cur["n"]) + 1) // 2})
        if cur["s"] not in ("-", "0") and int(cur["s"]) > 1:
            cands.append({"s": 1})
        for ch in cands:
            trial = dict(cur)
            trial.update(ch)
            line = line_of(trial)
            try:
                bad, impl, model, sb = fails(line)
            except Exception:
                continue
            if bad and not impl.startswith("crash"):
                cur, cur_line, best, changed = parse(line), line, (impl, model, sb), True
        if not changed:
            break
    if best is None:
        return item
    out = dict(item)
    out.update({"case": cur_line, "impl": best[0], "model": best[1], "spec_verdict": best[2], "shrunk_from": item["case"]})
    return out


# ---------------------------------------------------------------------------
# C03 end to end: the real runner (harness/hx-loop/src/e2e.rs) as a subprocess
# ---------------------------------------------------------------------------
import re
import subprocess

E2E_CRATE = "hx_loop_e2e"
# tag -> (path below the crate, n, s, threads) as set by the attributes
E2E_ATTR = {
    "a_5_3_t123": ("a_5_3_t123", 5, 3, [1, 2, 3]),
    "a_7_2_t24": ("a_7_2_t24", 7, 2, [2, 4]),
    "a_1_4_t13": ("a_1_4_t13", 1, 4, [1, 3]),
    "g_4_2_t12": ("grp::g_4_2_t12", 4, 2, [1, 2]),
    "g_3_2_t234": ("grp::g_3_2_t234", 3, 2, [2, 3, 4]),
    # attribute / group level min_time, max_time = 0 (last field: "mx=0" when the effective ceiling is 0)
    "a_5_3_t12_min0": ("a_5_3_t12_min0", 5, 3, [1, 2]),
    "a_5_3_t12_max0": ("a_5_3_t12_max0", 5, 3, [1, 2], "mx=0"),
    "g_4_2_t13_min0": ("gmin0::g_4_2_t13_min0", 4, 2, [1, 3]),
    "g_3_2_t12_max0": ("gmax0::g_3_2_t12_max0", 3, 2, [1, 2], "mx=0"),
    "g_3_2_t12_max100": ("gmax0::g_3_2_t12_max100", 3, 2, [1, 2]),
    # a zero ceiling written as 0.0 / Duration::ZERO, at the bench and inherited from the group
    "a_5_3_t12_max0f": ("a_5_3_t12_max0f", 5, 3, [1, 2], "mx=0"),
    "a_2_2_t13_max0d": ("a_2_2_t13_max0d", 2, 2, [1, 3], "mx=0"),
    "g_3_2_t12_max0f": ("gmax0f::g_3_2_t12_max0f", 3, 2, [1, 2], "mx=0"),
    # groups with a display name / on a raw-identifier module / nested: their options must reach the benchmarks
    "rg_3_2_t12": ("renamed::rg_3_2_t12", 3, 2, [1, 2]),
    "rgi_3_2_t23": ("renamed::inner::rgi_3_2_t23", 3, 2, [2, 3]),
    "raw_4_1_t3": ("type::raw_4_1_t3", 4, 1, [3]),
    "z_0_2_t12": ("zero::z_0_2_t12", 0, 2, [1, 2]),
}
E2E_PLAIN = {"plain": "plain", "plain_inputs": "plain_inputs"}


def e2e_case(bench, via, mode, n, s, threads, extra=""):
    line = f"bench={bench} via={via} mode={mode} n={n} s={s} threads={','.join(str(t) for t in sorted(set(threads)))}"
    return line + (" " + extra if extra else "")


def e2e_cases(rng, count):
    cases = []
    for tag, spec in E2E_ATTR.items():
        n, s, th = spec[1], spec[2], spec[3]
        extra = spec[4] if len(spec) > 4 else ""
        cases.append(e2e_case(tag, "attr", "b", n, s, th, extra))
        cases.append(e2e_case(tag, "attr", "t", n, s, th, extra))
        cases.append(e2e_case(tag, "attr+cli-n", "b", rng.choice([1, 2, 6, 9]), s, th, extra))
    # argument / generic cases; without a Bencher parameter the macro starts the sample loop itself (no RUN marker: one thread count)
    for tag, n, s, th, args, nomark in (("arg_5_3_t2", 5, 3, [2], ["1", "2"], True), ("arg_2_2_t3", 2, 2, [3], ["7"], True),
                                        ("barg_5_3_t12", 5, 3, [1, 2], ["1", "2"], False),
                                        ("garg_4_2_t3", 4, 2, [3], ["u8/1", "u8/2", "u16/1", "u16/2"], True),
                                        ("carg_3_2_t2", 3, 2, [2], ["4/1", "8/1"], True)):
        for a in args:
            extra = "arg=" + a + (" nomark=1" if nomark else "")
            cases.append(e2e_case(tag, "attr", "b", n, s, th, extra))
            cases.append(e2e_case(tag, "attr", "t", n, s, th, extra))
        cases.append(e2e_case(tag, "attr", "t", n, s, th, "arg=" + args[-1] + (" nomark=1" if nomark else "") + " start=api-test"))
        cases.append(e2e_case(tag, "attr", "b", n, s, th, "arg=" + args[0] + (" nomark=1" if nomark else "") + " start=args-test-then-api-bench"))
    # siblings of one module with different thread counts, run in one process in name order:
    # a benchmark's thread counts are its own, whatever ran before it
    sib = {"s1_t2": (3, 2, [2]), "s2_plain": (3, 2, [1]), "s3_t3": (3, 2, [3]), "s4_t12": (2, 1, [1, 2])}
    for tag, (n, s, th) in sib.items():
        others = ",".join(x for x in sib if x != tag)
        cases.append(e2e_case(tag, "attr", "b", n, s, th, "with=" + others))
        cases.append(e2e_case(tag, "attr", "t", n, s, th, "with=" + others))
    cases.append(e2e_case("s2_plain", "attr", "b", 3, 2, [1], "with=s1_t2"))
    cases.append(e2e_case("s3_t3", "attr", "b", 3, 2, [3], "with=s1_t2,s2_plain start=args-test-then-api-bench"))
    # parameterless functions with a foreign ABI (plain, generic over types, over constants)
    for tag, n, s, th, args in (("ext_c_2_2_t2", 2, 2, [2], [None]), ("ext_ty_3_1_t1", 3, 1, [1], ["u8", "u16"]),
                                ("ext_const_1_3_t2", 1, 3, [2], ["4", "8"])):
        for a in args:
            extra = ("arg=" + a + " " if a else "") + "nomark=1"
            cases.append(e2e_case(tag, "attr", "b", n, s, th, extra))
            cases.append(e2e_case(tag, "attr", "t", n, s, th, extra))
    # both flags (`cargo bench -- --test`), in either order: test mode
    for tag in ("a_5_3_t123", "g_4_2_t12", "s4_t12"):
        n, s, th = (E2E_ATTR[tag][1:4] if tag in E2E_ATTR else (2, 1, [1, 2]))
        cases.append(e2e_case(tag, "attr", "t", n, s, th, "start=both-bt"))
        cases.append(e2e_case(tag, "attr", "t", n, s, th, "start=both-tb"))
    cases.append(e2e_case("plain", "cli", "t", 5, 3, [1, 3], "start=both-bt"))
    cases.append(e2e_case("plain_inputs", "env", "t", 4, 2, [2], "start=both-tb"))
    # scalar `threads = 64`, in test mode: one call on each of 64 threads
    cases.append(e2e_case("thr64", "attr", "t", 65, 1, [64]))
    # how the run is started: the requested action (mode) decides, not the configured one
    for tag in ("a_5_3_t123", "g_4_2_t12", "rgi_3_2_t23", "a_1_4_t13"):
        n, s, th = E2E_ATTR[tag][1:4]
        cases.append(e2e_case(tag, "attr", "t", n, s, th, "start=api-test"))
        cases.append(e2e_case(tag, "attr", "b", n, s, th, "start=api-bench"))
        cases.append(e2e_case(tag, "attr", "b", n, s, th, "start=args-test-then-api-bench"))
        cases.append(e2e_case(tag, "attr", "t", n, s, th, "start=args-bench-then-api-test"))
    cases.append(e2e_case("plain", "builder", "t", 5, 3, [1, 2], "start=api-test"))
    cases.append(e2e_case("plain", "builder", "b", 5, 3, [1, 2], "start=api-bench"))
    cases.append(e2e_case("plain", "cli", "b", 4, 2, [1, 3], "start=args-test-then-api-bench"))
    cases.append(e2e_case("plain_inputs", "env", "t", 4, 2, [2], "start=args-bench-then-api-test"))
    # builder calls before config_with_args(), nothing on the command line / in the environment
    for n, s, th in ((7, 3, [1, 2]), (5, 2, [1, 2, 3]), (0, 3, [1, 2]), (1, 1, [4]), ("-", 2, [1, 3])):
        cases.append(e2e_case("plain", "builder", "b", n, s, th))
    cases.append(e2e_case("plain_inputs", "builder", "t", 4, 2, [2, 3]))
    # the builder sets both, the environment only one of them
    cases.append(e2e_case("plain", "builder+env-n", "b", 4, 3, [1, 2], "bn=9"))
    cases.append(e2e_case("plain", "builder+env-s", "b", 7, 2, [1, 3], "bs=5"))
    cases.append(e2e_case("plain_inputs", "builder+env-s", "b", 0, 2, [1, 2], "bs=4"))
    for th in ([1, 2, 3], [1], [3], [2, 4], [1, 4], [1, 2, 3, 4]):
        cases.append(e2e_case("plain", "cli", "b", 5, 3, th))
    cases.append(e2e_case("plain", "cli", "b", "-", 1, [1, 3]))      # default count 100
    cases.append(e2e_case("plain_inputs", "env", "b", "-", 2, [2, 3]))
    while len(cases) < count:
        k = rng.randrange(1, 5)
        th = sorted(rng.sample([1, 2, 3, 4], k))
        n = rng.choice([1, 1, 2, 3, 4, 5, 6, 7, 8, 11, 13])
        s = rng.choice([1, 1, 2, 3, 4, 5])
        via = rng.choice(["cli", "cli", "env", "builder", "builder", "builder+env-n", "builder+env-s"])
        extra = ""
        if via == "builder+env-n":
            extra = "bn=%d" % rng.choice([x for x in (1, 3, 6, 10) if x != n])
        elif via == "builder+env-s":
            extra = "bs=%d" % rng.choice([x for x in (1, 2, 4, 6) if x != s])
        if via == "builder" and rng.random() < 0.1:
            n = 0
        mode = "t" if rng.random() < 0.1 else "b"
        r = rng.random()
        if r < 0.3:
            if via == "builder":
                extra = "start=" + ("api-test" if mode == "t" else "api-bench")
            else:
                extra = (extra + " " if extra else "") + "start=" + ("args-bench-then-api-test" if mode == "t" else "args-test-then-api-bench")
        cases.append(e2e_case(rng.choice(list(E2E_PLAIN)), via, mode, n, s, th, extra))
    seen, out = set(), []
    for c in cases:
        if c not in seen:
            seen.add(c)
            out.append(c)
    return out


def e2e_stream(name, cases):
    """The harness's `c03e2e` mode runs the real benchmark binary hx-loop-e2e as a subprocess (60 s watchdog)."""
    def nt(case, model_line):
        return "starved" not in model_line and "panic" not in model_line and "," in case.split("threads=")[1]

    h = {}
    for c in cases:
        d = dict(tok.split("=", 1) for tok in c.split(" "))
        for k in ("via=" + d["via"], "mode=" + d["mode"], "start=" + d.get("start", "main"),
                  "thread_counts=%d" % len(d["threads"].split(","))):
            h[k] = h.get(k, 0) + 1
    return Stream(name, "c03e2e", cases, nontrivial=nt, crate="hx-loop", drv="loop", hist=h, impl_timeout=600,
                  describe="real Divan runner: samples/iters cells of every t=N row and per-thread call counts vs the model's C03 figures")


def shrink_e2e(item, rerun_case):
    """Fewer thread counts, smaller n and s, while the specification still fails."""
    def fails(line):
        impl, model, sb = rerun_case("c03e2e", line, crate="hx-loop", release=False, model_input=None, drv="loop")
        return (not sb.startswith("true")), impl, model, sb

    d = dict(tok.split("=", 1) for tok in item["case"].split(" "))
    if d["via"] not in ("cli", "env", "builder"):
        return item
    best = None
    for _ in range(4):
        changed = False
        th = d["threads"].split(",")
        cands = []
        if len(th) > 2:
            cands += [{"threads": ",".join(th[:i] + th[i + 1:])} for i in range(len(th))]
        if d["n"] != "-" and int(d["n"]) > 1:
            cands.append({"n": str(int(d["n"]) - 1)})
        if int(d["s"]) > 1:
            cands.append({"s": "1"})
        for ch in cands:
            t = dict(d)
            t.update(ch)
            line = " ".join(f"{k}={t[k]}" for k in ("bench", "via", "mode", "n", "s", "threads", "mx", "bn", "bs", "arg", "nomark", "with", "start") if k in t)
            try:
                bad, impl, model, sb = fails(line)
            except Exception:
                continue
            if bad and not impl.startswith(("crash", "watchdog")):
                d, best, changed = t, (line, impl, model, sb), True
                break
        if not changed:
            break
    if best is None:
        return item
    out = dict(item)
    out.update({"case": best[0], "impl": best[1], "model": best[2], "spec_verdict": best[3], "shrunk_from": item["case"]})
    return out


# ---------------------------------------------------------------------------
# C04 end to end: time limits parsed from the command line / environment
# ---------------------------------------------------------------------------

def decimal_secs(ns_total):
    """Nanoseconds -> decimal seconds with at most 9 fractional digits (exact)."""
    ip, frac = divmod(ns_total, 10**9)
    f = ("%09d" % frac).rstrip("0")
    return f"{ip}.{f}" if f else str(ip)


def cli_time_cases(rng, count):
    """`vclk` of hx-loop-e2e on the virtual clock (every call costs `vcost` ps): --max-time / --min-time /
    DIVAN_MAX_TIME / DIVAN_MIN_TIME with sub-millisecond parts, aimed at round boundaries."""
    cases = []
    fixed = [("maxs", "0.0004", "-", 100_000_000), ("maxs", "0.0014", "-", 100_000_000), ("mins", "0.0004", 1, 100_000_000),
             ("maxs", "0.000000001", "-", 1000), ("maxs", "0.0000254", "-", 1_000_000), ("mins", "0.00049", 2, 100_000_000),
             ("maxs", "1.0005", 7, 250_000_000_000), ("maxs", "0", 3, 1000), ("maxs", "2", 3, 1_000_000_000_000)]
    for tok, val, n, cost in fixed:
        for tvia in ("cli", "env"):
            cases.append(f"bench=vclk via=cli mode=b n={n} s=1 threads=1 {tok}={val} tvia={tvia} vcost={cost}")
    while len(cases) < count:
        cost_ns = rng.choice([25_000, 100_000, 330_000, 1_000_000, 7])      # per call, in ns
        k = rng.randrange(1, 25)
        lim = max(0, k * cost_ns + rng.choice([-1, 0, 0, 1, cost_ns // 2, -cost_ns // 3]))
        which = rng.choice(["maxs", "maxs", "mins", "both"])
        s = rng.choice([1, 1, 2])
        T = rng.choice([1, 1, 2])
        toks = [f"bench=vclk via=cli mode=b"]
        if which == "maxs":
            toks += [f"n={rng.choice(['-', 60, 100])}", f"s={s}", f"threads={T}", f"maxs={decimal_secs(lim)}"]
        elif which == "mins":
            toks += [f"n={rng.randrange(1, 4)}", f"s={s}", f"threads={T}", f"mins={decimal_secs(lim)}"]
        else:
            toks += [f"n={rng.randrange(1, 4)}", f"s={s}", f"threads={T}", f"mins={decimal_secs(lim + 40 * cost_ns)}",
                     f"maxs={decimal_secs(lim)}"]
        toks += [f"tvia={rng.choice(['cli', 'env'])}"]
        if rng.random() < 0.25:
            toks.append("skipx=1")
        toks.append(f"vcost={cost_ns * 1000}")
        c = " ".join(toks)
        if c not in cases:
            cases.append(c)
    return cases


def cli_time_stream(name, cases):
    def nt(case, model_line):
        return "calls=" in model_line and "calls=0" not in model_line
    return Stream(name, "c04cli", cases, nontrivial=nt, crate="hx-loop", drv="loop", impl_timeout=600,
                  describe="real runner, limits parsed by clap from decimal seconds (cli / env), benchmark on the virtual clock: "
                           "rounds vs the model with the exactly converted limits")


def os_timer_stream(name):
    """Two runs on the OS timer (about 1.2 s each): every call sleeps 400 ms, --max-time 1."""
    cases = ["bench=os_sleep400 via=attr mode=b n=6 s=1 threads=1 maxs=1 sleepms=400 timer=os",
             "bench=os_sleep400 via=cli mode=b n=12 s=1 threads=2 maxs=1.1 tvia=env sleepms=400 timer=os"]

    def cmp(impl, model):
        try:
            for ri, rm in zip(impl.split(";"), model.split(";")):
                di = dict(t.split("=", 1) for t in ri.split(" "))
                bound = int(rm.split("rounds<=")[1])
                calls = [int(x) for x in di["calls"].split(",")]
                if not (1 <= calls[0] <= bound) or len(set(calls)) != 1:
                    return False
            return len(impl.split(";")) == len(model.split(";"))
        except Exception:
            return False
    return Stream(name, "c04os", cases, compare=cmp, crate="hx-loop", drv="loop", impl_timeout=300,
                  describe="real runner on the OS timer (Instant): calls of >= 400 ms under --max-time 1 s: at most ceil(max/400 ms) rounds")


# ---------------------------------------------------------------------------
# C19 end to end: max_time delivered as the only runtime option must cover the tuning rounds
# ---------------------------------------------------------------------------

def c19_cli_cases(rng, count):
    """Tuned benches of hx-loop-e2e on the virtual clock; max_time (and sometimes min_time) as the ONLY runtime
    option, on the command line, in the environment, or by a builder call before config_with_args()."""
    benches = [("vtune_plain", "-"), ("vtune_attr", 3), ("vtune_grp", 4)]
    cases = []

    def case(bench, n, extra):
        return f"bench={bench} via=attr mode=b n={n} s=- threads=1 {extra} evlog=1"
    for bench, n in benches:
        for tvia in ("cli", "env", "builder"):
            # the ceiling is reached while the size is still being doubled (passing would need size 128)
            cases.append(case(bench, n, f"maxs=0.000002 tvia={tvia} vcost=100000 prec=100000"))
            # the size settles at 2; the ceiling cuts the collection
            cases.append(case(bench, n, f"maxs=0.0000007 tvia={tvia} vcost=100000 prec=1000"))
        cases.append(case(bench, n, "vcost=100000 prec=1000"))                       # no limit: n samples after tuning
        cases.append(case(bench, n, "mins=0.000003 tvia=cli vcost=100000 prec=1000"))  # a floor prolongs the run
        cases.append(case(bench, n, "mins=0.00001 maxs=0.0000031 tvia=builder vcost=100000 prec=10000"))
    # a sample count from the environment / the command line and no sample size anywhere: the size is still tuned
    for bench, _ in benches:
        for via, n in (("env", 5), ("cli", 5), ("env", 1), ("env", 64)):
            cases.append(f"bench={bench} via={via} mode=b n={n} s=- threads=1 vcost=100000 prec=10000 evlog=1")
        cases.append(f"bench={bench} via=env mode=b n=7 s=- threads=1 maxs=0.000004 tvia=env vcost=100000 prec=100000 evlog=1")
    while len(cases) < count:
        bench, n = rng.choice(benches)
        cost = rng.choice([100_000, 250_000, 40_000])
        prec = rng.choice([1000, 10_000, 100_000, 30_000])
        total_calls = rng.randrange(1, 120)
        lim_ps = total_calls * cost + rng.choice([-1000, 0, 1000])
        lim = decimal_secs(max(1, lim_ps // 1000))
        c = case(bench, n, f"maxs={lim} tvia={rng.choice(['cli', 'env', 'builder'])} vcost={cost} prec={prec}")
        if c not in cases:
            cases.append(c)
    return cases


def c19_cli_stream(name, cases):
    def nt(case, model_line):
        return "sizes=" in model_line and "," in model_line.split("sizes=")[1]
    return Stream(name, "c19cli", cases, compare=compare, nontrivial=nt, model_input=model_input, crate="hx-loop", drv="loop",
                  impl_timeout=600,
                  describe="real runner, tuned size, benchmark on the virtual clock, max_time as the only runtime option (cli / env / "
                           "builder before config_with_args) to benches with and without attribute or group options: round sizes and "
                           "rounds read from the event log vs the model driven by the same history")


# ---------------------------------------------------------------------------
# C04 end to end: skip_ext_time from attribute / group / builder, with external time
# ---------------------------------------------------------------------------

def skip_ext_cases(rng, count):
    """Benches of hx-loop-e2e whose input generator advances the virtual clock (external time) and which get
    skip_ext_time from their attribute, their group, or not at all; the builder sets skip_ext_time(false/true)
    or nothing, before or after the time limit; the effective value (builder over attribute) goes to the model."""
    benches = [("vskip_attr", 1), ("vskip_grp", 1), ("vext_plain", 0)]
    cases = []

    CSKIP = {"bare": 1, "true": 1, "false": 0, "env-true": 1, "env-false": 0}

    def case(bench, attr_skip, bskip, border, lim, which="maxs", n="-", cost=100_000, gen=300_000, tvia="builder", cskip=None):
        eff = attr_skip if bskip is None else bskip
        if cskip is not None:
            eff = CSKIP[cskip]       # command line / environment (read by config_with_args) win over builder and attribute
        # a sample count can only come from the runner here (the benches set none): by the builder
        via = "attr" if n == "-" else "builder"
        toks = [f"bench={bench} via={via} mode=b n={n} s=1 threads=1 {which}={lim} tvia={tvia}"]
        if bskip is not None:
            toks.append(f"bskip={bskip} border={border}")
        if cskip is not None:
            toks.append(f"cskip={cskip}")
        toks.append(f"eskip={eff} vcost={cost} vgen={gen} evlog=1")
        return " ".join(toks)
    for bench, a in benches:
        for bskip in (None, 0, 1):
            for border in (("mf",) if bskip is None else ("sf", "mf")):
                cases.append(case(bench, a, bskip, border, "0.000001"))
        cases.append(case(bench, a, 0, "sf", "0.000001", tvia="cli"))          # limit on the command line, skip by the builder
        cases.append(case(bench, a, 0, "mf", "0.0000012", which="mins", n=1))   # a floor instead of a ceiling
        # skip_ext_time on the command line: bare flag, =true, =false; in the environment
        for cskip in ("bare", "true", "false", "env-true", "env-false"):
            cases.append(case(bench, a, None, "mf", "0.000001", tvia=("env" if cskip.startswith("env") else "cli"), cskip=cskip))
        cases.append(case(bench, a, 1 - a, "sf", "0.000001", tvia="builder", cskip=("false" if a == 0 else "bare")))
    # sequences of builder calls: each call sets its own field, the last call per field counts
    seq = [("min_time=0.0000005;max_time=0.0000002;max_time=0.00001", "0.0000005", "0.00001"),
           ("max_time=0.000001;min_time=0.0000005", "0.0000005", "0.000001"),
           ("min_time=0.0000009;min_time=0.0000003", "0.0000003", "-"),
           ("min_time=0.0000005;max_time=0.0000002", "0.0000005", "0.0000002"),
           ("max_time=0.0000002;max_time=0.000002;min_time=0.0000007;max_time=0.0000009", "0.0000007", "0.0000009"),
           ("min_time=0.000001;max_time=0.0000001;max_time=0.000003;skip_ext_time=true", "0.000001", "0.000003")]
    for calls, mn, mx in seq:
        toks = [f"bench=vext_plain via=cli mode=b n=1 s=1 threads=1 mins={mn}"]
        if mx != "-":
            toks.append(f"maxs={mx}")
        eff = 1 if "skip_ext_time=true" in calls else 0
        toks.append(f"tvia=seq bseq={calls} eskip={eff} vcost=100000 vgen=50000 evlog=1")
        cases.append(" ".join(toks))
    # skip_ext_time as the ONLY option given at run time (builder / flag / environment); the ceiling is in the
    # benchmark's attribute or its group's
    for bench in ("vattr_max", "vgrp_max"):
        base = f"bench={bench} via=attr mode=b n=- s=1 threads=1 maxs=0.000001 tvia=attr"
        cases.append(base + " eskip=0 vcost=100000 vgen=300000 evlog=1")
        cases.append(base + " bskip=1 border=mf eskip=1 vcost=100000 vgen=300000 evlog=1")
        for cskip in ("bare", "true", "env-true", "false"):
            cases.append(base + f" cskip={cskip} eskip={CSKIP[cskip]} vcost=100000 vgen=300000 evlog=1")
    while len(cases) < count:
        bench, a = rng.choice(benches)
        bskip = rng.choice([None, 0, 0, 1])
        cost = rng.choice([100_000, 40_000, 999])
        gen = rng.choice([300_000, 1_000_000, 50_000])
        k = rng.randrange(1, 15)
        eff = a if bskip is None else bskip
        per = max(cost, 1000) if eff else cost + gen
        lim = decimal_secs(max(1, (k * per + rng.choice([-1000, 0, 1000])) // 1000))
        which = rng.choice(["maxs", "maxs", "mins"])
        cskip = rng.choice([None, None, "bare", "true", "false", "env-true", "env-false"])
        if cskip is not None:
            eff = CSKIP[cskip]
            per = max(cost, 1000) if eff else cost + gen
            lim = decimal_secs(max(1, (k * per + rng.choice([-1000, 0, 1000])) // 1000))
        c = case(bench, a, bskip, rng.choice(["sf", "mf"]), lim, which=which, n=("-" if which == "maxs" else rng.randrange(1, 3)),
                 cost=cost, gen=gen, tvia=rng.choice(["builder", "cli", "env"]), cskip=cskip)
        if c not in cases:
            cases.append(c)
    return cases


def skip_ext_stream(name, cases):
    def nt(case, model_line):
        return "sizes=" in model_line and "," in model_line.split("sizes=")[1]
    return Stream(name, "c04ev", cases, compare=compare, nontrivial=nt, model_input=model_input, crate="hx-loop", drv="loop",
                  impl_timeout=600,
                  describe="real runner on the virtual clock, generator time outside the timed sections, skip_ext_time from the attribute / "
                           "the group / Divan::skip_ext_time(false|true) before or after the limit: rounds read from the event log vs the "
                           "model driven by the same history with the resolved setting")


# ---------------------------------------------------------------------------
# C03: reported figures of collections too large to run (through stats_from_samples)
# ---------------------------------------------------------------------------

def fig_stream(name, rng, count):
    cases = []
    for sz in (1, 3, 65536, 2**31 - 1, 2**31, 2**31 + 1, 2**32 - 1):
        for m in (0, 1, 2, 3, 4):
            cases.append(f"s={sz} m={m}")
    for sz, m in ((65536, 65535), (65536, 65536), (65537, 65536), (4096, 1048576 // 4), (100000, 42950)):
        cases.append(f"s={sz} m={m}")          # products just below / at / above 2^32 with many samples
    while len(cases) < count:
        sz = rng.choice([rng.randrange(1, 2**32), 2**rng.randrange(0, 32), rng.randrange(1, 1000)])
        m = rng.choice([rng.randrange(0, 6), rng.randrange(0, 300)])
        c = f"s={sz} m={m}"
        if c not in cases:
            cases.append(c)

    def nt(case, model_line):
        d = dict(t.split("=") for t in case.split(" "))
        return int(d["s"]) * int(d["m"]) >= 2**32
    return Stream(name, "c03fig", cases, nontrivial=nt, crate="hx-loop", drv="loop",
                  describe="Stats.sample_count / iter_count of a context holding m samples of size s (stats_from_samples), "
                           "incl. s*m >= 2^32: iters = s*m as u64")


# ---------------------------------------------------------------------------
# C04 end to end: the time origin and the first-use calibration of the timer overheads
# ---------------------------------------------------------------------------

def calib_stream(name):
    """Fresh processes of hx-loop-e2e on the virtual clock with an auto-step per timestamp read and NO overhead
    override (`calib=1`): the first benchmark of the process runs the real `Timer::bench_overheads` calibration,
    whose 800 reads advance the clock.  The rounds must be the least k of the rule with the elapsed time measured
    from just before the first sample."""
    cases = []

    def case(extra, n="-", calib=True, astep=1_000_000, cost=100_000_000, bench="vext_plain", via="cli"):
        return (f"bench={bench} via={via} mode=b n={n} s=1 threads=1 {extra} vcost={cost} astep={astep}"
                + (" calib=1" if calib else "") + " evlog=1")
    for calib in (True, False):
        # the calibration takes 800 reads x 1 us = 0.8 ms; a round 101-102 us
        cases.append(case("mins=0.0005", n=1, calib=calib))     # floor below the calibration time
        cases.append(case("mins=0.0002", n=2, calib=calib))
        cases.append(case("mins=0.002", n=1, calib=calib))      # floor above it
        cases.append(case("maxs=0.0005", calib=calib))          # ceiling below the calibration time
        cases.append(case("maxs=0.003", calib=calib))
        cases.append(case("mins=0.0009 maxs=0.0006", n=1, calib=calib))
        cases.append(case("mins=0.00005", n=1, calib=calib, astep=100_000, cost=10_000_000))   # 80 us calibration
        cases.append(case("maxs=0.0005 skipx=1", calib=calib))  # skip_ext_time: no origin is read at all
    cases.append(case("mins=0.0005 tvia=env", n=1, bench="vskip_attr", via="cli") .replace("vcost", "cskip=false vcost"))

    def nt(case, model_line):
        return "calib=1" in case and "sizes=" in model_line
    return Stream(name, "c04cal", cases, compare=compare, nontrivial=nt, model_input=model_input, crate="hx-loop", drv="loop",
                  impl_timeout=600,
                  describe="fresh process, real overhead calibration under the auto-stepping virtual clock: rounds (from the event log) "
                           "vs the rule with the elapsed time measured from just before the first sample")


# ---------------------------------------------------------------------------
# C04: seconds given as plain numbers in attributes (IntoDuration), function level and end to end
# ---------------------------------------------------------------------------

def into_duration_stream(name, rng, count):
    U = [0, 1, 2, 59, 2**32, 2**53 - 1, 2**53, 2**53 + 1, 2**53 + 3, 2**63 - 1, 2**63, 2**63 + 1, 2**64 - 2049, 2**64 - 2048, 2**64 - 2047,
         2**64 - 1026, 2**64 - 1025, 2**64 - 1024, 2**64 - 1023, 2**64 - 513, 2**64 - 2, 2**64 - 1, 10**18 + 1, 123456789012345679]
    F = ["0", "0.000000001", "0.000000002", "0.0004", "0.000002", "0.1", "0.3", "0.7", "0.999999999", "1", "1.000000001", "1.5",
         "59.999999999", "123.456789012", "0.05", "86400", "999.999999999"]
    cases = [f"u={u}" for u in U] + [f"f={f}" for f in F]
    while len(cases) < count:
        if rng.random() < 0.5:
            u = rng.choice([rng.getrandbits(64), rng.getrandbits(rng.randrange(1, 65)), 2**rng.randrange(50, 64) + rng.randrange(-3, 4)])
            c = f"u={min(max(u, 0), 2**64 - 1)}"
        else:
            c = f"f={decimal_secs(rng.randrange(0, 1000 * 10**9))}"
        if c not in cases:
            cases.append(c)

    def nt(case, model_line):
        return case not in ("u=0", "f=0")
    return Stream(name, "c04dur", cases, nontrivial=nt, crate="hx-loop", drv="loop",
                  describe="divan::__private::IntoDuration for u64 (boundary values up to u64::MAX) and f64 (decimals with at most 9 "
                           "fractional digits below 1000 s) vs the exact number of nanoseconds")


def attr_limit_cases():
    """hx-loop-e2e benches whose attributes give the limits as plain numbers of seconds (through the real macro)."""
    UMAX = "18446744073709551615"
    cases = []
    for bench in ("vmax_u64max", "vmax_durmax"):
        for cost in (100_000, 5_000_000):
            cases.append(f"bench={bench} via=attr mode=b n=3 s=1 threads=1 maxs={UMAX} tvia=attr vcost={cost} evlog=1")
    for bench in ("vmin_u64max", "vmin_durmax"):
        for cost in (100_000, 250_000, 2_500_000):
            cases.append(f"bench={bench} via=attr mode=b n=2 s=1 threads=1 mins={UMAX} maxs=0.000002 tvia=attr vcost={cost} evlog=1")
    cases.append("bench=vmin_big via=attr mode=b n=2 s=1 threads=1 mins=18446744073709550591 maxs=0.000002 tvia=attr vcost=100000 evlog=1")
    cases.append("bench=vmax_2p53 via=attr mode=b n=3 s=1 threads=1 maxs=9007199254740993 tvia=attr vcost=100000 evlog=1")
    return cases


# ---------------------------------------------------------------------------
# C03: `threads = ..` values through IntoThreads (function level)
# ---------------------------------------------------------------------------

def into_threads_stream(name, rng):
    vals = list(range(0, 131))
    for k in range(3, 17):
        vals += [2**k - 1, 2**k, 2**k + 1]
    vals = sorted(set(vals))
    cases = [f"t={v}" for v in vals]
    cases += ["a=64", "a=64,63,65,64", "a=0,64,128,1", "a=2,2,2", "a=", "a=130,129,131", "r=0..0", "r=60..70", "r=63..65", "r=64..65",
              "r=0..130", "a=32,33,31,1024,1025,1023"]
    for _ in range(30):
        k = rng.randrange(1, 7)
        cases.append("a=" + ",".join(str(rng.choice(vals)) for _ in range(k)))
    cases = list(dict.fromkeys(cases))

    def nt(case, model_line):
        return case not in ("t=0", "a=", "r=0..0")
    return Stream(name, "c03thr", cases, nontrivial=nt, crate="hx-loop", drv="loop",
                  describe="divan::__private::IntoThreads: scalars 0..130 and powers of two +-1 up to 2^16 are themselves; "
                           "arrays and ranges are their sorted sets")
