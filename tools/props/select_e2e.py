"""Helpers of the group `select` for running the real benchmark binary
(harness/hx-select/src/e2e.rs) as a subprocess under a watchdog."""
import os
import re
import subprocess

RAN = re.compile(r"^RAN (.*)$", re.M)

# a space inside a name/pattern, in the space-separated line protocol
SP = "\u2423"


def enc(s):
    return s.replace(" ", SP)


def dec(s):
    return s.replace(SP, " ")


def e2e_bin(hbin):
    return os.path.join(os.path.dirname(hbin), "hx-select-e2e")


def confine(ncpus):
    """Command prefix that confines a fresh process to `ncpus` of the CPUs this process may use (None: no prefix)."""
    if not ncpus or not hasattr(os, "sched_getaffinity"):
        return []
    cpus = sorted(os.sched_getaffinity(0))
    if len(cpus) < ncpus or not os.path.exists("/usr/bin/taskset"):
        return None
    return ["/usr/bin/taskset", "-c", ",".join(str(c) for c in cpus[:ncpus])]


def harness_parallelism(hbin, ncpus=None):
    """std::thread::available_parallelism() as seen by a fresh harness process under the same confinement."""
    pre = confine(ncpus)
    if pre is None:
        return None
    p = subprocess.run(pre + [hbin, "par"], input="p\n", stdout=subprocess.PIPE, stderr=subprocess.PIPE, text=True, timeout=30)
    return int(p.stdout.strip())


def run(hbin, args, env=None, timeout=60, ncpus=None):
    """Runs the benchmark binary; returns (rc, stdout, stderr). rc 124 = watchdog."""
    e = {k: v for k, v in os.environ.items() if not k.startswith("DIVAN_") and k not in ("NEXTEST", "HX_BUILDER")}
    e["NO_COLOR"] = "1"
    if env:
        e.update(env)
    try:
        p = subprocess.run((confine(ncpus) or []) + [e2e_bin(hbin)] + args, env=e, stdout=subprocess.PIPE, stderr=subprocess.PIPE, text=True, timeout=timeout)
        return p.returncode, p.stdout, p.stderr
    except subprocess.TimeoutExpired as ex:
        return 124, (ex.stdout or b"").decode() if isinstance(ex.stdout, bytes) else (ex.stdout or ""), "WATCHDOG"


def ran_tags(stderr):
    return RAN.findall(stderr)


def terse_cases(stdout):
    return [l[: -len(": benchmark")] for l in stdout.splitlines() if l.endswith(": benchmark")]


def parse_tree(stdout):
    """Tree painter output -> list of (depth, name, rest-of-line) in order."""
    out = []
    for line in stdout.splitlines():
        if not line.strip():
            continue
        m = re.match(r"^((?:[│ ]  )*)(?:[├╰]─ )?", line)
        pre = m.end()
        depth = pre // 3
        body = line[pre:]
        # the name ends at the first run of 2+ spaces (columns follow) or at end of line
        name = re.split(r"\s{2,}", body)[0].rstrip()
        rest = body[len(name):].strip()
        out.append((depth, name, rest))
    return out


def tree_paths(nodes):
    """[(path, is_leaf, rest)] for parse_tree output."""
    res = []
    stack = []
    for i, (d, name, rest) in enumerate(nodes):
        stack = stack[:d]
        path = "::".join(stack + [name])
        is_leaf = i + 1 >= len(nodes) or nodes[i + 1][0] <= d
        res.append((path, is_leaf, rest))
        stack.append(name)
    return res


def build_u_tokens(list_leaves, all_cases):
    """The unfiltered tree in the driver's token format, from the entry-level
    leaves (`--list`) and the case paths (terse listing)."""
    toks = []
    open_path = []
    for leaf in list_leaves:
        comps = leaf.split("::")
        parents = comps[:-1]
        # common prefix with the currently open parents
        k = 0
        while k < len(open_path) and k < len(parents) and open_path[k] == parents[k]:
            k += 1
        for j in range(k, len(parents)):
            toks.append(f"{j}/P/{parents[j]}")
        open_path = parents
        args = [c[len(leaf) + 2:] for c in all_cases if c.startswith(leaf + "::")]
        if leaf in all_cases and not args:
            toks.append(f"{len(parents)}/L/{comps[-1]}")
        else:
            toks.append(f"{len(parents)}/L/{comps[-1]}/A" + "".join("/" + a for a in args))
    return toks
