"""Helpers of the group `select` for running the real benchmark binary
(harness/hx-select/src/e2e.rs) as a subprocess under a watchdog."""
import os
import re
import subprocess

RAN = re.compile(r"^RAN (.*)$", re.M)

# a space inside a name/pattern, in the space-separated line protocol
SP = "\u2423"


def enc(s):
    return s.replace(" ", SP)


def dec(s):
    return s.replace(SP, " ")


def e2e_bin(hbin):
    return os.path.join(os.path.dirname(hbin), "hx-select-e2e")


def confine(ncpus):
    """Command prefix that confines a fresh process to `ncpus` of the CPUs this process may use (None: no prefix)."""
    if not ncpus or not hasattr(os, "sched_getaffinity"):
        return []
    cpus = sorted(os.sched_getaffinity(0))
    if len(cpus) < ncpus or not os.path.exists("/usr/bin/taskset"):
        return None
    return ["/usr/bin/taskset", "-c", ",".join(str(c) for c in cpus[:ncpus])]


def harness_parallelism(hbin, ncpus=None):
    """std::thread::available_parallelism() as seen by a fresh harness process under the same confinement."""
    pre = confine(ncpus)
    if pre is None:
        return None
    p = subprocess.run(pre + [hbin, "par"], input="p\n", stdout=subprocess.PIPE, stderr=subprocess.PIPE, text=True, timeout=30)
    return int(p.stdout.strip())


def run(hbin, args, env=None, timeout=60, ncpus=None):
    """Runs the benchmark binary; returns (rc, stdout, stderr). rc 124 = watchdog."""
    e = {k: v for k, v in os.environ.items() if not k.startswith("DIVAN_") and k not in ("NEXTEST", "HX_BUILDER")}
    e["NO_COLOR"] = "1"
    if env:
        e.update(env)
    try:
        p = subprocess.run((confine(ncpus) or []) + [e2e_bin(hbin)] + args, env=e, stdout=subprocess.PIPE, stderr=subprocess.PIPE, text=True, timeout=timeout)
        return p.returncode, p.stdout, p.stderr
    except subprocess.TimeoutExpired as ex:
        return 124, (ex.stdout or b"").decode() if isinstance(ex.stdout, bytes) else (ex.stdout or ""), "WATCHDOG"


def ran_tags(stderr):
    return RAN.findall(stderr)


def terse_cases(stdout):
    return [l[: -len(": benchmark")] for l in stdout.splitlines() if l.endswith(": benchmark")]


def parse_tree(stdout):
    """Tree painter output -> list of (depth, name, rest-of-line) in order."""
    out = []
    for line in stdout.splitlines():
        if not line.strip():
            continue
        m = re.match(r"^((?:[│ ]  )*)(?:[├╰]─ )?", line)
        pre = m.end()
        depth = pre // 3
        body = line[pre:]
        # the name ends at the first run of 2+ spaces (columns follow) or at end of line
        name = re.split(r"\s{2,}", body)[0].rstrip()
        rest = body[len(name):].strip()
        out.append((depth, name, rest))
    return out


def tree_paths(nodes):
    """[(path, is_leaf, rest)] for parse_tree output."""
    res = []
    stack = []
    for i, (d, name, rest) in enumerate(nodes):
        stack = stack[:d]
        path = "::".join(stack + [name])
        is_leaf = i + 1 >= len(nodes) or nodes[i + 1][0] <= d
        res.append((path, is_leaf, rest))
        stack.append(name)
    return res


def build_u_tokens(list_leaves, all_cases):
    """The unfiltered tree in the driver's token format, from the entry-level
    leaves (`--list`) and the case paths (terse listing)."""
    toks = []
    open_path = []
    # every case belongs to the longest entry it lies under (a function `sort` next to a module `sort` with benchmarks)
    owner = {}
    for i, c in enumerate(all_cases):
        best = None
        for leaf in set(list_leaves):
            if (c == leaf or c.startswith(leaf + "::")) and (best is None or len(leaf) > len(best)):
                best = leaf
        owner[i] = best
    for leaf in list_leaves:
        comps = leaf.split("::")
        parents = comps[:-1]
        # common prefix with the currently open parents
        k = 0
        while k < len(open_path) and k < len(parents) and open_path[k] == parents[k]:
            k += 1
        for j in range(k, len(parents)):
            toks.append(f"{j}/P/{parents[j]}")
        open_path = parents
        args = [c[len(leaf) + 2:] for i, c in enumerate(all_cases) if owner[i] == leaf and c != leaf]
        if leaf in all_cases and not args:
            toks.append(f"{len(parents)}/L/{comps[-1]}")
        else:
            toks.append(f"{len(parents)}/L/{comps[-1]}/A" + "".join("/" + a for a in args))
    return toks


# ---------------------------------------------------------------------------
# runner-config-fresh-process: scalar settings (hook runner_config) and filter set (hook runner_filter_is_match)
# of a fresh process; shared by C15 (field resolution) and C13 (filter-set glue)
# ---------------------------------------------------------------------------
RC_PATHS = ["hx_select_e2e::sel::top", "hx_select_e2e::sel::alpha::a", "hx_select_e2e::sel::alpha::beta::b::5", "a::b", "a::b::c", "String",
            "hx_select_e2e::sel::gen_ty::String", "m::tuple::(1, 2)", "Pair<u8, u8>", "", "top", "hx_select_e2e::sel::Grp::sub::top", "x"]
RC_TEXT = ["top", "a::b", "alpha", "String", "string", "hx_select_e2e::sel::top", "a", "", "::", "x", "a::b::c", "(1, 2)", "Grp", "5"]
RC_REGEX = ["top$", "^a", "a::b$", "alpha|Grp", "^$", ".", "::[0-9]+$", "(?i)STRING", "[A-Z]", "^hx_select_e2e::sel::[a-z]+$", "u8, u8", "b::c"]
SORTS = ["kind", "name", "location"]


def gen_rcfg(rng, k):
    a = []
    r = rng.random()
    if r < 0.25:
        a.append("bench")
    if rng.random() < 0.2:
        a.append("test")
    if rng.random() < 0.25:
        a.append("list")
    if rng.random() < 0.2:
        a.append("nextest")
    if rng.random() < 0.15:
        a.append("format=" + rng.choice(["terse", "terse", "terse", "pretty"]))
        if rng.random() < 0.7 and "nextest" not in a:
            a.append("nextest")
        if rng.random() < 0.7 and "list" not in a:
            a.append("list")
    for flag, env in (("sort", "esort"), ("sortr", "esortr")):
        if rng.random() < 0.3:
            a.append(f"{flag}={rng.choice(SORTS)}")
        if rng.random() < 0.15:
            a.append(f"{env}={rng.choice(SORTS)}")
    if any(t.startswith("sort=") for t in a) and any(t.startswith("sortr=") for t in a):
        a.append("order=" + rng.choice(["sr", "rs"]))
    if rng.random() < 0.3:
        a.append("timer=" + rng.choice(["os", "tsc"]))
    if rng.random() < 0.25:
        a.append("etimer=" + rng.choice(["os", "tsc"]))
    if rng.random() < 0.3:
        a.append("color=" + rng.choice(["auto", "always", "never"]))
    if rng.random() < 0.3:
        a.append("bytes=" + rng.choice(["decimal", "binary"]))
    if rng.random() < 0.25:
        a.append("ebytes=" + rng.choice(["decimal", "binary"]))
    r = rng.random()
    if r < 0.2:
        a.append("ignored")
    elif r < 0.4:
        a.append("include-ignored")
    elif r < 0.45:
        a += ["ignored", "include-ignored"]

    def calls():
        out = []
        for _ in range(rng.choice([0, 0, 1, 1, 2, 3])):
            out.append(rng.choice(["color=auto", "color=always", "color=never", "bytes=binary", "bytes=decimal", "run_ignored",
                                   "run_only_ignored"]))
        return out

    exact = rng.random() < 0.4
    ops, origins = [], []

    def text(is_exact):
        return enc(rng.choice(RC_TEXT + RC_PATHS[:6]) if is_exact or rng.random() < 0.5 else rng.choice(RC_REGEX))

    def builder_skip():
        ex = rng.random() < 0.5
        return "-" + ("e:" if ex else "r:") + text(ex)

    for _ in range(rng.choice([0, 0, 1, 2])):
        ops.append(builder_skip()); origins.append("p")
    for _ in range(rng.choice([0, 0, 1, 1, 2, 3])):
        ops.append("+" + ("e:" if exact else "r:") + text(exact)); origins.append("c")
    for _ in range(rng.choice([0, 0, 1, 1, 2])):
        ops.append("-" + ("e:" if exact else "r:") + text(exact)); origins.append("c")
    for _ in range(rng.choice([0, 0, 0, 1])):
        ops.append(builder_skip()); origins.append("q")
    return (f"c{k} #A " + " ".join(a) + " #P " + " ".join(calls()) + " #Q " + " ".join(calls())
            + " #F " + " ".join(ops) + " #O " + ("".join(origins) or "-"))


RC_FIXED = [
    "k0 #A #P #Q #F #O -",
    "k1 #A bench #P #Q #F #O -",
    "k2 #A bench test #P #Q #F #O -",
    "k3 #A list bench #P #Q #F #O -",
    "k4 #A list test #P #Q #F #O -",
    "k5 #A list format=terse nextest #P #Q #F #O -",
    "k6 #A list format=terse #P #Q #F #O -",
    "k7 #A format=terse nextest #P #Q #F #O -",
    "k8 #A format=terse nextest test #P #Q #F #O -",
    "k9 #A list format=pretty nextest #P #Q #F #O -",
    "k10 #A sort=name sortr=kind order=sr #P #Q #F #O -",
    "k11 #A sort=name sortr=kind order=rs #P #Q #F #O -",
    "k12 #A esort=name sortr=kind #P #Q #F #O -",
    "k13 #A esortr=name sort=kind #P #Q #F #O -",
    "k14 #A esort=name sort=kind #P #Q #F #O -",
    "k15 #A esort=name esortr=location #P #Q #F #O -",
    "k16 #A esort=name sort=kind sortr=location order=sr #P #Q #F #O -",
    "k17 #A esort=name sort=kind sortr=location order=rs #P #Q #F #O -",
    "k18 #A esortr=name sort=kind sortr=location order=sr #P #Q #F #O -",
    "k19 #A timer=os etimer=tsc #P #Q #F #O -",
    "k20 #A etimer=tsc #P #Q #F #O -",
    "k21 #A color=never #P color=always #Q #F #O -",
    "k22 #A #P color=always #Q #F #O -",
    "k23 #A color=never #P #Q color=auto #F #O -",
    "k24 #A #P bytes=binary #Q #F #O -",
    "k25 #A ebytes=decimal #P bytes=binary #Q #F #O -",
    "k26 #A bytes=binary ebytes=decimal #P #Q bytes=decimal #F #O -",
    "k27 #A ignored #P run_ignored #Q #F #O -",
    "k28 #A #P run_only_ignored run_ignored #Q #F #O -",
    "k29 #A include-ignored #P #Q run_only_ignored #F #O -",
    "k30 #A ignored include-ignored #P #Q #F #O -",
    "k31 #A #P #Q #F +e:a::b -e:a::b::c #O cc",
    "k32 #A #P #Q #F +r:a::b -e:a::b::c #O cq",
    "k33 #A #P #Q #F -e:top +e:top +e:x -e:String #O pccc",
    "k34 #A #P #Q #F -r:(?i)STRING +r:top$ +r:^a -r:c$ #O pccc",
    "k35 #A #P #Q #F -e:m::tuple::(1,\u24232) -e:Pair<u8,\u2423u8> #O cc",
    "k36 #A #P #Q #F +e: #O c",
    "k37 #A #P #Q #F -r: #O c",
]

FLAGS_ORDER = ["bench", "test", "list", "ignored", "include-ignored"]


def rcfg_cmd(case):
    """Command line, environment of one case."""
    secs, cur = {"": []}, ""
    for t in case.split(" "):
        if len(t) == 2 and t[0] == "#":
            cur = t[1]
            secs[cur] = []
        elif t:
            secs[cur].append(t)

    def sec(name):
        return secs.get(name, [])

    a = sec("A")
    kv = dict((t.split("=", 1) + [""])[:2] for t in a)
    args, env = [], {"HX_DUMP_RUNNER": "1", "HX_PATHS": "\x1f".join(RC_PATHS)}
    for f in FLAGS_ORDER:
        if f in kv:
            args.append("--" + f)
    if "format" in kv:
        args += ["--format", kv["format"]]
    if "nextest" in kv:
        env["NEXTEST"] = "1"
    sortargs = []
    if "sort" in kv:
        sortargs.append(["--sort", kv["sort"]])
    if "sortr" in kv:
        sortargs.append(["--sortr", kv["sortr"]])
    if kv.get("order") == "rs":
        sortargs.reverse()
    for sa in sortargs:
        args += sa
    for k, e in (("esort", "DIVAN_SORT"), ("esortr", "DIVAN_SORTR"), ("etimer", "DIVAN_TIMER"), ("ebytes", "DIVAN_BYTES_FORMAT")):
        if k in kv:
            env[e] = kv[k]
    for k, f in (("timer", "--timer"), ("color", "--color"), ("bytes", "--bytes-format")):
        if k in kv:
            args += [f, kv[k]]
    builder = []
    for name, pre in (("P", "pre:"), ("Q", "post:")):
        for t in sec(name):
            k, _, v = t.partition("=")
            builder.append(pre + ("bytes_format" if k == "bytes" else k) + ("=" + v if v else ""))
    ops = sec("F")
    origins = (sec("O") or ["-"])[0]
    origins = "" if origins == "-" else origins
    exact = False
    for op, o in zip(ops, origins):
        inc, kind, pat = op[0] == "+", op[1], dec(op[3:])
        if o == "c":
            exact = exact or kind == "e"
            args += [pat] if inc else ["--skip=" + pat]
        else:
            call = {"e": "skip_exact", "r": "skip_regex"}.get(kind, "skip_regex_" + kind)
            builder.append(("pre:" if o == "p" else "post:") + call + "=" + pat)
    if exact:
        args.append("--exact")
    env["HX_BUILDER"] = ";".join(builder)
    return args, env, ops


def rcfg_impl_runner(run_lines):
    def runner(st, hbin):
        xs = " ".join("?" + enc(p) for p in RC_PATHS)
        oracle_in, parsed = [], []
        for case in st.cases:
            args, env, ops = rcfg_cmd(case)
            parsed.append((args, env, ops))
            oracle_in.append("o #P " + " ".join(o[1] + ":" + o[3:] for o in ops if o[1] != "e") + " #Q " + xs)
        rc, tables, err, _ = run_lines(hbin, "oracle", oracle_in, 120)
        lines = []
        for case, (args, env, ops), tline in zip(st.cases, parsed, tables + ["crash"] * (len(st.cases) - len(tables))):
            rows = iter(t for t in tline[2:].split(" ") if t)
            trows = " ".join(next(rows) if o[1] != "e" else "x" for o in ops) if tline.startswith("#T") else "oracle-failed"
            tail = f" #X {xs} #T {trows}"
            rc, out, err = run(hbin, args, env, timeout=30)
            if rc == 2 and "error:" in err:
                lines.append("rejected" + tail)
            elif rc != 0:
                lines.append(f"crash rc={rc} {err.strip().splitlines()[-1:]}" + tail)
            else:
                o = out.splitlines()
                lines.append((o[1] if len(o) > 2 else "short-output") + " #M " + (o[2] if len(o) > 2 else "") + tail)
        return lines
    return runner


def rcfg_model_input(case, impl):
    return case + (" #X" + impl.split(" #X", 1)[1] if " #X" in impl else "")


def rcfg_stream(Stream, run_lines, tier, rng, corpus):
    cases = corpus + RC_FIXED + [gen_rcfg(rng, k) for k in range(160 if tier == "quick" else 5000)]
    return Stream("runner-config-fresh-process", "rcfg", cases, impl_runner=rcfg_impl_runner(run_lines), model_input=rcfg_model_input,
                  compare=lambda i, m: i.split(" #X")[0] == m,
                  nontrivial=lambda c, m: m != "rejected" and (" #A #P" not in c),
                  describe="one fresh hx-select-e2e process per case: builder calls, flags (--bench/--test/--list/--format under NEXTEST, "
                           "--sort/--sortr in both orders, --timer, --color, --bytes-format, --ignored/--include-ignored), DIVAN_* variables, "
                           "positional/--skip/--exact and builder skips -> hooks runner_config and runner_filter_is_match over a fixed path list")
