"""Abstract benchmark programs for C12/C17: generator, serialisation for the model driver
(ocaml/tree.ml, items F/M/N/E after the C item) and emission of a real crate using the attribute macros."""
import hashlib
import os
import subprocess

from props.treelib import enc, lst

# (rust type expression, raw type_name with {c} for the crate name)
TYPES = [
    ("i32", "i32"),
    ("String", "alloc::string::String"),
    ("Vec<u8>", "alloc::vec::Vec<u8>"),
    ("&'static str", "&str"),
    ("()", "()"),
    ("Option<u16>", "core::option::Option<u16>"),
    ("crate::tys::A", "{c}::tys::A"),
    ("crate::tys::B", "{c}::tys::B"),
    ("crate::tys::inner::A", "{c}::tys::inner::A"),
    ("crate::tys::W<crate::tys::B>", "{c}::tys::W<{c}::tys::B>"),
    # type syntax other than a path (F13)
    ("&'static String", "&alloc::string::String"),
    ("(String, i32)", "(alloc::string::String, i32)"),
    ("[String; 2]", "[alloc::string::String; 2]"),
    ("[u8; 4]", "[u8; 4]"),
    ("fn(String) -> Vec<u8>", "fn(alloc::string::String) -> alloc::vec::Vec<u8>"),
    ("Box<dyn ::std::fmt::Debug>", "alloc::boxed::Box<dyn core::fmt::Debug>"),
    ("*const u8", "*const u8"),
    ("Vec<String>", "alloc::vec::Vec<alloc::string::String>"),
    ("Option<&'static String>", "core::option::Option<&alloc::string::String>"),
    ("(crate::tys::A, crate::tys::inner::A)", "({c}::tys::A, {c}::tys::inner::A)"),
]

# argument containers: key -> (parameter type, value kind, expression builder, model kind letter)
def _ints(vs, suf="i64"):
    return ", ".join("%d%s" % (v, suf) for v in vs)


def _strs(vs):
    return ", ".join(rust_str(v) for v in vs)


def rust_str(s):
    out = ['"']
    for ch in s:
        if ch in '"\\':
            out.append("\\" + ch)
        elif ord(ch) < 0x20:
            out.append("\\u{%x}" % ord(ch))
        else:
            out.append(ch)
    out.append('"')
    return "".join(out)


CONTAINERS = {
    "arr_i": ("i64", "i", lambda vs: "[%s]" % _ints(vs)),
    "ref_arr_i": ("i64", "i", lambda vs: "&[%s]" % _ints(vs)),
    "vec_i": ("i64", "i", lambda vs: "vec![%s]" % _ints(vs) if vs else "Vec::<i64>::new()"),
    "slice_i": ("i64", "i", lambda vs: "{ const S: &[i64] = &[%s]; S }" % _ints(vs)),
    "iter_i": ("i64", "i", lambda vs: "[%s].into_iter().map(|x: i64| x)" % _ints(vs)),
    "range": ("i64", "i", lambda vs: "%di64..%di64" % (vs[0] if vs else 0, (vs[0] if vs else 0) + len(vs))),
    "range_incl": ("i64", "i", lambda vs: "%di64..=%di64" % (vs[0], vs[0] + len(vs) - 1)),
    "arr_str": ("&str", "s", lambda vs: "[%s]" % _strs(vs)),
    "slice_str": ("&str", "s", lambda vs: "{ const S: &[&str] = &[%s]; S }" % _strs(vs)),
    "vec_string": ("&str", "s", lambda vs: "vec![%s]" % ", ".join("String::from(%s)" % rust_str(v) for v in vs) if vs else "Vec::<String>::new()"),
    "string_by_ref": ("&String", "s", lambda vs: "[%s]" % ", ".join("String::from(%s)" % rust_str(v) for v in vs)),
    "arr_char": ("char", "s", lambda vs: "[%s]" % ", ".join("'%s'" % v for v in vs)),
    "arr_u8": ("u8", "i", lambda vs: "[%s]" % _ints(vs, "u8")),
    # &str items that are prefixes of one text: they share their start address
    "prefix_str": ("&str", "s", lambda vs: "{ const T: &str = %s; [%s] }" % (rust_str(max(vs, key=len)), ", ".join("&T[..%d]" % len(v.encode("utf-8")) for v in vs))),
    # items whose rendering is the empty string: several rows under the same (empty) label
    "blank": ("support::Blank", "e", lambda vs: "[%s]" % ", ".join("support::Blank(%d)" % v for v in vs)),
    # the label rule "ToString rendering, Debug only as fallback": the values are the expected labels
    # Display + a different Debug; ToString implemented by hand (no Display) + a different Debug; Debug only
    "disp_dbg": ("support::DispDbg", "s", lambda vs: "[%s]" % ", ".join("support::DispDbg(%d)" % _num(v) for v in vs)),
    "own_tostring": ("support::OwnStr", "s", lambda vs: "[%s]" % ", ".join("support::OwnStr(%d)" % _num(v) for v in vs)),
    "dbg_only": ("support::DbgOnly", "s", lambda vs: "[%s]" % ", ".join("support::DbgOnly(%d)" % _num(v) for v in vs)),
}
LABEL_FORMS = {"disp_dbg": "disp%d", "own_tostring": "own%d", "dbg_only": "DbgOnly(%d)"}


def _num(label):
    import re
    return int(re.search(r"-?\d+", label).group(0))


PREFIX_TEXT = "abc::def"


def opts_letter(o):
    """o: None or dict(ignore=None/True/False, sample_count=None/int, attr=bool)."""
    if o is None:
        return "-"
    return ({None: "n", True: "t", False: "f"}[o.get("ignore")] + ("e" if o.get("threads_empty") else "")
            + ("" if o.get("sample_count") is None else str(o["sample_count"])))


COUNTER_KINDS = ["bytes", "chars", "cycles", "items"]
COUNTER_TYPES = {"bytes": "BytesCount", "chars": "CharsCount", "cycles": "CyclesCount", "items": "ItemsCount"}


def counter_parts(o):
    """Attribute options for o["counters"] = [(how, kind, value)], how in counter / counters / field."""
    parts, arr = [], []
    for (how, kind, v) in (o.get("counters") or []):
        if how == "field":
            parts.append("%s_count = %du32" % (kind, v))
        elif how == "counter":
            parts.append("counter = divan::counter::%s::new(%du32)" % (COUNTER_TYPES[kind], v))
        else:
            arr.append("divan::counter::%s::new(%du64)" % (COUNTER_TYPES[kind], v))
    if arr:
        parts.append("counters = [%s]" % ", ".join(arr))
    return parts


def options_digest(o):
    """What the registry must hold for these written options."""
    if o is None:
        return "none"
    counts = {k: "-" for k in COUNTER_KINDS}
    for (_, kind, v) in (o.get("counters") or []):
        counts[kind] = str(v)
    return "%s/%s/%s/%s" % ({None: "n", True: "t", False: "f"}[o.get("ignore")],
                            "-" if o.get("sample_count") is None else o["sample_count"],
                            ".".join(counts[k] for k in COUNTER_KINDS), "e" if o.get("threads_empty") else "-")


NOT_KEYWORDS_2015 = ("try", "async", "await", "dyn")


class Prog:
    def __init__(self, crate, items, edition="2021"):
        self.crate = crate
        self.items = items
        self.edition = edition
        self.number()

    def spell(self, raw):
        """How module_path!() spells a module identifier in this crate's edition."""
        if self.edition == "2015" and raw.startswith("r#") and raw[2:] in NOT_KEYWORDS_2015:
            return raw[2:]
        return raw

    # ---- identities exactly as Model/Registry.v expand assigns them (pre-order, one counter) ----
    def number(self):
        nxt = [0]

        def rows_of(b):
            types, consts = b.get("types"), b.get("consts")
            if types is None and consts is None:
                return None
            if (types == [] and consts is None) or (types is None and consts is not None and consts[0] == "L" and not consts[2]):
                return "empty"
            if consts is None:
                return [[(t, None) for t in types]]
            tl = types if types is not None else [None]
            return [[(t, c) for c in consts[2]] for t in tl]

        def go(items):
            for it in items:
                if it["k"] == "F":
                    r = rows_of(it)
                    it["rows"] = r
                    if r == "empty":
                        it["id"] = None
                        continue
                    it["id"] = nxt[0]
                    nxt[0] += 1
                    if r is not None:
                        nxt[0] += sum(len(x) for x in r)
                elif it["k"] == "M":
                    if it.get("group") is not None:
                        it["gid"] = nxt[0]
                        nxt[0] += 1
                    go(it["items"])
                else:
                    go(it["items"])
        go(self.items)
        self.count = nxt[0]

    # ---- the line for the model ----
    def tokens(self):
        out = ["P," + enc(self.crate) + ("" if self.edition == "2021" else "," + self.edition)]

        def go(items, line):
            for it in items:
                if it["k"] == "F":
                    a = it.get("args")
                    types = it.get("types")
                    consts = it.get("consts")
                    t = "-" if types is None else ("@" if not types else "/".join("%d:%s" % (i, enc(TYPES[i][1].format(c=self.crate))) for i in types))
                    if consts is None:
                        ck, cty, cv = "-", "-", "-"
                    else:
                        ck, cty, cv = consts[0], consts[1], lst(consts[2])
                    out.append(",".join(["F", enc(it["raw"]), "-" if it.get("name") is None else enc(it["name"]), str(it["line"]), str(it["col"]),
                                         opts_letter(it.get("opts")),
                                         "p" if a is None else CONTAINERS[a[0]][1], "-" if a is None else lst(a[1]), t, ck, cty, cv]))
                elif it["k"] == "M":
                    g = it.get("group")
                    if g is None:
                        out.append("M,%s,-,-,0,0,-" % enc(it["raw"]))
                    else:
                        out.append(",".join(["M", enc(it["raw"]), "G", "-" if g.get("name") is None else enc(g["name"]), str(g["line"]), str(g["col"]),
                                             opts_letter(g.get("opts"))]))
                    go(it["items"], line)
                    out.append("E")
                else:
                    out.append("N")
                    go(it["items"], line)
                    out.append("E")
        go(self.items, 0)
        return out

    def digest(self):
        """Registered options as written: one record per entry that is registered, sorted."""
        self.source()
        recs = []

        def go(items, modpath):
            for it in items:
                if it["k"] == "F":
                    if it.get("rows") == "empty":
                        continue
                    recs.append("%s~%s~%d=%s" % (enc(modpath), enc(it["raw"]), it["line"], options_digest(it.get("opts"))))
                elif it["k"] == "M":
                    g = it.get("group")
                    if g is not None:
                        recs.append("%s~%s~%d=%s" % (enc(modpath), enc(it["raw"]), g["line"], options_digest(g.get("opts"))))
                    go(it["items"], modpath + "::" + self.spell(it["raw"]))
                else:
                    go(it["items"], modpath)
        go(self.items, self.crate)
        return ";".join(sorted(recs))

    def resolved_digest(self):
        """Resolved counters per registered benchmark: own options over the innermost group over the outer groups, per kind."""
        self.source()
        recs = []

        def counts_of(o):
            c = {}
            for (_, kind, v) in ((o or {}).get("counters") or []):
                c[kind] = v
            return c

        def go(items, modpath, above):
            for it in items:
                if it["k"] == "F":
                    if it.get("rows") == "empty" or (isinstance(it.get("rows"), list) and not any(it["rows"])):
                        continue
                    res = {}
                    for c in [counts_of(it.get("opts"))] + above:
                        for k, v in c.items():
                            res.setdefault(k, v)
                    recs.append("%s~%s~%d=%s" % (enc(modpath), enc(it["raw"]), it["line"], ".".join(str(res.get(k, "-")) for k in COUNTER_KINDS)))
                elif it["k"] == "M":
                    g = it.get("group")
                    go(it["items"], modpath + "::" + self.spell(it["raw"]), ([counts_of(g.get("opts"))] if g is not None else []) + above)
                else:
                    go(it["items"], modpath, above)
        go(self.items, self.crate, [])
        return ";".join(sorted(recs))

    def line(self, acts, exe, ign="n", exact=False, pos=(), skip=(), sort="-", threads=()):
        cfg = ",".join(["C", acts, ign, "e" if exact else "r", lst(pos), lst(skip), sort] + ([lst(threads)] if threads else []))
        extra = (["O," + enc(self.digest())] if "O" in acts else []) + (["V," + enc(self.resolved_digest())] if "V" in acts else [])
        return " ".join([cfg, "X," + enc(exe)] + extra + self.tokens())

    # ---- the real crate ----
    def source(self):
        """Returns the text of src/main.rs; fills line/col of every attribute."""
        L = []

        def emit(s):
            L.append(s)

        def cur_line():
            return sum(x.count("\n") + 1 for x in L) + 1

        emit(SUPPORT if self.edition != "2015" else SUPPORT.replace("pub mod support {", "extern crate divan;\npub mod support {", 1))
        emit("pub mod tys { #[derive(Default)] pub struct A; #[derive(Default)] pub struct B; pub mod inner { #[derive(Default)] pub struct A; } #[derive(Default)] pub struct W<T>(pub T); }")
        emit("fn main() { support::child_main() }")

        def attr_opts(o, extra):
            parts = list(extra)
            if o is not None:
                if o.get("sample_count") is not None:
                    parts.append("sample_count = %d" % o["sample_count"])
                if o.get("threads_empty"):
                    parts.append(o.get("threads_expr", "threads = []"))
                parts.extend(counter_parts(o))
                how = o.get("how")
                if o.get("ignore") is not None and not o.get("attr") and how not in ("attr_before", "attr_after", "reason", "reason_after"):
                    if how == "expr":
                        parts.append("ignore = %s" % o["expr"])
                    else:
                        parts.append("ignore = %s" % ("true" if o["ignore"] else "false") if o["ignore"] is False or o.get("explicit") else "ignore")
            return parts

        def ignore_attr(o, before):
            """The separate #[ignore] attribute, if the options ask for one at this position."""
            if o is None:
                return None
            how = o.get("how")
            if before and (o.get("attr") or how == "attr_before"):
                return "#[ignore]"
            if before and how == "reason":
                return '#[ignore = "not now"]'
            if not before and how == "attr_after":
                return "#[ignore]"
            if not before and how == "reason_after":
                return '#[ignore = "slow, see issue"]'
            return None

        def go(items, ind):
            for it in items:
                pad = "    " * ind
                if it["k"] == "F":
                    parts = []
                    if it.get("name") is not None:
                        parts.append("name = %s" % rust_str(it["name"]))
                    a = it.get("args")
                    if a is not None:
                        kind, vals = a
                        expr = CONTAINERS[kind][2](vals)
                        if vals or kind not in ("arr_i", "arr_str"):
                            # the argument expression counts its evaluations
                            expr = "{ support::made(%d); %s }" % (it["id"] if it["id"] is not None else 0, expr)
                        else:
                            expr = "[]"
                        parts.append("args = " + expr)
                    types, consts = it.get("types"), it.get("consts")
                    if types is not None:
                        parts.append("types = [%s]" % ", ".join(TYPES[i][0] for i in types))
                    if consts is not None:
                        form, cty, cvals = consts[:3]
                        spell = consts[3] if len(consts) > 3 else [const_lit(cty, v) for v in cvals]
                        lit = "[%s]" % ", ".join(spell)
                        if form == "L":
                            parts.append("consts = " + lit)
                        else:
                            cname = "CS_%d" % cur_line()
                            emit(pad + "const %s: [%s; %d] = %s;" % (cname, CONST_TYPES[cty], len(cvals), lit))
                            parts.append("consts = " + cname)
                    parts = attr_opts(it.get("opts"), parts)
                    o = it.get("opts")
                    if ignore_attr(o, True):
                        emit(pad + ignore_attr(o, True))
                    it["line"], it["col"] = cur_line(), len(pad) + 1
                    emit(pad + "#[divan::bench%s]" % ("(%s)" % ", ".join(parts) if parts else ""))
                    if ignore_attr(o, False):
                        emit(pad + ignore_attr(o, False))
                    gen = []
                    tparam = "T: 'static" if types is not None else None
                    cparam = "const N: %s" % CONST_TYPES[consts[1]] if consts is not None else None
                    gp = [p for p in ([cparam, tparam] if it.get("const_first") else [tparam, cparam]) if p]
                    generics = "<%s>" % ", ".join(gp) if gp else ""
                    params = []
                    if it.get("bencher"):
                        params.append("b: divan::Bencher")
                    if a is not None:
                        params.append("x: %s" % CONTAINERS[a[0]][0])
                    # which entry am I?
                    if it["rows"] is None or it["rows"] == "empty":
                        ident = "%d" % (it["id"] if it["id"] is not None else 9999)
                    else:
                        ncols = len(it["rows"][0]) if it["rows"] else 0
                        if types is not None:
                            r = "support::pos_of(&[%s], ::std::any::type_name::<T>())" % ", ".join("::std::any::type_name::<%s>()" % TYPES[i][0] for i in types)
                        else:
                            r = "0"
                        if consts is not None and not consts[2]:
                            c = "0"
                        elif consts is not None:
                            c = "[%s].iter().position(|v| *v == N).unwrap()" % ", ".join(const_lit(consts[1], v) for v in consts[2])
                        else:
                            c = "0"
                            ncols = len(types)
                            r, c = "0", r
                        ident = "%d + 1 + (%s) * %d + (%s)" % (it["id"], r, ncols, c)
                    val = "Some(support::Render::render(&x))" if a is not None else "None"
                    abi = 'extern "C" ' if it.get("extern_c") else ""
                    if it.get("bencher"):
                        body = "let id = %s; support::enter(id); let v: Option<String> = %s; b.bench(|| support::call(id, v.clone()));" % (ident, val)
                    else:
                        body = "support::call(%s, %s);" % (ident, val)
                    emit(pad + "%sfn %s%s(%s) { %s }" % (abi, it["raw"], generics, ", ".join(params), body))
                elif it["k"] == "M":
                    g = it.get("group")
                    if g is not None:
                        parts = []
                        if g.get("name") is not None:
                            parts.append("name = %s" % rust_str(g["name"]))
                        parts = attr_opts(g.get("opts"), parts)
                        if ignore_attr(g.get("opts"), True):
                            emit(pad + ignore_attr(g.get("opts"), True))
                        g["line"], g["col"] = cur_line(), len(pad) + 1
                        emit(pad + "#[divan::bench_group%s]" % ("(%s)" % ", ".join(parts) if parts else ""))
                        if ignore_attr(g.get("opts"), False):
                            emit(pad + ignore_attr(g.get("opts"), False))
                    emit(pad + "mod %s {" % it["raw"])
                    emit(pad + "    #[allow(unused_imports)] use super::support;")
                    go(it["items"], ind + 1)
                    emit(pad + "}")
                else:
                    emit(pad + "#[allow(dead_code)] fn %s() {" % it["fname"])
                    go(it["items"], ind + 1)
                    emit(pad + "}")
        go(self.items, 0)
        return "\n".join(L) + "\n"


CONST_TYPES = {"i": "i64", "u": "usize", "b": "bool", "c": "char"}


def const_lit(cty, v):
    if cty == "c":
        return "'%s'" % v
    return str(v)


SUPPORT = r'''#![allow(non_snake_case, unused, non_upper_case_globals, clippy::all)]
pub mod support {
    use std::sync::Mutex;
    use std::sync::atomic::{AtomicUsize, Ordering};
    pub static LOG: Mutex<Vec<String>> = Mutex::new(Vec::new());
    static MADE: [AtomicUsize; 512] = [const { AtomicUsize::new(0) }; 512];
    pub fn enc(s: &str) -> String {
        if s.is_empty() { return "%_".into(); }
        let mut out = String::new();
        for &c in s.as_bytes() {
            if c > 0x20 && c < 0x7f && !b",/;=~|%-[]!>&".contains(&c) { out.push(c as char); } else { out.push_str(&format!("%{c:02X}")); }
        }
        out
    }
    pub trait Render { fn render(&self) -> String; }
    impl Render for i64 { fn render(&self) -> String { format!("i{self}") } }
    impl Render for u8 { fn render(&self) -> String { format!("i{self}") } }
    #[derive(Clone, Copy, PartialEq)] pub struct Blank(pub i64);
    impl std::fmt::Display for Blank { fn fmt(&self, _: &mut std::fmt::Formatter<'_>) -> std::fmt::Result { Ok(()) } }
    impl Render for Blank { fn render(&self) -> String { format!("e{}", self.0) } }
    // Display and a different Debug: the label is the Display (= ToString) rendering
    #[derive(Clone, Copy, PartialEq)] pub struct DispDbg(pub i64);
    impl std::fmt::Display for DispDbg { fn fmt(&self, f: &mut std::fmt::Formatter<'_>) -> std::fmt::Result { write!(f, "disp{}", self.0) } }
    impl std::fmt::Debug for DispDbg { fn fmt(&self, f: &mut std::fmt::Formatter<'_>) -> std::fmt::Result { write!(f, "DEBUG-OF-DISP<{}>", self.0) } }
    impl Render for DispDbg { fn render(&self) -> String { format!("s{}", enc(&format!("disp{}", self.0))) } }
    // ToString implemented by hand (no Display) and a different Debug: the label is the ToString rendering
    #[derive(Clone, Copy, PartialEq)] pub struct OwnStr(pub i64);
    #[allow(clippy::to_string_trait_impl)]
    impl ToString for OwnStr { fn to_string(&self) -> String { format!("own{}", self.0) } }
    impl std::fmt::Debug for OwnStr { fn fmt(&self, f: &mut std::fmt::Formatter<'_>) -> std::fmt::Result { write!(f, "DEBUG-OF-OWN<{}>", self.0) } }
    impl Render for OwnStr { fn render(&self) -> String { format!("s{}", enc(&format!("own{}", self.0))) } }
    // Debug only: the label is the Debug rendering
    #[derive(Clone, Copy, PartialEq, Debug)] pub struct DbgOnly(pub i64);
    impl Render for DbgOnly { fn render(&self) -> String { format!("s{}", enc(&format!("DbgOnly({})", self.0))) } }
    impl Render for char { fn render(&self) -> String { let mut b = [0u8; 4]; format!("s{}", enc(self.encode_utf8(&mut b))) } }
    impl Render for &str { fn render(&self) -> String { format!("s{}", enc(self)) } }
    impl Render for &String { fn render(&self) -> String { format!("s{}", enc(self)) } }
    pub fn pos_of(names: &[&str], n: &str) -> usize { names.iter().position(|x| *x == n).unwrap() }
    pub fn made(owner: usize) {
        MADE[owner].fetch_add(1, Ordering::SeqCst);
        if let Some(ms) = std::env::var("HX_SLOW_ARGS").ok().and_then(|s| s.parse::<u64>().ok()) {
            std::thread::sleep(std::time::Duration::from_millis(ms));
        }
    }
    pub fn enter(id: usize) { LOG.lock().unwrap().push(format!("E{id}")); }
    pub fn call(id: usize, v: Option<String>) {
        LOG.lock().unwrap().push(match v { Some(v) => format!("C{id}={v}"), None => format!("C{id}") });
    }
    fn opts_letter(m: &divan::__private::EntryMeta) -> &'static str {
        match m.bench_options.as_deref() {
            None => "-",
            Some(o) => match o.ignore { None => "n", Some(true) => "t", Some(false) => "f" },
        }
    }
    fn sample_count(m: &divan::__private::EntryMeta) -> String {
        match m.bench_options.as_deref().and_then(|o| o.sample_count) { Some(n) => n.to_string(), None => String::new() }
    }
    fn meta(m: &divan::__private::EntryMeta) -> String {
        assert_eq!(m.location.file, "src/main.rs");
        format!("{},{},{},{},{},{}{}", enc(m.module_path), enc(m.raw_name), enc(m.display_name), m.location.line, m.location.col, opts_letter(m), sample_count(m))
    }
    pub fn dump() {
        use divan::__private::{BenchEntryRunner, BENCH_ENTRIES, GROUP_ENTRIES};
        let mut lines = Vec::new();
        for e in BENCH_ENTRIES.iter() {
            let k = match e.bench { BenchEntryRunner::Plain(_) => "p", BenchEntryRunner::Args(_) => "a" };
            lines.push(format!("B,{},{k}", meta(&e.meta)));
        }
        for g in GROUP_ENTRIES.iter() {
            let shape = match g.generic_benches {
                None => "-".to_string(),
                Some(rows) => {
                    let rs: Vec<String> = rows.iter().map(|r| r.iter().map(|e| format!("{}{}{}",
                        if e.ty.is_some() { "t" } else { "" }, if e.const_value.is_some() { "c" } else { "" },
                        match e.bench { BenchEntryRunner::Plain(_) => "p", BenchEntryRunner::Args(_) => "a" })).collect::<Vec<_>>().join(".")).collect();
                    format!("@{}", rs.join("+"))
                }
            };
            lines.push(format!("G,{},{shape}", meta(&g.meta)));
        }
        lines.sort();
        println!("{}", lines.join(";"));
    }
    fn opt_digest(m: &divan::__private::EntryMeta) -> String {
        let rec = match m.bench_options.as_deref() {
            None => "none".to_string(),
            Some(o) => {
                let dbg = format!("{:?}", o.counters);
                let inner = dbg.split('[').nth(1).and_then(|s| s.split(']').next()).unwrap_or("");
                let counts: Vec<String> = inner.split(", ").map(|c| {
                    if c == "None" { "-".to_string() } else { c.trim_start_matches("Some(").trim_end_matches(')').to_string() }
                }).collect();
                let threads = match o.threads.as_deref() {
                    None => "-".to_string(),
                    Some([]) => "e".to_string(),
                    Some(l) => l.iter().map(|n| n.to_string()).collect::<Vec<_>>().join("."),
                };
                format!("{}/{}/{}/{}", match o.ignore { None => "n", Some(true) => "t", Some(false) => "f" },
                        match o.sample_count { Some(n) => n.to_string(), None => "-".into() }, counts.join("."), threads)
            }
        };
        format!("{}~{}~{}={}", enc(m.module_path), enc(m.raw_name), m.location.line, rec)
    }
    /// Resolved counters of every benchmark: its own options over the innermost bench_group over the outer ones,
    /// folded with the crate's own `BenchOptions::overwrite` (through the `__verif` wrapper).
    fn fold_opts(chain: &[&divan::__private::BenchOptions<'static>], k: &dyn Fn(&divan::__private::BenchOptions) -> String) -> String {
        match chain {
            [] => k(&Default::default()),
            [x] => k(x),
            [x, rest @ ..] => fold_opts(rest, &|r| { let o = divan::__verif::options_overwrite(x, r); k(&o) }),
        }
    }
    fn strip_r(s: &str) -> &str { s.strip_prefix("r#").unwrap_or(s) }
    pub fn resolved_dump() {
        use divan::__private::{BENCH_ENTRIES, GROUP_ENTRIES};
        let groups: Vec<&divan::__private::GroupEntry> = GROUP_ENTRIES.iter().filter(|g| g.generic_benches.is_none()).collect();
        let mut metas: Vec<&divan::__private::EntryMeta> = BENCH_ENTRIES.iter().map(|e| &e.meta).collect();
        metas.extend(GROUP_ENTRIES.iter().filter(|g| g.generic_benches.map(|r| r.iter().any(|row| !row.is_empty())).unwrap_or(false)).map(|g| &g.meta));
        let mut recs = Vec::new();
        for m in metas {
            let comps: Vec<&str> = m.module_path.split("::").collect();
            // groups above, innermost first
            let mut above: Vec<(usize, &divan::__private::GroupEntry)> = groups.iter().filter_map(|g| {
                let gc: Vec<&str> = g.meta.module_path.split("::").collect();
                let n = gc.len();
                if comps.len() > n && comps[..n] == gc[..] && strip_r(comps[n]) == strip_r(g.meta.raw_name) { Some((n, *g)) } else { None }
            }).collect();
            above.sort_by(|a, b| b.0.cmp(&a.0));
            let mut chain: Vec<&divan::__private::BenchOptions<'static>> = Vec::new();
            if let Some(o) = m.bench_options.as_deref() { chain.push(o); }
            for (_, g) in &above { if let Some(o) = g.meta.bench_options.as_deref() { chain.push(o); } }
            let counts = fold_opts(&chain, &|o| (0..4u8).map(|k| match divan::__verif::options_counter(o, k) { Some(n) => n.to_string(), None => "-".into() }).collect::<Vec<_>>().join("."));
            recs.push(format!("{}~{}~{}={}", enc(m.module_path), enc(m.raw_name), m.location.line, counts));
        }
        recs.sort();
        println!("{}", recs.join(";"));
    }
    pub fn optdump() {
        use divan::__private::{BENCH_ENTRIES, GROUP_ENTRIES};
        let mut recs: Vec<String> = BENCH_ENTRIES.iter().map(|e| opt_digest(&e.meta)).collect();
        recs.extend(GROUP_ENTRIES.iter().map(|g| opt_digest(&g.meta)));
        recs.sort();
        println!("{}", recs.join(";"));
    }
    pub fn child_main() {
        let api = std::env::var("HX_API").unwrap_or_else(|_| "main".into());
        let res = std::panic::catch_unwind(|| match api.as_str() {
            "main" => divan::main(),
            "list_benches" => divan::Divan::from_args().list_benches(),
            "test_benches" => divan::Divan::from_args().test_benches(),
            "main_threads_cfg" => {
                let t: Vec<usize> = std::env::var("HX_THREADS").unwrap_or_default().split(',').filter(|s| !s.is_empty()).map(|s| s.parse().unwrap()).collect();
                divan::Divan::from_args().threads(t).main()
            }
            "concurrent_runs" => {
                let k: usize = std::env::var("HX_K").ok().and_then(|s| s.parse().ok()).unwrap_or(3);
                let barrier = std::sync::Barrier::new(k);
                std::thread::scope(|s| { for _ in 0..k { s.spawn(|| { barrier.wait(); divan::Divan::default().test_benches(); }); } });
            }
            "dump" => dump(),
            "optdump" => optdump(),
            "resolved" => resolved_dump(),
            other => panic!("HX_API {other}"),
        });
        use std::io::Write;
        let _ = std::io::stdout().flush();
        let log = LOG.lock().unwrap_or_else(|e| e.into_inner());
        let made: Vec<String> = (0..512).filter_map(|i| { let n = MADE[i].load(Ordering::SeqCst); if n > 0 { Some(format!("M{i}x{n}")) } else { None } }).collect();
        println!("\n@@LOG {}", log.join(";"));
        println!("@@MADE {}", made.join(";"));
        if res.is_err() { println!("@@PANIC"); }
    }
}'''


HARNESS_PROFILE = """[profile.dev]
opt-level = 0
debug = false
overflow-checks = true
debug-assertions = true

[profile.dev.package."*"]
opt-level = 1

[profile.release]
overflow-checks = false
debug-assertions = false
"""


def crate_dir(prog, cache):
    src = prog.source()
    h = hashlib.sha256((prog.crate + "\n" + prog.edition + "\n" + src).encode()).hexdigest()[:12]
    return os.path.join(cache, "e2e", prog.crate + "-" + h), src


def build_crate(prog, cache, repo, timeout=900, target=None):
    """Writes and compiles the crate offline.  The crate uses the same profile, the same rustflags
    (.cargo/config.toml copied from harness/hx-run) and the same cargo target dir as the harness crates, so divan and
    its dependencies (clap, regex-lite, syn, ...) are compiled once for harness and generated crates together;
    a generated crate then costs only its own compilation.  Returns (exe path or None, log)."""
    import shutil
    d, src = crate_dir(prog, cache)
    target = target or os.path.join(cache, "target")
    os.makedirs(os.path.join(d, "src"), exist_ok=True)
    os.makedirs(os.path.join(d, ".cargo"), exist_ok=True)
    with open(os.path.join(d, "src", "main.rs"), "w") as f:
        f.write(src)
    with open(os.path.join(d, "Cargo.toml"), "w") as f:
        f.write('[package]\nname = "%s"\nversion = "0.0.0"\nedition = "%s"\npublish = false\n\n[dependencies]\ndivan = { path = "%s" }\n\n'
                '%s\n[workspace]\n' % (prog.crate, prog.edition, repo, HARNESS_PROFILE))
    here = os.path.dirname(os.path.dirname(os.path.dirname(os.path.abspath(__file__))))
    shutil.copy(os.path.join(here, "harness", "hx-run", ".cargo", "config.toml"), os.path.join(d, ".cargo", "config.toml"))
    lock = os.path.join(d, "Cargo.lock")
    if not os.path.exists(lock):
        # (a git worktree of the repo has no Cargo.lock: it is not tracked there)
        src_lock = os.path.join(repo, "Cargo.lock")
        if not os.path.exists(src_lock):
            src_lock = os.path.join(here, "harness", "hx-run", "Cargo.lock")
        shutil.copy(src_lock, lock)
    env = dict(os.environ, CARGO_NET_OFFLINE="true", CARGO_TARGET_DIR=target)
    env.pop("RUSTFLAGS", None)
    out = os.path.join(d, "exe")
    try:
        p = subprocess.run(["cargo", "build", "--offline", "-q"], cwd=d, env=env, timeout=timeout,
                           stdout=subprocess.PIPE, stderr=subprocess.PIPE, text=True)
    except subprocess.TimeoutExpired:
        return None, "cargo build timed out"
    exe = os.path.join(target, "debug", prog.crate)
    if p.returncode != 0 or not os.path.exists(exe):
        if os.path.exists(out):
            os.remove(out)
        return None, (p.stdout + p.stderr)[-3000:]
    # keep a private copy: the shared target dir may be overwritten by another crate of the same name
    shutil.copy(exe, out)
    return out, ""


# ---------------------------------------------------------------------------
# random programs
# ---------------------------------------------------------------------------
FN_POOL = ["alpha", "beta", "r#loop", "r#type", "sort_x2", "sort_x10", "Upper", "z9", "gamma", "delta", "r#fn", "eps"]
MOD_POOL = ["m", "inner", "r#mod", "grp", "x1", "x10", "Deep", "q", "r#match", "r#use"]
NAMES = ["custom name", "x::y", "alpha", "<T>", "n.1", "ü", "a,b", "01"]
STRV = ["a", "b c", "x::y", "ü", "1.5", "01", "A", "é~", "q%", "north\neast", "north\nwest"]


def F(raw, **kw):
    return dict(k="F", raw=raw, **kw)


# `ignore = <const expr>` forms and their values
IGNORE_EXPRS = [("{ const I: bool = true; I }", True), ("1 + 1 == 2", True), ("!true", False), ("cfg!(not(any()))", True),
                ("{ const I: bool = false; I }", False), ("u8::MAX == 255", True)]


def int_spelling(rng, v, cty):
    """A source spelling of the integer v other than (or equal to) its decimal rendering."""
    suffix = {"i": "i64", "u": "usize"}[cty]
    forms = [str(v), "{:_}".format(v), str(v) + suffix, str(v) + "_" + suffix]
    if v >= 0:
        forms += ["0x%x" % v, "0x%X" % v, "0b{:b}".format(v), "0o%o" % v, "00%d" % v, "0x_%x" % v, "0b{:_b}".format(v)]
    return rng.choice(forms)


def rand_opts_decl(rng, p=0.45):
    if rng.random() > p:
        return None
    k = rng.random()
    if k < 0.3:
        return dict(ignore=True, how=rng.choice(["attr_before", "attr_after", "reason", "reason_after"]))
    if k < 0.4:
        e, v = rng.choice(IGNORE_EXPRS)
        return dict(ignore=v, how="expr", expr=e)
    if k < 0.55:
        return dict(ignore=True, explicit=rng.random() < 0.5)
    if k < 0.8:
        return dict(ignore=False, explicit=True)
    return dict(sample_count=rng.choice([1, 7, 100]))


def rand_args(rng, max_len=5, kinds=None):
    kind = rng.choice(kinds or list(CONTAINERS))
    ptype, vk, _ = CONTAINERS[kind]
    n = rng.randrange(0 if kind in ("arr_i", "arr_str") else 1, max_len + 1)
    if kind in ("range", "range_incl"):
        s = rng.choice([0, -2, 5, 100])
        vals = [s + i for i in range(n)]
    elif kind == "arr_u8":
        vals = [rng.choice([0, 1, 9, 10, 255, rng.randrange(256)]) for _ in range(n)]
    elif kind == "prefix_str":
        vals = [PREFIX_TEXT[:rng.randrange(0, len(PREFIX_TEXT) + 1)] for _ in range(n)]
    elif kind == "blank":
        vals = [rng.randrange(-5, 50) for _ in range(n)]
    elif kind in LABEL_FORMS:
        vals = [LABEL_FORMS[kind] % rng.choice([0, 1, 2, 10, 9, -3, 100]) for _ in range(n)]
    elif vk == "i":
        vals = [rng.choice([0, 1, -1, 2, 10, 9, 100, -100, 2**63 - 1, -(2**63) + 1, 42]) for _ in range(n)]
    elif kind == "arr_char":
        vals = [rng.choice(["a", "Z", "0", "ü", "-"]) for _ in range(n)]
    else:
        vals = [rng.choice(STRV) for _ in range(n)]
    return (kind, vals)


def rand_fn(rng, raw, max_args=5):
    it = F(raw)
    k = rng.random()
    if rng.random() < 0.25:
        it["name"] = rng.choice(NAMES)
    it["opts"] = rand_opts_decl(rng)
    if k < 0.35:                        # plain / Bencher / extern
        it["bencher"] = rng.random() < 0.4
        it["extern_c"] = rng.random() < 0.15
    elif k < 0.6:                       # args
        it["args"] = rand_args(rng, max_args)
        it["bencher"] = rng.random() < 0.4
    else:                               # generic
        shape = rng.random()
        if shape < 0.35:
            it["types"] = rng.sample(range(len(TYPES)), rng.randrange(0, 4))
        elif shape < 0.6:
            it["consts"] = rand_consts(rng)
        else:
            it["types"] = rng.sample(range(len(TYPES)), rng.randrange(0, 3))
            it["consts"] = rand_consts(rng)
            it["const_first"] = rng.random() < 0.4
        it["bencher"] = rng.random() < 0.3
        if rng.random() < 0.3:
            it["args"] = rand_args(rng, 3, kinds=["arr_i", "vec_i", "arr_str", "range", "slice_i"])
            if not it["args"][1]:
                it["args"] = ("vec_i", [1, 2])
    return it


def rand_consts(rng):
    cty = rng.choice("iiubc")
    n = rng.randrange(0, 4)
    if cty == "i":
        vals = rng.sample([0, 1, -1, 2, 10, 100, -5, 7], n)
    elif cty == "u":
        vals = rng.sample([0, 1, 2, 10, 64, 1000], n)
    elif cty == "b":
        vals = rng.sample(["true", "false"], min(n, 2))
    else:
        vals = rng.sample(["a", "z", "0", "Q"], n)
    form = "L" if rng.random() < 0.6 or not vals else "X"
    if cty in "iu" and rng.random() < 0.6:
        return (form, cty, vals, [int_spelling(rng, v, cty) for v in vals])
    return (form, cty, vals)


def rand_items(rng, depth, budget):
    items = []
    fns = rng.sample(FN_POOL, rng.randrange(1, 5))
    seen = set()
    for raw in fns:
        key = raw.replace("r#", "").upper()
        if key in seen or budget[0] <= 0:
            continue
        seen.add(key)
        budget[0] -= 1
        items.append(rand_fn(rng, raw))
    if depth < 3:
        for raw in rng.sample(MOD_POOL, rng.randrange(0, 3)):
            if budget[0] <= 0:
                break
            g = None
            if raw.startswith("r#"):
                # raw-identifier group modules always carry something observable: ignore and/or a custom name
                k = rng.random()
                g = dict(name=rng.choice(NAMES) if k < 0.6 else None,
                         opts=dict(ignore=True, attr=rng.random() < 0.5) if k > 0.3 else None)
            elif rng.random() < 0.55:
                g = dict(name=rng.choice(NAMES) if rng.random() < 0.35 else None, opts=rand_opts_decl(rng, 0.6))
            sub = rand_items(rng, depth + 1, budget)
            if sub:
                items.append(dict(k="M", raw=raw, items=sub, group=g))
    if rng.random() < 0.3 and budget[0] > 0:
        budget[0] -= 1
        items.append(dict(k="N", fname="host_%d" % rng.randrange(10**6), items=[rand_fn(rng, rng.choice(["nested_a", "nested_b", "r#nested"]))]))
    rng.shuffle(items)
    return items


def rand_program(rng, crate, size=14):
    return Prog(crate, rand_items(rng, 0, [size]))


def feature_tour(crate):
    """One item of every attribute form named by C12 (fixed)."""
    M = lambda raw, items, group=None: dict(k="M", raw=raw, items=items, group=group)
    items = [
        F("plain"), F("r#loop"), F("named", name="custom name"), F("with_b", bencher=True), F("ext", extern_c=True),
        F("ign1", opts=dict(ignore=True, attr=True)), F("ign2", opts=dict(ignore=True)), F("sc", opts=dict(sample_count=7)),
        F("a1", args=("arr_i", [3, 1, 2])), F("a2", args=("arr_str", ["x", "y z"]), bencher=True), F("a_empty", args=("arr_i", [])),
        F("a3", args=("slice_str", ["p", "q"])), F("a4", args=("vec_string", ["s1", "s2", "s3"])), F("a5", args=("range_incl", [4, 5, 6])),
        F("a6", args=("ref_arr_i", [7, 8])), F("a7", args=("iter_i", [9])), F("a8", args=("string_by_ref", ["r1"])), F("a9", args=("arr_char", ["c", "d"])),
        F("ty", types=[0, 6, 8]), F("ty_empty", types=[]),
        F("cs", consts=("L", "i", [1, 2, 3])), F("cs_empty", consts=("L", "i", [])), F("cs_ext", consts=("X", "u", [4, 5])),
        F("cs_ext20", consts=("X", "i", list(range(20)))),
        F("both", types=[1, 7], consts=("L", "i", [10, 20]), const_first=False),
        F("both2", types=[1, 7], consts=("L", "b", ["true", "false"]), const_first=True, args=("vec_i", [5, 6])),
        F("ty_none_consts", types=[], consts=("L", "i", [1])), F("consts_none_ty", types=[2], consts=("L", "i", [])),
        M("m1", [F("inner"), M("m2", [F("deep", args=("range", [0, 1, 2])), M("m3", [F("deeper")])],
                               group=dict(name="Group Two", opts=dict(ignore=True)))]),
        M("g", [F("x"), F("nf", opts=dict(ignore=False, explicit=True))], group=dict(opts=dict(ignore=True, attr=True))),
        M("r#mod", [F("in_raw_mod")], group=dict(opts=dict(sample_count=3))),
        # raw-identifier bench_group modules whose attributes are observable: ignore, custom name, nesting
        M("r#loop", [F("in_raw_ignored"), F("raw_override", opts=dict(ignore=False, explicit=True)),
                     F("raw_args", args=("arr_i", [1, 2]))], group=dict(opts=dict(ignore=True))),
        M("r#type", [F("in_raw_named"), F("raw_gen", types=[0, 1])], group=dict(name="Raw Named")),
        M("outer_g", [F("o1"),
                      M("r#fn", [F("nested_raw"), M("r#match", [F("raw_in_raw")], group=dict(name="Inner Raw", opts=dict(ignore=False, explicit=True)))],
                        group=dict(name="Raw In Group", opts=dict(ignore=True, attr=True)))],
          group=dict(name="Outer G")),
        dict(k="N", fname="outer_fn", items=[F("nested_in_fn")]),
        # options that consist of counters only (every spelling), on functions and on group modules
        F("cnt_counter", opts=dict(counters=[("counter", "items", 3)])),
        F("cnt_counters", opts=dict(counters=[("counters", "bytes", 8), ("counters", "chars", 2)])),
        F("cnt_bytes", opts=dict(counters=[("field", "bytes", 16)]), bencher=True),
        F("cnt_chars", opts=dict(counters=[("field", "chars", 5)])),
        F("cnt_cycles", opts=dict(counters=[("field", "cycles", 7)]), args=("arr_i", [1, 2])),
        F("cnt_items_gen", types=[0, 1], opts=dict(counters=[("field", "items", 2)])),
        F("cnt_and_more", opts=dict(counters=[("field", "items", 9)], sample_count=4)),
        M("g_cnt", [F("below_cnt")], group=dict(opts=dict(counters=[("field", "bytes", 64)]))),
        M("g_cnt2", [F("below_cnt2")], group=dict(name="Counted", opts=dict(counters=[("counter", "cycles", 11)]))),
        # counters resolved over two group levels, with sets that are not a prefix of [bytes, chars, cycles, items]
        M("cg_outer", [F("items5", opts=dict(counters=[("field", "items", 5)])),
                       F("cg_plain"),
                       M("cg_inner", [F("cyc2", opts=dict(counters=[("field", "cycles", 2)])),
                                      F("cg_none"),
                                      F("cg_gen", types=[0, 1], opts=dict(counters=[("counter", "items", 4)])),
                                      F("cg_all", opts=dict(counters=[("counters", "bytes", 1), ("counters", "chars", 2), ("counters", "cycles", 3), ("counters", "items", 4)]))],
                         group=dict(opts=dict(counters=[("counters", "chars", 3), ("counters", "items", 9)])))],
          group=dict(opts=dict(sample_count=10, counters=[("field", "bytes", 7)]))),
        M("cg_cycles", [F("under_cycles", opts=dict(counters=[("field", "chars", 6)]))], group=dict(opts=dict(counters=[("field", "cycles", 8)]))),
        # `threads` present but empty: on a function, inherited from a group, as an empty range
        F("thr_empty", opts=dict(threads_empty=True)),
        F("thr_empty_args", opts=dict(threads_empty=True), args=("arr_i", [5, 6])),
        F("thr_empty_range", opts=dict(threads_empty=True, threads_expr="threads = 0..0")),
        M("g_thr", [F("below_thr"), F("below_thr_gen", types=[0, 6])], group=dict(opts=dict(threads_empty=True))),
        # type syntax other than a path in `types`
        F("nonpath", types=[10, 1, 11, 12, 14, 15, 16, 17, 18]),
        # every way of writing `ignore`
        F("ign_after", opts=dict(ignore=True, how="attr_after")),
        F("ign_reason", opts=dict(ignore=True, how="reason")),
        F("ign_reason_after", opts=dict(ignore=True, how="reason_after"), args=("arr_i", [1])),
        F("ign_lit_true", opts=dict(ignore=True, explicit=True)),
        F("ign_expr_true", opts=dict(ignore=True, how="expr", expr="{ const I: bool = true; I }")),
        F("ign_expr_false", opts=dict(ignore=False, how="expr", expr="1 + 1 == 3")),
        F("ign_reason_gen", types=[0, 1], opts=dict(ignore=True, how="reason")),
        M("g_reason", [F("below_reason"), F("opt_out", opts=dict(ignore=False, explicit=True))],
          group=dict(name="Reason Group", opts=dict(ignore=True, how="reason"))),
        M("g_after", [F("below_after")], group=dict(opts=dict(ignore=True, how="attr_after"))),
        M("g_expr", [F("below_expr")], group=dict(opts=dict(ignore=True, how="expr", expr="u8::MAX == 255"))),
        # inline const literals whose source text is not the decimal rendering of the value
        F("cs_spell", consts=("L", "i", [1000, 512, 16, 15, 7, 5, -2000], ["1_000", "0x200", "0b1_0000", "0o17", "007", "5i64", "-2_000"])),
        F("cs_spell_t", types=[0, 1], consts=("L", "u", [4096, 10, 255], ["0x1000", "1_0usize", "0xFF"]), const_first=True),
        F("cs_spell_ext", consts=("X", "u", [64, 8], ["0x40", "0o10"])),
        # two generic functions of the same name nested in different fn bodies (module_path!() omits the enclosing fn):
        # each keeps its own options
        dict(k="N", fname="first_host", items=[F("same_inner", types=[0, 6], opts=dict(ignore=True, sample_count=3))]),
        dict(k="N", fname="second_host", items=[F("same_inner", types=[1], consts=("L", "i", [1, 2]),
                                                  opts=dict(ignore=False, explicit=True, sample_count=2), args=("arr_i", [8, 9]))]),
        M("hosts", [dict(k="N", fname="h1", items=[F("twin", consts=("L", "u", [1]), opts=dict(ignore=False, explicit=True))]),
                    dict(k="N", fname="h2", items=[F("twin", types=[2], opts=dict(ignore=True))])],
          group=dict(name="Hosts", opts=dict(ignore=True, attr=True))),
    ]
    return Prog(crate, items)


def edition_2015_crate(crate="e2e_2015"):
    """Edition 2015: module_path!() spells `mod r#try` (r#async, r#await, r#dyn: not keywords in that edition) without
    the r#, while the bench_group's raw name is the identifier as written.  Groups on such modules, on raw modules that
    are keywords in every edition (r#loop, r#match) and on plain ones; nested both ways; observable name / ignore / sample_count."""
    M = lambda raw, items, group=None: dict(k="M", raw=raw, items=items, group=group)
    items = [
        F("top"),
        M("r#try", [F("a"), F("a_args", args=("arr_i", [1, 2]))], group=dict(name="renamed try", opts=dict(ignore=True))),
        M("r#async", [F("b"), F("b_gen", types=[0, 1])], group=dict(name="renamed async", opts=dict(sample_count=3))),
        M("r#dyn", [F("c"), F("c_opt_out", opts=dict(ignore=False, explicit=True))], group=dict(opts=dict(ignore=True, how="reason"))),
        M("r#await", [F("d")], group=dict(name="renamed await")),
        M("r#loop", [F("e")], group=dict(name="renamed loop", opts=dict(ignore=True))),
        M("r#match", [F("f")], group=dict(opts=dict(ignore=True, attr=True))),
        M("plain", [F("g")], group=dict(name="renamed plain", opts=dict(ignore=True))),
        # raw inside plain (group on the inner); plain inside raw, group on the inner and on the outer; deeper nesting
        M("outer_plain", [F("h"), M("r#try", [F("i")], group=dict(name="inner try", opts=dict(ignore=True)))]),
        M("outer_g", [M("r#async", [F("l"), M("deep", [F("m")], group=dict(name="Deep", opts=dict(sample_count=2)))],
                        group=dict(name="inner async"))], group=dict(name="Outer G", opts=dict(ignore=True))),
        M("host", [M("r#await", [M("in_raw", [F("n")], group=dict(name="In Raw", opts=dict(ignore=True)))])]),
    ]
    return Prog(crate, items, edition="2015")
