"""Shared case generator of the group `tree` (C14, C12, C17): synthetic registries in the
line format of harness/hx-run/src/spec.rs."""

TYPE_NAMES = [
    "i32", "alloc::string::String", "alloc::vec::Vec<i32>", "&str", "()", "[u8; 4]",
    "hx_run::registry::ty::a::X", "hx_run::registry::ty::b::X", "hx_run::registry::ty::b::Y",
    "core::option::Option<alloc::string::String>",
    "hx_run::registry::ty::a::G<hx_run::registry::ty::b::X>",
    "alloc::collections::btree::map::BTreeMap<hx_run::registry::ty::a::X, alloc::vec::Vec<hx_run::registry::ty::b::Y>>",
    "(hx_run::registry::ty::a::X, hx_run::registry::ty::b::X)",
    "fn(hx_run::registry::ty::a::X) -> hx_run::registry::ty::b::Y",
    # type syntax other than a path (F13: the label must keep it whole)
    "&alloc::string::String", "(alloc::string::String, i32)", "[alloc::string::String; 2]",
    "fn(alloc::string::String) -> alloc::vec::Vec<u8>", "alloc::boxed::Box<dyn core::fmt::Debug>", "*const u8",
    "alloc::vec::Vec<alloc::string::String>", "core::option::Option<&alloc::string::String>",
]

INT_KINDS = "irgud"
STR_KINDS = "SsltbwC"  # C is not a kind; placeholder so that 'c' is handled separately
ALL_KINDS = ["i", "r", "g", "u", "d", "c", "S", "s", "l", "t", "b", "w", "e", "p", "q", "o", "y"]
PREFIX_TEXTS = ["abcdef", "x::y::z", "1000", "aaaa", "\u00fcber"]


def enc(s):
    if s == "":
        return "%_"
    out = []
    for c in s.encode("utf-8"):
        if 0x20 < c < 0x7F and chr(c) not in ",/;=~|%-[]!>&":
            out.append(chr(c))
        else:
            out.append("%%%02X" % c)
    return "".join(out)


def lst(xs):
    return "/".join(enc(str(x)) for x in xs) if xs else "-"


MOD_NAMES = ["a", "b", "m", "r#mod", "g", "x1", "x10", "x2", "r#fn", "Z"]
FN_NAMES = ["f", "g", "a", "bench", "r#loop", "x2", "x10", "sort", "m", "F"]
CUSTOM = ["Grp A", "x::y", "a", "custom", "n.1", "<T>", "r#x", "ü", "a,b", "p-q", "1", "01", "two\nlines"]
STR_VALS = ["a", "b", "ab", "b c", "x::y", "", "ü", "1.5", "01", "1", "10", "2", "-", "a/b", "A", "%", "r#a", "é~",
            "north\neast", "north\nwest", "cr\rlf"]     # labels with line breaks: the row shows the whole rendering
CHARS = ["a", "b", "Z", "0", "9", "ü", "-", "%", ";"]


def strip_raw(s):
    return s[2:] if s.startswith("r#") else s


def type_display(raw):
    """EntryType::display_name (repaired): strip leading `ident::` components only."""
    cur = raw
    while "::" in cur:
        prev, nxt = cur.split("::", 1)
        if not all(ch.isalnum() or ch == "_" for ch in prev):
            break
        cur = nxt
    return cur


def gen_args(rng, kind, n):
    if kind == "g":
        s = rng.choice([0, 1, -3, 7, 100, -1])
        return [s + i for i in range(n)]
    if kind == "u":
        return [rng.choice([0, 1, 2, 9, 10, 11, 99, 100, 255, rng.randrange(256)]) for _ in range(n)]
    if kind in "oy":
        # hand-written ToString (no Display) / Display, each beside a different Debug: the values are the expected labels
        return [("own%d" if kind == "o" else "disp%d") % rng.choice([0, 1, 2, 10, 9, -3, 100, 42]) for _ in range(n)]
    if kind in "pq":
        # prefixes of one text (including the empty one, repeated lengths)
        t = rng.choice(PREFIX_TEXTS)
        cuts = [i for i in range(len(t) + 1) if len(t[:i].encode()) == len(t[:i].encode("utf-8"))]
        return [t[:rng.choice(cuts)] for _ in range(n)]
    if kind in "irde":
        pool = [0, 1, -1, 2, 10, 9, 100, -100, 2**63 - 1, -(2**63), 7, 42]
        return [rng.choice(pool) if rng.random() < 0.7 else rng.randrange(-1000, 1000) for _ in range(n)]
    if kind == "c":
        return [rng.choice(CHARS) for _ in range(n)]
    return [rng.choice(STR_VALS) for _ in range(n)]


def label_of(kind, v):
    if kind == "d":
        return "Dbg(%d)" % v
    if kind == "e":
        return ""
    return str(v)


class Reg:
    """A synthetic registry: benches and groups in list (iteration) order."""

    def __init__(self):
        self.benches = []   # dicts
        self.groups = []
        self.next_id = 0
        self.next_gid = 200

    def new_id(self):
        i = self.next_id
        self.next_id += 1
        assert i < 96   # identities of entries (argument runners exist for 0..95 only)
        return i

    def bench(self, modpath, raw, display=None, opts="-", kind="p", vals=(), line=None, col=1):
        b = dict(id=self.new_id(), modpath=modpath, raw=raw, display=strip_raw(raw) if display is None else display,
                 line=line if line is not None else 10 + len(self.benches) + len(self.groups), col=col, opts=opts,
                 kind=kind, vals=list(vals))
        self.benches.append(b)
        return b

    def group(self, modpath, raw, display=None, opts="-", kind="p", vals=(), generic=None, line=None, col=1):
        gid = self.next_gid
        self.next_gid += 1
        assert gid < 256
        g = dict(id=gid, modpath=modpath, raw=raw, display=strip_raw(raw) if display is None else display,
                 line=line if line is not None else 10 + len(self.benches) + len(self.groups), col=col, opts=opts,
                 kind=kind, vals=list(vals), generic=generic)
        self.groups.append(g)
        return g

    def generic_fn(self, modpath, raw, types=None, consts=None, **kw):
        """rows as the macro lays them out: outer = types (or a single None), inner = consts."""
        if consts is None:
            rows = [[(self.new_id(), t, None) for t in types]]
        else:
            rows = [[(self.new_id(), t, c) for c in consts] for t in (types if types is not None else [None])]
        return self.group(modpath, raw, generic=rows, **kw)

    # ---- serialisation ----
    def item_b(self, b):
        return ",".join(["B", str(b["id"]), enc(b["modpath"]), enc(b["raw"]), enc(b["display"]), str(b["line"]), str(b["col"]),
                         b["opts"], b["kind"], lst(b["vals"]) if b["kind"] != "p" else "-"])

    def item_g(self, g):
        if g["generic"] is None:
            gen = "-"
        elif not g["generic"]:
            gen = "@"
        else:
            rows = []
            for row in g["generic"]:
                if not row:
                    rows.append(".")
                else:
                    rows.append(";".join(
                        "%d~%s~%s" % (i, "-" if t is None else "%d:%s" % (t, enc(TYPE_NAMES[t])),
                                      "-" if c is None else c[0] + enc(str(c[1])))
                        for (i, t, c) in row))
            gen = "/".join(rows)
        return ",".join(["G", str(g["id"]), enc(g["modpath"]), enc(g["raw"]), enc(g["display"]), str(g["line"]), str(g["col"]),
                         g["opts"], g["kind"], lst(g["vals"]) if g["kind"] != "p" else "-", gen])

    def line(self, acts, ign="n", exact=False, pos=(), skip=(), sort="-", threads=()):
        cfg = ",".join(["C", acts, ign, "e" if exact else "r", lst(pos), lst(skip), sort] + ([lst(threads)] if threads else []))
        return " ".join([cfg] + [self.item_b(b) for b in self.benches] + [self.item_g(g) for g in self.groups])

    # ---- approximate display paths (only to aim filters; the model is the reference) ----
    def guess_paths(self):
        gdisp = {}
        for g in self.groups:
            gdisp[(g["modpath"], g["raw"])] = g["display"]

        def mods(modpath):
            comps = modpath.split("::")
            out = []
            for i, c in enumerate(comps):
                out.append(gdisp.get(("::".join(comps[:i]), c), strip_raw(c)))
            return out

        res = []
        for b in self.benches:
            base = "::".join(mods(b["modpath"]) + [b["display"]])
            if b["kind"] == "p":
                res.append(base)
            else:
                res.extend(base + "::" + label_of(b["kind"], v) for v in b["vals"])
        for g in self.groups:
            for row in g["generic"] or []:
                for (_, t, c) in row:
                    comps = mods(g["modpath"]) + [g["display"]]
                    if c is not None:
                        if t is not None:
                            comps.append(type_display(TYPE_NAMES[t]))
                        comps.append(str(c[1]))
                    else:
                        comps.append(type_display(TYPE_NAMES[t]))
                    base = "::".join(comps)
                    if g["kind"] == "p":
                        res.append(base)
                    else:
                        res.extend(base + "::" + label_of(g["kind"], v) for v in g["vals"])
        return res


def rand_opts(rng, p_some=0.5):
    if rng.random() > p_some:
        return "-"
    o = rng.choice(["n", "t", "t", "f", "f"])
    # `threads = []` (present but empty) beside it, now and then
    return o + "e" if rng.random() < 0.2 else o


def rand_const(rng):
    k = rng.choice("iiubcs")
    if k == "i":
        return ("i", rng.choice([0, 1, -1, 2, 10, 100, -5]))
    if k == "u":
        return ("u", rng.choice([0, 1, 2, 10, 64, 1000]))
    if k == "b":
        return ("b", rng.choice(["true", "false"]))
    if k == "c":
        return ("c", rng.choice(["a", "z", "0"]))
    return ("s", rng.choice(["a", "b c", "x::y", "k"]))


def rand_registry(rng, max_items=10, max_args=5, p_args=0.35, p_generic=0.3, p_group=0.5, crate=None):
    """Random module tree of depth <= 4 with shared prefixes, groups with and without custom names / options,
    plain / argument / generic benchmarks; names drawn from small pools so that duplicates and
    collisions (module vs generic function, same display name twice) occur."""
    r = Reg()
    crate = crate or rng.choice(["cr", "cr", "cr", "bench_crate", "r#x"])
    mods = [crate]
    for _ in range(rng.randrange(0, 6)):
        parent = rng.choice(mods)
        if parent.count("::") >= 3:
            continue
        mods.append(parent + "::" + rng.choice(MOD_NAMES))
    n = rng.randrange(1, max_items + 1)
    for _ in range(n):
        k = rng.random()
        modpath = rng.choice(mods)
        custom = rng.random() < 0.25
        if k < p_generic:
            raw = rng.choice(FN_NAMES + MOD_NAMES[:4])
            kind = rng.choice(ALL_KINDS) if rng.random() < p_args else "p"
            vals = gen_args(rng, kind, rng.randrange(0, max_args + 1)) if kind != "p" else []
            shape = rng.random()
            types = rng.sample(range(len(TYPE_NAMES)), rng.randrange(0, 4)) if shape < 0.7 else None
            consts = None
            if shape >= 0.4:
                ck = rand_const(rng)[0]
                consts = []
                for _ in range(rng.randrange(0, 4)):
                    c = rand_const(rng)
                    while c[0] != ck:
                        c = rand_const(rng)
                    consts.append(c)
            if types is None and consts is None:
                types = [0]
            if r.next_id + (len(types or [1]) * len(consts or [1])) >= 90:
                continue
            r.generic_fn(modpath, raw, types=types, consts=consts, display=rng.choice(CUSTOM) if custom else None,
                         opts=rand_opts(rng), kind=kind, vals=vals)
        else:
            raw = rng.choice(FN_NAMES)
            kind = rng.choice(ALL_KINDS) if rng.random() < p_args else "p"
            vals = gen_args(rng, kind, rng.randrange(0, max_args + 1)) if kind != "p" else []
            r.bench(modpath, raw, display=rng.choice(CUSTOM) if custom else None, opts=rand_opts(rng), kind=kind, vals=vals)
    # bench_group modules
    for m in mods[1:]:
        if rng.random() < p_group:
            parent, raw = m.rsplit("::", 1)
            r.group(parent, raw, display=rng.choice(CUSTOM) if rng.random() < 0.4 else None, opts=rand_opts(rng, 0.7))
    # a group nobody lives under / a group for a missing path, now and then
    if rng.random() < 0.1:
        r.group(crate + "::nowhere", "lost", opts="t")
    rng.shuffle(r.benches)
    rng.shuffle(r.groups)
    return r


def rand_filters(rng, reg):
    """(exact, pos, skip): literals aimed at the registry's names and paths."""
    paths = reg.guess_paths()
    atoms = set()
    for p in paths:
        atoms.update(x for x in p.split("::"))
    atoms = sorted(atoms) or ["a"]
    exact = rng.random() < 0.4

    def one():
        if exact:
            return rng.choice(paths) if paths and rng.random() < 0.85 else rng.choice(atoms)
        k = rng.random()
        if k < 0.5:
            return rng.choice(atoms)
        if k < 0.8 and paths:
            p = rng.choice(paths)
            i = rng.randrange(len(p) + 1)
            j = rng.randrange(i, min(len(p), i + 6) + 1)
            return p[i:j]
        return rng.choice(["::", "a", "1", "x", ""])
    pos = [one() for _ in range(rng.choice([0, 0, 1, 1, 2, 3]))]
    skip = [one() for _ in range(rng.choice([0, 0, 0, 1, 1, 2]))]
    return exact, pos, skip
