"""C10 — allocation tallies are exact, per thread, and track the true peak."""
import os

from vp import Stream

DRV = "alloc"
CRATE = "hx-alloc"

RULE = ("tally: operation sequences (a<size> alloc, z<size> alloc_zeroed, d<size> dealloc, r<old>,<new> realloc) applied by "
        "__verif::tally_run to a fresh ThreadAllocInfo; generators: heap-like (a simulated set of live blocks: allocate, "
        "free a live block, reallocate a live block up / down / to the same size / to 0), unbalanced (dealloc-heavy: more "
        "frees than allocations since the clear, random kinds), lengths 0..5000 skewed to short, sizes 0..2^40; plus a "
        "boundary stream outside the no-overflow guard (sizes around 2^63 and 2^64-1, isize::MIN difference) where the debug "
        "build must panic and the release build must wrap exactly as the model says. threads: the same kinds of sequence, with "
        "c = thread_alloc_clear(), driven through a static AllocProfiler<Mock> on 1..8 threads at once (thread 0 is the "
        "harness' main thread, which keeps its slot across cases); each thread's tally is read with thread_alloc_info() and "
        "compared with the model run on a global interleaving projected to that thread. record: a real Bencher run (hook "
        "run_bencher, virtual clock, 1..3 threads, sample_count 1..7, sample size fixed in {1,2,3,5,16} or tuned, thread t "
        "allocating 16*(t+1) bytes per active call through the static AllocProfiler<Mock>, behaviour per thread never / always / "
        "only the first A calls / only after A calls / every M-th call, flavour alloc, alloc+dealloc, alloc+realloc, alloc_zeroed, "
        "dealloc only); the harness reports per round and thread the operations tallied between the crate's TALLY_CLEAR and "
        "TALLY_SNAPSHOT markers and the dump (time_samples.len(), alloc_info_by_sample); the model turns the history into "
        "clear/record operations and must produce the same dump; Sb = every sample has exactly its own thread's snapshot of its own "
        "round iff that snapshot is non-empty (record stream non-trivial = at least 2 threads, some sample with and some without a "
        "record). Non-trivial = at least two different "
        "rows non-zero and a peak that is not the final balance (max count != current count or max size != current size); "
        "distinct by input line.")
ASSUMPTIONS = [
    "64-bit target: usize = u64, ThreadAllocCount = u64, ThreadAllocCountSigned = i64 (condtype Usize64/Isize64)",
    "thread_local! gives each thread its own const-initialised slot (std semantics; exercised by the threads stream, not proved)",
    "non-macOS cfg: ThreadAllocInfo::current() = try_current() and the slot always exists; the macOS pthread-key path is not modelled",
    "the guard no_overflow (operands are usize, number of operations + bytes moved < 2^63) delimits the exactness theorems; "
    "outside it only model = implementation is checked (debug panics / release wraps)",
]
TRUSTED = [
    "record stream: which rounds are tuning rounds (clear before recording) is reconstructed in ocaml/alloc.ml from the observed "
    "per-round sample sizes (all rounds up to the first one at the final size, when no sample size is fixed) - the tuning rule "
    "itself belongs to C19; the per-round per-thread operations come from the harness' own call log",
    "harness/hx-alloc Mock inner allocator (records calls, returns made-up pointers, never touches memory)",
    "divan::__verif::{tally_run, thread_alloc_info, thread_alloc_clear} are plain copies/wrappers of ThreadAllocInfo",
]
CONSTS_USED = []

P40 = 2**40
P63 = 2**63
P64 = 2**64


def size(rng):
    k = rng.random()
    if k < 0.10:
        return 0
    if k < 0.35:
        return rng.randrange(1, 64)
    if k < 0.60:
        return rng.randrange(1, 1 << rng.randrange(1, 21))
    if k < 0.85:
        return rng.randrange(1, 1 << rng.randrange(20, 41))
    return rng.choice([1, 7, 8, 4095, 4096, 4097, 2**20, 2**32 - 1, 2**32, 2**32 + 1, P40 - 1, P40])


def length(rng, tier, maxlen=5000):
    k = rng.random()
    if k < 0.08:
        return rng.randrange(0, 3)
    if k < 0.55:
        return rng.randrange(1, 40)
    if k < 0.85:
        return rng.randrange(40, 600)
    return rng.randrange(600, maxlen + 1)


def heap_like(rng, n, zeroed=False, clears=False):
    """Mostly valid: a simulated heap."""
    live, out = [], []
    for _ in range(n):
        k = rng.random()
        if clears and k < 0.03:
            out.append("c")
            continue
        if not live or k < 0.40:
            s = size(rng)
            live.append(s)
            out.append(("z" if zeroed and rng.random() < 0.3 else "a") + str(s))
        elif k < 0.70:
            s = live.pop(rng.randrange(len(live)))
            out.append("d" + str(s))
        else:
            j = rng.randrange(len(live))
            old = live[j]
            m = rng.random()
            if m < 0.15:
                new = old
            elif m < 0.30:
                new = 0
            elif m < 0.65:
                new = min(old + size(rng), 2 * P40)
            else:
                new = rng.randrange(0, old + 1)
            live[j] = new
            out.append(f"r{old},{new}")
    return out


def unbalanced(rng, n, zeroed=False, clears=False):
    """Dealloc-heavy / arbitrary: frees and reallocations of blocks allocated before the clear."""
    out = []
    pd = rng.choice([0.5, 0.7, 0.9])
    for _ in range(n):
        k = rng.random()
        if clears and k < 0.03:
            out.append("c")
        elif k < pd * 0.8:
            out.append("d" + str(size(rng)))
        elif k < pd:
            a, b = size(rng), size(rng)
            out.append(f"r{max(a, b)},{min(a, b) if rng.random() < 0.7 else 0}")
        elif k < pd + (1 - pd) * 0.6:
            out.append(("z" if zeroed and rng.random() < 0.3 else "a") + str(size(rng)))
        else:
            out.append(f"r{size(rng)},{size(rng)}")
    return out


EDGE = [0, 1, 2, P40, 2**62, P63 - 2, P63 - 1, P63, P63 + 1, P64 - 2, P64 - 1]


def boundary(rng, n):
    """Outside the guard: operands around 2^63 / 2^64."""
    out = []
    for _ in range(n):
        k = rng.random()
        v = lambda: rng.choice(EDGE) if rng.random() < 0.7 else rng.getrandbits(rng.choice([62, 63, 64]))
        if k < 0.3:
            out.append("a" + str(v()))
        elif k < 0.55:
            out.append("d" + str(v()))
        else:
            out.append(f"r{v()},{v()}")
    return out


def load_corpus(mode_prefix):
    d = os.path.join(os.path.dirname(os.path.dirname(os.path.dirname(os.path.abspath(__file__)))), "corpus")
    out = []
    if os.path.isdir(d):
        for f in sorted(os.listdir(d)):
            if f.startswith("C10-" + mode_prefix) and f.endswith(".txt"):
                for line in open(os.path.join(d, f)):
                    line = line.rstrip("\n")
                    if line and not line.startswith("#"):
                        out.append(line)
    return out


def kinds_hist(cases):
    h = {"alloc": 0, "alloc_zeroed": 0, "dealloc": 0, "grow": 0, "shrink": 0, "equal-size realloc": 0, "realloc to 0": 0, "clear": 0,
         "len 0": 0, "len 1-39": 0, "len 40-599": 0, "len 600-5000": 0, "ops total": 0}
    for c in cases:
        n = 0
        for t in c.split(" "):
            if not t or t in ("D", "R", "|"):
                continue
            n += 1
            k = t[0]
            if k == "a":
                h["alloc"] += 1
            elif k == "z":
                h["alloc_zeroed"] += 1
            elif k == "d":
                h["dealloc"] += 1
            elif k == "c":
                h["clear"] += 1
            elif k == "r":
                a, b = t[1:].split(",")
                a, b = int(a), int(b)
                if b == a:
                    h["equal-size realloc"] += 1
                if b == 0:
                    h["realloc to 0"] += 1
                h["shrink" if b < a else "grow"] += 1
        h["ops total"] += n
        h["len 0" if n == 0 else "len 1-39" if n < 40 else "len 40-599" if n < 600 else "len 600-5000"] += 1
    return h


def nontrivial_line(m):
    f = m.split()
    if len(f) != 13 or f[0] != "ok":
        return False
    rows = [(f[1], f[2]), (f[3], f[4]), (f[5], f[6]), (f[7], f[8])]
    nz = sum(1 for c, s in rows if c != "0")
    return nz >= 2 and (f[9] != f[10] or f[11] != f[12])


def nt_tally(c, m):
    return nontrivial_line(m)


def nt_threads(c, m):
    parts = [p.strip() for p in m.split("|")]
    return len(parts) >= 2 and sum(1 for p in parts if nontrivial_line(p)) >= 2


def gen_tally(rng, tier, flag, n):
    cases = []
    fixed = ["", "a0", "d0", "r0,0", "a5 d5 r3,9 r9,9 r9,0 d7", "d1 d1 d1 a1", "a1099511627776 r1099511627776,0 r0,0 d0",
             "r0,1099511627776 r1099511627776,0", "a1 a1 a1 d1 d1 d1 d1 a1", "r5,5", "r7,0 a3", "d1099511627776 a1099511627775"]
    cases += [f"{flag} {c}".rstrip() if c else flag for c in fixed]
    while len(cases) < n:
        ln = length(rng, tier)
        g = heap_like if rng.random() < 0.55 else unbalanced
        cases.append((flag + " " + " ".join(g(rng, ln))).rstrip())
    return cases


def gen_boundary(rng, flag, n):
    fixed = ["a9223372036854775807 a1", "a9223372036854775808", "d9223372036854775808", "r9223372036854775808,0",
             "r0,9223372036854775808", "r0,18446744073709551615", "r18446744073709551615,0", "a18446744073709551615 a1",
             "d1 r9223372036854775808,0", "a9223372036854775807 r0,1", "r2,18446744073709551615",
             "a18446744073709551615 a18446744073709551615", "d18446744073709551615 d18446744073709551615 d2"]
    cases = [f"{flag} {c}" for c in fixed]
    while len(cases) < n:
        cases.append(flag + " " + " ".join(boundary(rng, rng.randrange(1, 12))))
    return cases


def gen_threads(rng, tier, flag, n, maxlen):
    cases = [f"{flag} | a5 c a7 d1 | z3 r3,9 |", f"{flag} | a1 | d4", f"{flag} |", f"{flag} | c | c c | d0"]
    while len(cases) < n:
        t = rng.choice([1, 2, 2, 3, 4, 4, 6, 8, 8])
        ths = []
        for _ in range(t):
            ln = length(rng, tier, maxlen)
            g = heap_like if rng.random() < 0.55 else unbalanced
            ths.append(" ".join(g(rng, ln, zeroed=True, clears=rng.random() < 0.5)))
        cases.append(f"{flag} | " + " | ".join(ths))
    return cases



FLAV = "adrzf"


def gen_record(rng, flag, n):
    """Real Bencher runs: threads, sample count, fixed or tuned sample size, ticks per call, per-thread behaviour."""
    fixed = [
        "t=1 n=3 s=2 step=1000 b=always:a",
        "t=2 n=5 s=0 step=20000 b=first:3:a,never",          # discarded tuning samples non-empty, kept ones empty
        "t=3 n=4 s=0 step=30000 b=first:2:d,every:3:r,after:5:z",
        "t=3 n=6 s=1 step=1000 b=never,always:f,never",
        "t=3 n=7 s=1 step=1000 b=always:a,always:a,always:a",  # every thread non-empty: thread-identifying sizes
        "t=2 n=4 s=0 step=200000 b=never,always:z",           # precision reached at size 1
        "t=3 n=5 s=0 step=3000 b=first:1:a,after:20:r,first:7:f",
        "t=1 n=1 s=0 step=1000 b=first:40:a",
        "t=2 n=2 s=3 step=400 b=never,never",
    ]
    cases = [f"{flag} {c}" for c in fixed]
    while len(cases) < n:
        t = rng.choice([1, 2, 2, 3, 3, 3])
        ns = rng.randrange(1, 8)
        sz = 0 if rng.random() < 0.55 else rng.choice([1, 1, 2, 3, 5, 16])
        step = rng.choice([400, 1000, 3000, 20000, 60000, 200000])
        beh = []
        for _ in range(t):
            k = rng.random()
            f = rng.choice(FLAV)
            if k < 0.25:
                beh.append("never")
            elif k < 0.40:
                beh.append(f"always:{f}")
            elif k < 0.65:
                beh.append(f"first:{rng.randrange(1, 13)}:{f}")
            elif k < 0.85:
                beh.append(f"after:{rng.randrange(1, 41)}:{f}")
            else:
                beh.append(f"every:{rng.randrange(2, 10)}:{f}")
        cases.append(f"{flag} t={t} n={ns} s={sz} step={step} b={','.join(beh)}")
    return cases


def record_hist(cases):
    h = {"1 thread": 0, "2 threads": 0, "3 threads": 0, "tuned": 0, "fixed size": 0, "some thread never allocates": 0,
         "a thread allocates only early (first:A)": 0, "dealloc-only thread": 0}
    for c in cases:
        kv = dict(t.split("=", 1) for t in c.split(" ")[1:])
        h[{"1": "1 thread", "2": "2 threads", "3": "3 threads"}[kv["t"]]] += 1
        h["tuned" if kv["s"] == "0" else "fixed size"] += 1
        if "never" in kv["b"]:
            h["some thread never allocates"] += 1
        if "first:" in kv["b"]:
            h["a thread allocates only early (first:A)"] += 1
        if ":f" in kv["b"]:
            h["dealloc-only thread"] += 1
    return h


def record_model_input(case, impl):
    first = impl.split(" ")[0]
    return case + " " + (first if first.startswith("rounds=") else "rounds=-")


def nt_record(c, m):
    f = dict(t.split("=", 1) for t in m.split(" ") if "=" in t)
    if f.get("rec", "-") == "-":
        return False
    return " t=1 " not in c and len(f["rec"].split(";")) < int(f.get("len", "0"))


def streams(tier, rng):
    q = tier == "quick"
    n_tally = 700 if q else 15000
    n_rel = 300 if q else 8000
    n_bound = 300 if q else 6000
    n_thr = 120 if q else 2400
    n_thr_rel = 60 if q else 1200
    corpus_t = load_corpus("tally")
    corpus_th = load_corpus("threads")
    tally_d = [c for c in corpus_t if c.startswith("D")] + gen_tally(rng, tier, "D", n_tally)
    tally_r = [c for c in corpus_t if c.startswith("R")] + gen_tally(rng, tier, "R", n_rel)
    bound_d = gen_boundary(rng, "D", n_bound)
    bound_r = gen_boundary(rng, "R", n_bound)
    thr_d = [c for c in corpus_th if c.startswith("D")] + gen_threads(rng, tier, "D", n_thr, 5000 if not q else 3000)
    thr_r = [c for c in corpus_th if c.startswith("R")] + gen_threads(rng, tier, "R", n_thr_rel, 5000)

    corpus_rec = load_corpus("record")
    rec_d = [c for c in corpus_rec if c.startswith("D")] + gen_record(rng, "D", 260 if q else 6000)
    rec_r = [c for c in corpus_rec if c.startswith("R")] + gen_record(rng, "R", 120 if q else 3000)

    def thr_hist(cases):
        h = kinds_hist(cases)
        for t in (1, 2, 3, 4, 6, 8):
            h[f"{t} threads"] = sum(1 for c in cases if c.count("|") == t)
        return h

    return [
        Stream("tally-arithmetic-debug", "tally", tally_d, nontrivial=nt_tally, hist=kinds_hist(tally_d)),
        Stream("tally-arithmetic-release", "tally", tally_r, nontrivial=nt_tally, release=True, hist=kinds_hist(tally_r)),
        Stream("tally-overflow-boundary-debug", "tally", bound_d, nontrivial=lambda c, m: m.startswith("panic"),
               hist=kinds_hist(bound_d), describe="outside the no-overflow guard: the debug build panics where the model says Overflow"),
        Stream("tally-overflow-boundary-release", "tally", bound_r, nontrivial=lambda c, m: m.startswith("ok"), release=True,
               hist=kinds_hist(bound_r), describe="outside the guard: the release build wraps exactly as the model"),
        Stream("profiler-threads-debug", "threads", thr_d, nontrivial=nt_threads, hist=thr_hist(thr_d),
               describe="static AllocProfiler<Mock> called directly on 1..8 threads at once; per-thread tallies"),
        Stream("profiler-threads-release", "threads", thr_r, nontrivial=nt_threads, release=True, hist=thr_hist(thr_r)),
        Stream("recording-step-debug", "record", rec_d, nontrivial=nt_record, model_input=record_model_input, hist=record_hist(rec_d),
               describe="real Bencher runs (run_bencher hook, virtual clock) on 1..3 threads, tuned and fixed sample sizes; the "
                        "per-round per-thread tallied operations (from the harness' call log and the crate's TALLY_CLEAR/"
                        "TALLY_SNAPSHOT markers) drive Model/Record.v; time_samples.len() and alloc_info_by_sample compared"),
        Stream("recording-step-release", "record", rec_r, nontrivial=nt_record, model_input=record_model_input, release=True,
               hist=record_hist(rec_r)),
    ]


def shrink(item, rerun):
    """Delta-debugging on the token list (single-thread tally cases and per-thread token lists)."""
    mode, case = item["mode"], item["case"]
    kw = dict(crate=item.get("crate", CRATE), release=item.get("release", False), drv=item.get("drv", DRV))

    def bad(c):
        impl, model, sb = rerun(mode, c, **kw)
        return not sb.startswith("true")

    if not bad(case):
        return item
    if mode == "tally":
        flag, toks = case.split(" ")[0], [t for t in case.split(" ")[1:] if t]
        join = lambda ts: (flag + " " + " ".join(ts)).rstrip()
    elif mode == "threads":
        parts = [p.strip() for p in case.split("|")]
        flag = parts[0]
        # keep the thread structure, shrink the concatenated token list with thread markers
        toks = []
        for i, p in enumerate(parts[1:]):
            toks += [(i, t) for t in p.split(" ") if t]
        nthreads = len(parts) - 1

        def join(ts):
            per = [[] for _ in range(nthreads)]
            for i, t in ts:
                per[i].append(t)
            return flag + " | " + " | ".join(" ".join(p) for p in per)
    else:
        return item
    chunk = max(1, len(toks) // 2)
    budget = 400
    while chunk >= 1 and budget > 0:
        i, changed = 0, False
        while i < len(toks) and budget > 0:
            cand = toks[:i] + toks[i + chunk:]
            budget -= 1
            if bad(join(cand)):
                toks, changed = cand, True
            else:
                i += chunk
        if not changed:
            chunk //= 2
    c = join(toks)
    impl, model, sb = rerun(mode, c, **kw)
    out = dict(item)
    out.update({"case": c, "impl": impl, "model": model, "spec_verdict": sb, "shrunk_from_tokens": len(case.split())})
    return out

MANIFEST = {
    "text": "Coq theorems over all operation sequences (no bound on length), both builds, under the explicit guard no_overflow "
            "(operands are usize; number of operations + bytes moved < 2^63): C10_tally_exact (each of the grow/shrink/alloc/dealloc "
            "rows = number of such operations and exact byte sum, |new-old| for reallocations, equal sizes a 0-byte grow; no panic), "
            "C10_max_is_peak (max count / max size are an upper bound of, and attained by, the live count / live bytes over all "
            "prefixes, empty prefix included, balances in Z so over-deallocation is covered), C10_thread_isolated (for every "
            "interleaving a thread's tally is the one its own events produce), C10_clear_resets, C10_build_independent, plus the "
            "meaning of the boolean specification and model-satisfies-specification; C10_release_exact_mod (release build, no guard: rows "
            "mod 2^64, wrapped balances); C10_record_exact / C10_record_keys_injective / C10_record_clear_forgets (the recording step: "
            "for every sequence of rounds and clears each kept sample is associated with exactly its own thread's snapshot of its own "
            "round iff that is non-empty; distinct (round, thread) have distinct keys; nothing survives a clear). The model (64-bit wrap, overflowing_sub, "
            "wrapping_abs, debug-panic/release-wrap written out) is tied to src/alloc.rs by differential execution: __verif::tally_run "
            "and the real AllocProfiler<Mock> path on 1..8 concurrent threads, debug and release, including operands around 2^63/2^64, "
            "and real Bencher runs on 1..3 threads (tuned and fixed sample sizes) whose alloc_info_by_sample dump is compared with Model/Record.v.",
    "note": "All theorems closed under the global context. Trusted: Coq kernel, extraction, OCaml driver, hooks tally_run / "
            "thread_alloc_info / thread_alloc_clear, harness/hx-alloc, the hand-written model as validated by the correspondence "
            "streams; thread_local! per-thread slots are std semantics (exercised, not proved); macOS pthread-key path and 32-bit "
            "targets not modelled. Outside the guard the theorems claim nothing; only model = implementation is checked there.",
    "technique": "machine-checked proof in Coq (induction over the operation list, lia over N/Z) + differential correspondence "
                 "against the real crate and evaluation of the extracted specification on the implementation's tallies",
}
