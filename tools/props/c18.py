"""C18 — printed durations, sizes and throughputs are truthful truncations."""
import math
import struct
from collections import Counter

from vp import Stream

DRV = "fmt"
CRATE = "hx-fmt"

RULE = ("dur: picosecond values dense (+-3) around every unit boundary, every multiple 1..10,59,60,61,999,1000,9999,10000 of "
        "every unit, 10^k (k=0..38), the fourth significant digit (v*unit/1000 +-1 for v around 1000, 1234, 9999, 10000, 99999), "
        "the 10^4-day switch to the integer path, 2^k and 2^k+-1 for every k<=128 and uniformly random values of every bit "
        "length 1..128; durw: a subset of these x precision {-,0..7} x width {-,0,2,5,9,10,24} (the table uses the default "
        "form only; fine_duration's own tests use .0/.4/<0/<2/<10); durw-overflow: precisions 11..38 where the model predicts "
        "the debug-build u128 overflow (correspondence only); f64/bytes/thr: doubles at every binary exponent -40..80, "
        "decimal fractions, values +-ulp around 1000^k and 1024^k, u64 counts x u128 durations (boundaries and random bit "
        "lengths), zero/inf corners, both byte formats; compared modulo double-precision rounding (the implementation's "
        "string must be the exact rule's string for some rational within relative 2^-50). Non-trivial = the printed number "
        "has a fraction or more integer digits than significant figures, or is a zero/inf corner; distinct by input line.")
ASSUMPTIONS = [
    "f64 Display (Rust std, Grisu/Ryu shortest round-trip, never an exponent) prints n/10^s for an integer n < 10^15 and "
    "s <= 22 as the exact decimal numeral of n/10^s (a decimal with <= 15 significant digits survives the round trip "
    "through binary64 and is the shortest such string); the model renders exactly that (Model/FmtDuration.v f64_display_exact)",
    "for byte sizes and throughputs the floating-point arithmetic is idealised as exact rational arithmetic; the tie to the "
    "code is 'up to double-precision rounding': relative 2^-50 (count as f64, 1e12/picos, the product, the division by the "
    "scale start and the shortest-digits printing each contribute at most 2^-53)",
    "u128::to_string prints the decimal digits (Model/FmtF64.v digits_of)",
    "usize is 64 bits; debug-build overflow checks (the harness is built with overflow-checks = true)",
]
TRUSTED = [
    "table-end-to-end stream: the table parser (harness/hx-fmt/src/e2e.rs), the expected bench set, the resolution of the "
    "configured byte format (builder after from_args > flag > env > builder before config_with_args > decimal) and the "
    "time-cell -> picosecond-interval computation are in ocaml/fmt.ml (not proved); each cell is then judged by the extracted "
    "throughput_sb / bytes_sb / f64_sb_approx",
    "the single float-printing fact above (exercised on every duration case: the Sb for durations is exact)",
    "Scale suffix tables (KB, KiB, ... item/s) are literal in Model/FmtScale.v (not generated); checked by correspondence only",
    "precisions above 7 together with values whose pre-scaled integer reaches 10^15 are outside the model (outcome FInexact); "
    "the table printer uses the default precision only",
]
CONSTS_USED = ["suffix_bytes_decimal", "suffix_bytes_binary", "suffix_chars", "suffix_cycles", "suffix_items", "unit_picos_table", "unit_suffix_table", "fmt_default_sig_figs", "fmt_pico_as_nano_above",
               "scale_starts_decimal", "scale_starts_binary"]
GENERATED_OBLIGATIONS = [
    "C18_unit_table : unit_picos_table = map fst (tl spec_units)",
    "C18_suffix_table : unit_suffix_table = map snd spec_units",
    "C18_default_sig_figs : fmt_default_sig_figs = 4",
    "C18_pico_as_nano : fmt_pico_as_nano_above = 3",
    "C18_starts_decimal : scale_starts_decimal = spec_starts false",
    "C18_starts_binary : scale_starts_binary = spec_starts true",
]

UNITS = [1, 10**3, 10**6, 10**9, 10**12, 60 * 10**12, 3600 * 10**12, 86400 * 10**12]
DAY = UNITS[-1]
U128 = 2**128 - 1


def clamp(xs):
    return [x for x in xs if 0 <= x <= U128]


def dur_boundary():
    out = []
    for u in UNITS:
        for m in (1, 2, 3, 5, 9, 10, 11, 23, 24, 25, 59, 60, 61, 99, 100, 101, 999, 1000, 1001, 9999, 10000, 10001, 99999, 100000):
            for d in range(-3, 4):
                out.append(u * m + d)
        # the fourth significant digit and the digits after it
        for v in (1000, 1001, 1009, 1010, 1099, 1100, 1234, 1999, 2000, 5555, 9990, 9998, 9999, 10000, 10001, 10009, 10010, 12345,
                  12349, 12350, 99989, 99990, 99999, 100000, 100001, 123449, 123450, 123456, 999999, 1000000, 9999999):
            for d in (-1, 0, 1):
                out.append(v * u // 1000 + d)
                out.append(v * u // 10000 + d)
                out.append(v * u // 100 + d)
    for k in range(0, 39):
        for d in range(-3, 4):
            out.append(10**k + d)
    for k in range(0, 12):
        for d in range(-3, 4):
            out.append(DAY * 10**k + d)
    for k in range(0, 129):
        out.extend([2**k - 1, 2**k, 2**k + 1])
    out.extend([0, 1, 2, U128, U128 - 1, 2**127, 2**64 - 1, 2**64 + 1, 2**53 - 1, 2**53, 2**53 + 1])
    return clamp(out)


def dur_random(rng, n):
    out = []
    for i in range(n):
        k = rng.random()
        if k < 0.45:
            out.append(rng.getrandbits(1 + i % 128) | (1 << (i % 128)))
        elif k < 0.75:
            u = rng.choice(UNITS)
            out.append(u * rng.randrange(1, 100000) // rng.choice([1, 10, 100, 1000]) + rng.randrange(-2, 3))
        elif k < 0.9:
            # just below / above the next unit
            j = rng.randrange(1, len(UNITS))
            out.append(UNITS[j] + rng.choice([-1, 1]) * rng.randrange(0, max(2, UNITS[j] // 10**rng.randrange(1, 8))))
        else:
            out.append(rng.randrange(0, DAY * 10**5))
    return clamp(out)


def dedup(xs):
    seen, out = set(), []
    for x in xs:
        if x not in seen:
            seen.add(x)
            out.append(x)
    return out


def bits_of(x):
    return struct.unpack("<Q", struct.pack("<d", x))[0]


def float_cases(rng, n, binary_boundaries):
    vals = [0.0, 1.0, 0.5, 0.1, 0.001, 0.0001, 0.00009999, 0.9999, 0.99999, 9.999, 9.9999, 99.99, 99.999, 999.9, 999.99, 1234.5,
            12345.678, 1e15, 1e16, 1e17, 1e18, 2.0**53, 2.0**64, 1.8446744073709552e19, 1e21, 1e22, 1e23, 1e30, 123.456, 1.0005,
            1.00049, 10.005, 100.05, 1000.5, 5e-324, 1e-300, 1e-7, 1e-10, 4.0e-27, math.inf, math.nan]
    bases = [1000.0**k for k in range(0, 7)] + ([1024.0**k for k in range(1, 7)] if binary_boundaries else [])
    for b in bases:
        lo = b
        hi = b
        for _ in range(3):
            lo = math.nextafter(lo, 0.0)
            hi = math.nextafter(hi, math.inf)
            vals.extend([lo, hi])
        vals.append(b)
        for m in (1.001, 1.0001, 9.999, 9.9999, 99.99, 99.999, 999.9, 999.99, 999.999, 1023.9, 1023.99, 1023.999, 12.345, 1.2345):
            vals.append(b * m)
    while len(vals) < n:
        k = rng.random()
        if k < 0.4:
            e = rng.randrange(-40, 81)
            vals.append(math.ldexp(1.0 + rng.random(), e))
        elif k < 0.7:
            vals.append(rng.randrange(0, 10**rng.randrange(1, 9)) / 10**rng.randrange(0, 7) * 10.0**rng.randrange(0, 16))
        elif k < 0.85:
            vals.append(float(rng.getrandbits(rng.randrange(1, 70))))
        else:
            b = rng.choice(bases)
            vals.append(b * (1 + rng.choice([-1, 1]) * 10.0**-rng.randrange(1, 16)))
    return [v for v in vals if not (v < 0)]


def corpus_lines(name):
    import os
    here = os.path.dirname(os.path.dirname(os.path.dirname(os.path.abspath(__file__))))
    p = os.path.join(here, "corpus", name)
    if not os.path.exists(p):
        return []
    return [l.strip() for l in open(p) if l.strip() and not l.startswith("#")]


def shrink(item, rerun):
    """Durations: zero out low-order digits / divide while the specification still fails."""
    if item.get("mode") != "dur":
        return item
    best = int(item["case"])
    best_out = None
    for _ in range(80):
        cands = []
        s = str(best)
        for k in range(len(s) - 1, 0, -1):
            c = best // 10**k * 10**k
            if c != best:
                cands.append(c)
        cands += [best // 10, best // 2, best - 1]
        for c in cands:
            if c < 0 or c >= best:
                continue
            impl, model, sb = rerun("dur", str(c), crate=item.get("crate", CRATE), release=item.get("release", False), drv=DRV)
            if sb.startswith("false"):
                best, best_out = c, (impl, model, sb)
                break
        else:
            break
    if best_out:
        item = dict(item, case=str(best), impl=best_out[0], model=best_out[1], spec_verdict=best_out[2])
    return item


def streams(tier, rng):
    quick = tier == "quick"
    # ---- durations (exact) ------------------------------------------------
    corpus = [int(l.split()[0]) for l in corpus_lines("C18-dur.txt")]
    dur_vals = dedup(corpus + dur_boundary() + dur_random(rng, 2500 if quick else 200000))
    dur = [str(p) for p in dur_vals]

    def unit_of(p):
        j = 0
        for i, u in enumerate(UNITS):
            if p >= u:
                j = i
        return j
    hist_dur = Counter("unit%d" % unit_of(p) for p in dur_vals)
    hist_dur.update("bits>=%d" % (p.bit_length() // 32 * 32) for p in dur_vals)

    sample = dedup(dur_boundary()[:: (37 if quick else 3)] + dur_random(rng, 150 if quick else 5000) + [0, 1, 999, 1000, U128, DAY * 10**4 - 1,
                                                                                                         DAY * 10**4, DAY - 1, DAY])
    precs = ["-", "0", "1", "2", "3", "4", "5", "6", "7"]
    widths = ["-", "0", "2", "5", "9", "10", "24"]
    durw = []
    for i, p in enumerate(sample):
        for pr in precs:
            durw.append(f"{p} {pr} {widths[(i + len(durw)) % len(widths)]}")
    for p in (0, 1, 1000, 1234567, DAY, U128):
        for pr in ("-", "0", "4"):
            for w in widths:
                durw.append(f"{p} {pr} {w}")
    durw = list(dict.fromkeys(durw))
    # debug-build overflow of `picos * multiple` for large precisions: correspondence only
    durov = []
    for pr in range(11, 39):
        m = 10**pr
        lo = -(-2**128 // m)          # least p with p * m >= 2^128
        for p in (lo, lo + 1, min(U128, DAY * m - 1) if DAY * m - 1 >= lo else lo, (lo + min(U128, DAY * m - 1)) // 2):
            if lo <= p <= U128 and p < DAY * m:
                durov.append(f"{p} {pr} -")
    durov = list(dict.fromkeys(durov))

    # ---- floats ------------------------------------------------------------
    nf = 1200 if quick else 60000
    f64c, bytesc = [], corpus_lines("C18-bytes.txt")
    sigs = [4, 4, 4, 4, 0, 1, 2, 3, 5, 6, 7, 8, 12, 17, 20]
    for i, v in enumerate(float_cases(rng, nf, False)):
        f64c.append(f"{bits_of(v)} {sigs[i % len(sigs)]}")
    for i, v in enumerate(float_cases(rng, nf, True)):
        bytesc.append(f"{bits_of(v)} {sigs[(i // 2) % len(sigs)]} {i % 2}")
    f64c = list(dict.fromkeys(f64c))
    bytesc = list(dict.fromkeys(bytesc))

    cnts = [0, 1, 2, 3, 7, 10, 999, 1000, 1001, 1023, 1024, 1025, 10**6, 2**20, 10**9, 2**30, 10**12, 2**32 - 1, 2**32, 2**53 - 1, 2**53,
            2**53 + 1, 10**18, 2**63, 2**64 - 1]
    pics = [0, 1, 2, 3, 999, 1000, 1001, 10**6, 10**9, 10**12 - 1, 10**12, 10**12 + 1, 3 * 10**12, 7 * 10**12, 60 * 10**12, 2**53, 2**64,
            10**24, 2**100, 2**127, U128]
    thr = corpus_lines("C18-thr.txt")
    for c in cnts:
        for p in pics:
            thr.append(f"{(len(thr)) % 4} {c} {p} {(len(thr) // 4) % 2}")
    nt = 1500 if quick else 80000
    while len(thr) < nt + len(cnts) * len(pics):
        k = rng.random()
        c = rng.choice(cnts) if k < 0.2 else rng.getrandbits(rng.randrange(1, 65))
        p = rng.choice(pics) if rng.random() < 0.15 else rng.getrandbits(rng.randrange(1, 129 if rng.random() < 0.3 else 60))
        if rng.random() < 0.25 and c:
            # make count/second land next to a prefix boundary: picos = count * 10^12 / target
            base = rng.choice([1000, 1024])
            target = base ** rng.randrange(0, 6) * rng.choice([1, 1, 10, 100, 999, 1023])
            p = max(1, c * 10**12 // target + rng.randrange(-1, 2))
        thr.append(f"{rng.randrange(4)} {c} {p} {rng.randrange(2)}")
    thr = list(dict.fromkeys(thr))

    def nt_num(c, m):
        if not m.startswith("ok ["):
            return False
        num = m[4:].split(" ")[0]
        return "." in num or len(num) > 4 or num in ("0", "inf")

    with_impl = lambda case, impl: case + "\t" + impl
    sts = [
        Stream("duration-display", "dur", dur, nontrivial=nt_num, hist=dict(hist_dur)),
        Stream("duration-precision-width", "durw", durw, nontrivial=nt_num,
               hist=dict(Counter("prec=" + c.split()[1] for c in durw))),
        Stream("duration-large-precision-overflow", "durw", durov, sb=False, nontrivial=lambda c, m: m.startswith("panic")),
        Stream("format_f64", "f64", f64c, model_input=with_impl, nontrivial=nt_num,
               hist=dict(Counter("sig=" + c.split()[1] for c in f64c))),
        Stream("format_bytes", "bytes", bytesc, model_input=with_impl, nontrivial=nt_num,
               hist=dict(Counter("binary=" + c.split()[2] for c in bytesc))),
        Stream("display_throughput", "thr", thr, model_input=with_impl, nontrivial=nt_num,
               hist=dict(Counter("kind=" + c.split()[0] for c in thr))),
    ]
    # ---- throughput with explicit precision / width (the precision is significant figures, never a maximum length)
    thrw = []
    tprecs = ["-", "0", "1", "2", "3", "4", "5", "6"]
    twidths = ["-", "0", "3", "8", "13", "24", "40"]
    base = [c for c in thr if c.split()[1] != "0" and c.split()[2] != "0"]
    for i, c in enumerate(base[:: (6 if quick else 1)]):
        thrw.append(f"{c} {tprecs[i % len(tprecs)]} {twidths[(i // len(tprecs)) % len(twidths)]}")
    for c in ("3 1234 1000000000 0", "0 1048576 1000000 1", "1 0 5 0", "2 7 0 0", "3 0 0 1", "0 1500 1000000000000 0"):
        for pr in tprecs:
            for w in twidths:
                thrw.append(f"{c} {pr} {w}")
    thrw = list(dict.fromkeys(thrw))
    sts.append(Stream("display_throughput-precision-width", "thrw", thrw, model_input=with_impl, nontrivial=nt_num,
                      hist=dict(Counter("prec=" + c.split()[4] + ",width=" + c.split()[5] for c in thrw))))

    # ---- end to end: process arguments / environment / builder -> config_with_args -> run -> printed table
    e2e = []
    for rep in range(2 if quick else 12):
        for api in ("main", "builder-binary", "builder-decimal", "pre-binary", "pre-decimal"):
            for flag in ("-", "decimal", "binary"):
                for envv in ("-", "decimal", "binary"):
                    e2e.append(f"{api} {flag} {envv}")
        # several runners with different formats in ONE process: each table in its own runner's format
        for seq in ("bd", "db", "bb", "dd", "bdb", "dbd", "ddb", "bbd"):
            e2e.append(f"seq-{seq} - -")
    sts.append(Stream("table-end-to-end", "e2e", e2e, model_input=with_impl,
                      nontrivial=lambda c, m: m.startswith("ok ") and "0 item/s" in m and ("iB" in m or "KB" in m),
                      hist=dict(Counter("api=" + c.split()[0].split("-")[0] for c in e2e)),
                      describe="real child process of hx-fmt with 7 #[divan::bench] functions (1 MiB copy with BytesCount, zero "
                               "Items/Bytes/Chars/Cycles counters alone and beside a non-zero one, empty inputs with input_counter, "
                               "one 2048-byte allocation under AllocProfiler, 1500 items); the byte format is given by --bytes-format, "
                               "DIVAN_BYTES_FORMAT, Divan::bytes_format before or after config_with_args, or by two/three runners with different "
                               "formats run one after the other in one process (each table judged with its own runner's format); every throughput cell must be "
                               "the model's display_throughput(kind, count, p, configured format) for a p in the interval of picosecond "
                               "values that print as the time cell of the same column, zero counts must print their `0 <unit>` row, "
                               "alloc sizes must be format_bytes(2048, 4, configured format)"))
    if not quick:
        sts.append(Stream("table-end-to-end-release", "e2e", e2e[:90], model_input=with_impl, release=True))
        sts.append(Stream("duration-display-release", "dur", dur[::4], nontrivial=nt_num, release=True))
        sts.append(Stream("display_throughput-release", "thr", thr[::4], model_input=with_impl, nontrivial=nt_num, release=True))
    return sts

MANIFEST = {
    "text": "Coq theorems: for every picosecond value (all of N, so all of u128) Display of FineDuration equals the numeral of "
            "p/unit truncated toward zero to max(0, 4-d) places + ' ' + suffix, with the unit the largest of ps..d not above p "
            "(ns below 1 ns), integer digits in full, no trailing zeros, no exponent; never panics, the u128 product never "
            "overflows and the integer handed to f64 stays below 10^15 < 2^53; the same for precisions 0..7 and any width; the "
            "scaled rule for byte sizes/throughputs over exact rationals with 1000^k / 1024^k prefixes, zero count -> 0, zero "
            "duration -> inf, no panic. The boolean specifications are parse-based, proved equivalent to the specification "
            "strings, and evaluated on the implementation's outputs: exactly for durations, modulo relative 2^-50 for the "
            "float paths. The unit table, suffixes, default precision, ps->ns threshold and both prefix tables are generated "
            "from the source and tied to the property's tables by reflexivity obligations.",
    "note": "Trusted: Coq kernel, extraction, OCaml driver, hooks fmt_duration(_with)/format_f64/format_bytes/display_throughput, "
            "and one fact about Rust's float printing (n/10^s with n < 10^15, s <= 22 prints as its exact decimal numeral), "
            "exercised on every duration case. Float arithmetic of the byte/throughput path is idealised as exact in the "
            "theorems and tied to the code up to double-precision rounding by the correspondence check. Precisions above 7 "
            "(not used by divan's table) are outside the theorems: the code's u128 product overflows from precision 11 on.",
    "technique": "machine-checked proof in Coq (list/numeral lemmas, lia over N) + differential correspondence against the real crate "
                 "+ generated-constant obligations",
}
