"""C20 — the printed tree is a faithful, well-formed picture of what ran."""
import collections

from vp import Stream

DRV = "paint"
CRATE = "hx-paint"

RULE = ("tree: one process per case. A case is an action (bench under the virtual clock with --sample-size 1 / test / list), "
        "whether AllocProfiler is active, and a tree (depth <= 5, fan-out <= 6, <= 45 nodes) of groups (with or without a "
        "GroupEntry / sample_count) and benchmarks (plain or 1-6 argument cases, thread counts from {-,1,2,(1,2),(2,4),(1,2,16)...}, "
        "ignored or not, bencher used or not, per-call virtual cost from 1 ps to 10 s, any subset of bytes/chars/items counters, "
        "allocation size 0 or 1..10^6) with names of varying width incl. non-ASCII and wide characters, spaces, digits, empty. "
        "The harness builds the registry the macros would generate, runs divan::main() with --sort location and records each "
        "benchmark call; expected cells are computed by the harness from its own record via stats_from_samples and the crate's "
        "formatters. Compared: whole stdout, byte for byte, with the model's rendering; Sb: stdout parses (indentation, glyphs, bars, "
        "row attachment validated) to the skeleton of the tree that ran with exactly these cells, and the recorded calls are exactly "
        "the non-ignored (argument x thread count) runs in order. Non-trivial = at least 3 nodes and model output ok; distinct by case. "
        "Bench cases also vary where the bytes format is set (--bytes-format, DIVAN_BYTES_FORMAT, Divan::bytes_format before / after "
        "config_with_args(), or nowhere); the expected byte throughputs and allocation sizes are computed for the format that should be "
        "in force (builder after parsing > flag > environment > builder before parsing > decimal). "
        "The 'filtered' stream adds positional and --skip filters (with and without --exact) that remove a strict non-empty subset of a "
        "benchmark's argument cases (last declared, middle, first, all but one) and whole benchmarks/groups; the generator evaluates "
        "FilterSet::is_match on every display path and hands the model the surviving tree. "
        "The 'odd-names' stream (double/trailing spaces, box-drawing characters inside names) is outside names_ok: compared, not Sb-checked.")
ASSUMPTIONS = [
    "the tree handed to the painter is the filtered, sorted tree with options resolved per leaf (C13, C15, C16); the harness fixes the order with --sort location",
    "statistics cells are opaque strings for the painter model; their values come from the harness's own record of the run (C05/C18 are about the values)",
    "module_path.split(\"::\") always yields at least one component, so every top-level node is a group",
    "names_ok: no newline, no box-drawing character (U+2500 U+2502 U+251C U+2570), no two consecutive spaces, no trailing space; top-level names non-empty and not starting with a space",
]
TRUSTED = [
    "harness/hx-paint: synthetic registry built like the macro expansion, switchable AllocProfiler wrapper, run records; ocaml/paint.ml (UTF-8 decoding, case parsing)",
    "glyph strings and column headings are written into Model/Painter.v by hand and tied to the code by the byte-for-byte stdout comparison",
]
CONSTS_USED = ['glyph_branch', 'glyph_bar_unit', 'max_common_column_width']

WORDS = ["a", "b", "x", "io", "add", "sub", "sort", "parse", "alloc_vec", "hash_map", "with space", "two words here", "日本語", "ñandú",
         "émoji🙂", "ΑΒΓ", "ｗｉｄｅ", "snake_case_name", "CamelCase", "a_rather_long_benchmark_name_that_widens", "x" * 40,
         "0", "1", "2", "10", "16", "100", "-5", "1.5", "1e3", "Vec<u8>", "&str", "(a, b)", "t=1", "r", "q#x", "(ignored)", "max alloc:"]
ODD = ["a  b", "trail ", " lead", "│", "├─ x", "╰─", "a │ b", "  ", "x  (ignored)", "─", "tab\tx"]
# raw lists as an array literal in the attribute would give them: unsorted, with repeats, 0 = the machine's
# parallelism, P = that parallelism written out (the harness probes it and tells the model)
THREADS = ["-", "-", "-", "1", "2", "1,2", "1,2", "2,4", "1,2,16", "1,3", "1,2,4",
           "0", "0,1,2", "2,0,1,2", "0,P", "P,0", "2,1", "2,2,1", "0,0", "1,0", "4,2,0,2", "P,1,P"]


def enc(s):
    out = []
    for b in s.encode("utf-8"):
        c = chr(b)
        if c.isalnum() and b < 128 or c in "_.-":
            out.append(c)
        else:
            out.append("%%%02X" % b)
    return "~" + "".join(out)


class Gen:
    def __init__(self, rng, odd=False):
        self.rng = rng
        self.odd = odd
        self.id = 0
        self.nodes = 0
        self.feat = collections.Counter()

    def name(self, top=False, plain_group=False):
        r = self.rng
        while True:
            if self.odd and r.random() < 0.35:
                n = r.choice(ODD)
            elif r.random() < 0.04 and not top and not plain_group:
                n = ""
            elif r.random() < 0.15:
                n = r.choice(WORDS) + r.choice(["_", " ", "-", ""]) + r.choice(WORDS)
            else:
                n = r.choice(WORDS)
            if plain_group and (":" in n or n.startswith("r#") or n == ""):
                continue
            if top and (n == "" or n[0] == " "):
                continue
            if not self.odd and ("  " in n or n.endswith(" ")):
                continue
            return n

    def bench(self, action):
        r = self.rng
        self.id += 1
        self.nodes += 1
        name = self.name()
        ign = r.random() < 0.12
        threads = r.choice(THREADS)
        # thread lists containing 0 / P / 16 start that many real threads per sample: keep them to about a tenth
        # of the benchmarks (each form still occurs in every run and in the corpus) so that the quick tier stays
        # fast on a loaded or smaller machine
        big = any(t in ("0", "P", "16") for t in threads.split(","))
        if big and r.random() < 0.8:
            threads = r.choice([t for t in THREADS if not any(x in ("0", "P", "16") for x in t.split(","))])
            big = False
        counters = [k + str(r.choice([1, 3, 64, 1000, 1024, 10**6, 123456789])) for k in "bci" if r.random() < 0.25]
        args = "P"
        if r.random() < 0.3:
            k = r.choice([1, 1, 2, 2, 3, 4, 6])
            names = [self.name() for _ in range(k)]
            args = "A%d %s" % (k, " ".join(enc(n) for n in names))
            self.feat["args"] += 1
        if not ign and threads == "-" and not counters and r.random() < 0.3:
            sc = "-"
        else:
            sc = r.choice(["d", "1", "2", "3", "5", "7", "10", "12", "100", "1000"]) if action == "bench" else r.choice(["d", "1", "3", "100"])
            if big:
                sc = r.choice(["1", "2", "3", "5"])
        mag = r.choice([1, 7, 50, 999, 1000, 12345, 10**6, 10**9, 5 * 10**11, 10**13])
        lo = max(1, mag)
        span = r.choice([1, 1, 2, 7, max(1, lo // 3), lo])
        did = 0 if r.random() < 0.06 else 1
        alloc = r.choice([0, 0, 1, 8, 64, 4096, 10**6])
        if ign:
            self.feat["ignored"] += 1
        if threads not in ("-", "1", "2", "0", "0,0", "0,P", "P,0"):
            self.feat["thread-branches"] += 1
        if "0" in threads.split(","):
            self.feat["threads-with-0"] += 1
        if threads != "-" and threads.split(",") != sorted(set(threads.split(",")), key=lambda x: (x == "P", x)):
            self.feat["threads-unsorted-or-repeated"] += 1
        if counters:
            self.feat["counters"] += 1
        if alloc:
            self.feat["allocating"] += 1
        if not did:
            self.feat["bencher-unused"] += 1
        beh = "%d:%d:%d:%d:%s:%d" % (did, r.randrange(1000), lo, span, "+".join(counters) or "-", alloc)
        return "B %d %s %s %d %s %s %s" % (self.id, enc(name), sc, 1 if ign else 0, args, threads, beh)

    def group(self, action, depth, maxdepth, budget, top=False, used=None):
        r = self.rng
        self.nodes += 1
        # a top-level parent never gets a GroupEntry (insert_group needs a non-empty module path)
        sc = "-" if top else r.choice(["-", "-", "-", "o", "d", "5", "100", "1000", "12345"])
        while True:
            name = self.name(top=top, plain_group=(sc == "-"))
            if sc != "-" or used is None or name not in used:
                break
        if used is not None and sc == "-":
            used.add(name)
        k = r.choice([1, 1, 2, 2, 3, 3, 4, 6])
        kids = []
        mine = set()
        for _ in range(k):
            if self.nodes >= budget:
                break
            if depth + 1 < maxdepth and r.random() < 0.4:
                kids.append(self.group(action, depth + 1, maxdepth, budget, used=mine))
            else:
                kids.append(self.bench(action))
        if not kids:
            kids.append(self.bench(action))
        return "G %s %s %d %s" % (enc(name), sc, len(kids), " ".join(kids))

    def case(self):
        r = self.rng
        action = r.choice(["bench", "bench", "test", "list"])
        prof = "p1" if (action == "bench" and r.random() < 0.5) else "p0"
        maxdepth = r.choice([1, 2, 3, 4, 5])
        budget = r.choice([3, 8, 15, 30, 45])
        ntop = r.choice([1, 1, 1, 2, 3])
        used = set()
        tops = [self.group(action, 0, maxdepth, budget + 2 * i, top=True, used=used) for i in range(ntop)]
        self.feat["action=" + action] += 1
        self.feat["profiler"] += prof == "p1"
        self.feat["maxdepth=%d" % maxdepth] += 1
        tail = ""
        if action == "bench" and r.random() < 0.5:
            # where the bytes format is set: --bytes-format, DIVAN_BYTES_FORMAT, builder before / after config_with_args()
            f = [r.choice("-----db") for _ in range(4)]
            if r.random() < 0.4:
                f = ["-", "-", r.choice("bbd"), "-"]        # builder only, nothing on the command line or in the environment
            if f != ["-"] * 4:
                tail = " F " + ":".join(f)
                self.feat["bytes-format-set"] += 1
                self.feat["bytes-format-builder-only"] += f[0] == "-" and f[1] == "-" and f[3] == "-"
        if r.random() < 0.08:
            tail += " T " + r.choice([t for t in THREADS if t != "-"])
            self.feat["--threads"] += 1
        return "%s %s N %d %s%s" % (action, prof, len(tops), " ".join(tops), tail)


def corpus_cases():
    import glob
    import os
    out = []
    root = os.path.dirname(os.path.dirname(os.path.dirname(os.path.abspath(__file__))))
    for p in sorted(glob.glob(os.path.join(root, "corpus", "C20-*.txt"))):
        for line in open(p, encoding="utf-8"):
            line = line.rstrip("\n")
            if line and not line.startswith("#"):
                out.append(line)
    return out


def cmp_tree(impl, model):
    return impl.split(" @@ ")[0] == model


def model_input(case, impl):
    parts = impl.split(" @@ ")
    return case + " @@ " + (parts[1] if len(parts) > 1 else "?")


def nontrivial(case, model):
    return model.startswith("ok ") and (case.count(" B ") + case.count(" G ")) >= 3


def streams(tier, rng):
    n = 700 if tier == "quick" else 20000
    g = Gen(rng)
    cases = corpus_cases()
    seen = set(cases)
    while len(cases) < n:
        g.id = 0
        g.nodes = 0
        c = g.case()
        if c not in seen:
            seen.add(c)
            cases.append(c)
    go = Gen(rng, odd=True)
    odd = []
    while len(odd) < n // 5:
        go.id = 0
        go.nodes = 0
        odd.append(go.case())
    gf = Gen(rng)
    filtered = [c for c in corpus_cases() if " X " in c]
    seenf = set(filtered)
    tries = 0
    while len(filtered) < (200 if tier == "quick" else 6000) and tries < 200000:
        tries += 1
        gf.id = 0
        gf.nodes = 0
        base = gf.case()
        action, prof, tops, _ = _parse(base)
        flt = gen_filters(rng, tops)
        c = _ser(action, prof, tops, flt)
        d = c.rsplit(" D ", 1)[1].split(" ")
        if int(d[0]) == 0 or c in seenf:
            continue
        seenf.add(c)
        filtered.append(c)
        gf.feat["exact" if flt[0] else "regex"] += 1
        gf.feat["skip"] += any(not inc for inc, _ in flt[1])
        gf.feat["positional"] += any(inc for inc, _ in flt[1])
        gf.feat["argument-case-dropped"] += any(":" in k for k in d[1:])
        gf.feat["whole-benchmark-dropped"] += any(":" not in k for k in d[1:])
    cases = [c for c in cases if " X " not in c]
    return [
        Stream("tree-stdout-filtered", "tree", filtered, compare=cmp_tree, nontrivial=nontrivial, model_input=model_input,
               hist=dict(gf.feat), impl_timeout=900,
               describe="filters at argument granularity: --skip / positional, --exact / regex; the model takes the tree after retain"),
        Stream("tree-stdout", "tree", cases, compare=cmp_tree, nontrivial=nontrivial, model_input=model_input,
               hist=dict(g.feat), impl_timeout=900),
        Stream("tree-stdout-odd-names", "tree", odd, compare=cmp_tree, nontrivial=nontrivial, model_input=model_input,
               sb=False, hist=dict(go.feat), impl_timeout=900),
    ]


MANIFEST = {
    "text": "Coq theorems over a model of TreePainter (start/finish parent and leaf, ignore_leaf, the row writer with widths and the growing name span, output as code-point strings with the real glyphs) and of the driver (run_tree / run_bench_entry / run_bench with argument cases and thread-count branches, max_name_span, common_column_width): for ANY operation sequence the prefix is one 3-column unit per open non-top-level parent, a bar iff it was opened with is_last=false; the driver never panics and closes what it opens; for ALL trees every output line is the line demanded by the layout of the expected picture (units = ancestors with later siblings, branch/corner glyph = not-last/last, rows under their node with its bars and no glyph, blank line after each top-level group), the node lines are the picture's nodes once each in depth-first order, the text parses back (validating parser) to exactly the tree's skeleton under a stated decidable names/cells condition, ignored entries paint (ignored) and are not called, and the calls made are exactly one per non-ignored argument case and thread count. The model is tied to the code by byte-for-byte comparison of whole-process stdout (synthetic registry, virtual clock, all three actions, AllocProfiler on/off) and the same boolean specification is evaluated on the real stdout with cells computed by the harness from its own record of each run.",
    "note": "Trusted: Coq kernel, extraction, ocaml/paint.ml (UTF-8, case parsing), harness/hx-paint (registry built like the macro expansion; expected cells via __verif::stats_from_samples + the crate's formatters), hooks H1-H3. Input to the model is the filtered, sorted tree with resolved options (C13/C15/C16); cell values are opaque to the painter (C05/C18). Glyphs/headings are hand-copied constants checked by the stdout comparison. Prop-level spec definitions (line_ok, track, wf_node) live in Proofs/Paint*.v.",
    "technique": "machine-checked proof in Coq (structural induction over trees and operation sequences, recursive-descent parser with validation) + differential correspondence on whole-process stdout against the real crate",
}


# ---- shrinking: drop top-level groups / children, simplify benchmarks, while the specification still fails ----

def undec(tok):
    b = tok.encode("ascii")[1:]
    out = bytearray()
    i = 0
    while i < len(b):
        if b[i] == 0x25:
            out.append(int(b[i + 1:i + 3], 16))
            i += 3
        else:
            out.append(b[i])
            i += 1
    return out.decode("utf-8")


def _parse(case):
    """-> action, prof, tops, (exact, [(inclusive, text)]) ; the D section is recomputed, never read."""
    t = case.split(" ")
    pos = [0]

    def nxt():
        pos[0] += 1
        return t[pos[0] - 1]

    def node():
        k = nxt()
        if k == "G":
            name, sc, n = nxt(), nxt(), int(nxt())
            return ["G", name, sc, [node() for _ in range(n)]]
        bid, name, sc, ign, a = nxt(), nxt(), nxt(), nxt(), nxt()
        args = None if a == "P" else [nxt() for _ in range(int(a[1:]))]
        return ["B", bid, name, sc, ign, args, nxt(), nxt()]

    action, prof = nxt(), nxt()
    assert nxt() == "N"
    tops = [node() for _ in range(int(nxt()))]
    flt = None
    mid = []
    while pos[0] < len(t) and t[pos[0]] in ("F", "T"):     # bytes format, --threads: travel with the profile flag through _ser
        mid += [nxt(), nxt()]
    if mid:
        prof = prof + "|" + " ".join(mid)
    if pos[0] < len(t) and t[pos[0]] == "X":
        nxt()
        exact = nxt() == "e"
        k = int(nxt())
        flt = (exact, [(f[0] == "+", undec(f[1:])) for f in (nxt() for _ in range(k))])
    return action, prof, tops, flt


def leaf_paths(tops):
    """(key, display path) of everything EntryTree::retain asks the filter about."""
    out = []

    def walk(prefix, n):
        name = undec(n[1] if n[0] == "G" else n[2])
        path = name if prefix is None else prefix + "::" + name
        if n[0] == "G":
            for c in n[3]:
                walk(path, c)
        elif n[5] is None:
            out.append((n[1], path))
        else:
            for i, a in enumerate(n[5]):
                out.append(("%s:%d" % (n[1], i), path + "::" + undec(a)))

    for n in tops:
        walk(None, n)
    return out


def is_match(flt, path):
    """FilterSet::is_match: a matching --skip filter wins; otherwise a matching positional filter, or no positional filters at all."""
    import re
    exact, filters = flt

    def m(text):
        return text == path if exact else re.search(text, path) is not None

    if any(m(text) for inc, text in filters if not inc):
        return False
    incs = [text for inc, text in filters if inc]
    return (not incs) or any(m(text) for text in incs)


def filter_tail(tops, flt):
    if flt is None:
        return ""
    exact, filters = flt
    drops = [k for k, pth in leaf_paths(tops) if not is_match(flt, pth)]
    return " X %s %d %s D %d %s" % ("e" if exact else "r", len(filters),
                                    " ".join(("+" if inc else "-") + enc(text) for inc, text in filters),
                                    len(drops), " ".join(drops))


def _ser(action, prof, tops, flt=None):
    def s(n):
        if n[0] == "G":
            return "G %s %s %d %s" % (n[1], n[2], len(n[3]), " ".join(s(c) for c in n[3]))
        a = "P" if n[5] is None else "A%d %s" % (len(n[5]), " ".join(n[5]))
        return "B %s %s %s %s %s %s %s" % (n[1], n[2], n[3], n[4], a, n[6], n[7])
    prof, _, cli = prof.partition("|")
    return ("%s %s N %d %s" % (action, prof, len(tops), " ".join(s(x) for x in tops))
            + (" " + cli if cli else "") + filter_tail(tops, flt)).rstrip()


def rx_escape(text):
    return "".join("\\" + c if c in "\\.+*?()|[]{}^$#&-~" else c for c in text)


def gen_filters(rng, tops):
    """Filters (one mode per case: --exact or regex) that remove a strict, non-empty subset of some
    benchmark's argument cases (last declared / middle / first / all but one), sometimes also whole
    benchmarks or groups, written as --skip or as positional filters."""
    paths = leaf_paths(tops)
    by_bench = collections.OrderedDict()
    for k, pth in paths:
        by_bench.setdefault(k.split(":")[0], []).append((k, pth))
    multi = [v for v in by_bench.values() if len(v) >= 2]
    exact = rng.random() < 0.5
    filters = []

    def lit(pth):
        if exact:
            return pth
        r = rng.random()
        if r < 0.5:
            return "^" + rx_escape(pth) + "$"
        if r < 0.8 and "::" in pth:          # a regex on the tail
            return "::" + rx_escape(pth.rsplit("::", 1)[1]) + "$"
        return rx_escape(pth) + "$"

    dropped = set()
    if multi:
        for v in rng.sample(multi, min(len(multi), rng.choice([1, 1, 2]))):
            n = len(v)
            how = rng.choice(["last", "last", "middle", "first", "all-but-one", "random"])
            if how == "last":
                idx = [n - 1]
            elif how == "middle":
                idx = [n // 2] if n > 2 else [0]
            elif how == "first":
                idx = [0]
            elif how == "all-but-one":
                keep = rng.randrange(n)
                idx = [i for i in range(n) if i != keep]
            else:
                idx = sorted(rng.sample(range(n), rng.randrange(1, n)))
            dropped.update(v[i][1] for i in idx)
    singles = [v[0][1] for v in by_bench.values()]
    if rng.random() < 0.35 and len(singles) > 1:
        dropped.add(rng.choice(singles))           # a whole plain benchmark (or a one-argument one)
    if not dropped:
        dropped.add(rng.choice(paths)[1])
    if rng.random() < 0.6:
        filters = [(False, lit(p)) for p in sorted(dropped)]
        if not exact and rng.random() < 0.25 and len(tops) + sum(len(n[3]) for n in tops if n[0] == "G") > 2:
            g = rng.choice([n for n in tops])      # skip a whole top-level group by prefix
            if len(tops) > 1:
                filters.append((False, "^" + rx_escape(undec(g[1])) + "::"))
    else:
        keep = [p for _, p in paths if p not in dropped]
        if not keep:
            keep = [paths[0][1]]
        if not exact and rng.random() < 0.3:
            # keep whole top-level groups by prefix and skip the chosen cases
            filters = [(True, "^" + rx_escape(undec(n[1])) + "::") for n in tops if rng.random() < 0.8] or [(True, "::")]
            filters += [(False, lit(p)) for p in sorted(dropped)]
        else:
            filters = [(True, lit(p)) for p in keep]
    return (exact, filters)


def _variants(tops):
    import copy

    def walk(path_nodes, lst):
        for i, n in enumerate(lst):
            if len(lst) > 1:
                yield ("del", path_nodes + [i])
            if n[0] == "G":
                yield from walk(path_nodes + [i], n[3])
            else:
                if n[5] is not None and len(n[5]) > 1:
                    yield ("arg", path_nodes + [i])
                if n[5] is not None:
                    yield ("plain", path_nodes + [i])
                if n[6] != "-":
                    yield ("thr", path_nodes + [i])
                b = n[7].split(":")
                if b[4] != "-" or b[5] != "0":
                    yield ("beh", path_nodes + [i])

    for kind, path in list(walk([], tops)):
        new = copy.deepcopy(tops)
        lst = new
        for i in path[:-1]:
            lst = lst[i][3]
        i = path[-1]
        if kind == "del":
            del lst[i]
        elif kind == "arg":
            lst[i][5] = lst[i][5][:1]
        elif kind == "plain":
            lst[i][5] = None
        elif kind == "thr":
            lst[i][6] = "-"
        elif kind == "beh":
            b = lst[i][7].split(":")
            b[4], b[5] = "-", "0"
            lst[i][7] = ":".join(b)
        yield new


def shrink(item, rerun):
    if not item.get("case") or item.get("mode") != "tree":
        return item
    action, prof, tops, flt = _parse(item["case"])
    budget = 150
    best = dict(item)
    def attempt(prof_, tops_, flt_):
        nonlocal budget
        budget -= 1
        case = _ser(action, prof_, tops_, flt_)
        impl, model, sb = rerun("tree", case, crate=item.get("crate", CRATE), release=False, model_input=model_input, drv=DRV)
        if sb.startswith("false"):
            best.update({"case": case, "impl": impl, "model": model, "spec_verdict": sb})
            return True
        return False

    # first the sections after the tree: filters as a whole, then one by one; --threads; the bytes-format section
    if flt is not None and attempt(prof, tops, None):
        flt = None
    while flt is not None and budget > 0:
        for i in range(len(flt[1])):
            cand = (flt[0], flt[1][:i] + flt[1][i + 1:])
            if cand[1] and attempt(prof, tops, cand):
                flt = cand
                break
        else:
            break
    base, _, mid = prof.partition("|")
    toks = mid.split(" ") if mid else []
    for k in range(0, len(toks), 2):
        cand = base + ("|" + " ".join(toks[:k] + toks[k + 2:]) if len(toks) > 2 else "")
        if budget > 0 and attempt(cand, tops, flt):
            prof = cand
            break
    progress = True
    while progress and budget > 0:
        progress = False
        for cand in _variants(tops):
            if budget <= 0:
                break
            if attempt(prof, cand, flt):
                tops = cand
                progress = True
                break
    return best
