"""C16 — output order is the documented total order for each --sort attribute."""
import glob
import os
import re
from fractions import Fraction

from vp import Stream

DRV = "sort"
CRATE = "hx-sort"

RULE = ("nat: pairs of names built from letters, digit runs (leading zeros, equal values spelt differently, up to 40 digits), "
        "punctuation, multi-byte UTF-8 and the empty name, mostly as a name and a mutation of it, each pair in both orders; "
        "cmp: one comparison attr x (i,j) on argument lists of integers (u128/i128 boundaries), negatives, decimals "
        "(<= 15 significant digits, exponents), inf/nan words, version-like and other strings, mixed; "
        "sort: whole lists (up to 64 names, a third longer than 20 so std's order-violation detection is live) under "
        "3 attributes x 2 directions, run with the exact decimal oracle on lists where f64 comparison is the exact one; "
        "wcmp/wsort: names around 2^53, 2^64, 2^127, i128::MIN-1, u128::MAX+1, 10^38..10^40 with .0/.5/exponent "
        "spellings, overflowing exponents, few distinct names repeated (the shape of the pre-6cb0c72 panic witness), run "
        "with the float oracle recorded on the implementation side; tree: forests of hand-built entries (plain benches with "
        "and without argument lists, modules, bench groups, generic groups types/consts/types x consts) through tree_dump, "
        "which sorts with the real EntryTree::sort_by_attr (argument order inside leaves included). "
        "Non-trivial = the two names differ (nat), i != j and attr != location (cmp), the sorted order is not the "
        "input order or its reverse (sort); distinct by input line.")
ASSUMPTIONS = [
    "str::parse::<f64> is a parameter of the model (oracle): the theorems need it to be a total preorder on its values, to accept "
    "every integer name, to be monotone on integer names (rounding may merge neighbours, never swap them) and not to round a "
    "non-zero integer to zero - true of a correctly rounding parser for every name; the streams cmp/sort run the model with the "
    "exact decimal oracle dec_parse (float grammar of core::num::dec2flt, exact value) on lists where f64 comparison is exact, "
    "the streams wcmp/wsort run it with the values recorded from the real parse (any names); the specification additionally "
    "checks that the recorded oracle accepts exactly the names dec_parse accepts",
    "slice::sort_by / sort_unstable_by are assumed to return a sorted permutation whenever the comparator is a total "
    "preorder on the elements (Model/SortBy.v sort_by; the insertion sort is the executable instance)",
    "addresses of the elements of one slice / of entries in one static array compare like their indices",
    "tree: constants of one generic benchmark have one type whose PartialOrd is a total order consistent with its ToString "
    "(integers, bool, char) and are not siblings of other kinds of entries; sibling groups sharing a source location all have an "
    "entry address or none has (hypotheses of C16_treecmp_total, each shown necessary by a witness)",
]
TRUSTED = [
    "core::num integer and float parsing of the Rust toolchain (tied to the model by the cmp/sort streams)",
]
CONSTS_USED = ["with_tie_breakers"]
GENERATED_OBLIGATIONS = ["C16_tie_breakers_const : with_tie_breakers = the documented table (kind: name, location; name: location, kind; location: kind, name)"]

ROOT = os.path.dirname(os.path.dirname(os.path.dirname(os.path.abspath(__file__))))
ATTRS = ["kind", "name", "location"]

# --------------------------------------------------------------------------
# name encoding (same as ocaml/sort.ml and harness/hx-sort)
# --------------------------------------------------------------------------

def enc(s):
    if s == "":
        return "%_"
    out = []
    for b in s.encode("utf-8"):
        if 0x21 <= b <= 0x7e and b not in (0x23, 0x25, 0x2c):
            out.append(chr(b))
        else:
            out.append("%%%02X" % b)
    return "".join(out)


def enc_list(names):
    return ",".join(enc(n) for n in names) if names else "%0"


# --------------------------------------------------------------------------
# domain filter: on which lists is f64 comparison the exact comparison?
# (only used to choose inputs; the model and the spec do not depend on it)
# --------------------------------------------------------------------------

FLOAT_RE = re.compile(r"[+-]?(\d+\.?\d*|\.\d+)([eE][+-]?\d+)?\Z")
INFNAN_RE = re.compile(r"[+-]?(inf|infinity|nan)\Z", re.I)
U_RE = re.compile(r"\+?\d+\Z")
I_RE = re.compile(r"[+-]?\d+\Z")


def classify(s):
    """('u', v) u128, ('n', v) negative i128, ('z', v) other i128, ('f', exact, f64), ('inf', sign), ('s',) not a number."""
    if not s.isascii():
        return ("s",)
    if U_RE.match(s) and int(s) < 2**128:
        return ("u", int(s))
    if I_RE.match(s) and -2**127 <= int(s) < 2**127:
        return ("n", int(s)) if int(s) < 0 else ("z", int(s))
    m = FLOAT_RE.match(s)
    if m:
        mant, exp = m.group(1), m.group(2)
        e = int(exp[1:]) if exp else 0
        if abs(e) > 400:
            return ("f", None, float(s))
        ip, _, fp = mant.partition(".")
        val = Fraction(int((ip + fp) or "0")) * Fraction(10) ** (e - len(fp))
        if s[0] == "-":
            val = -val
        return ("f", val, float(s))
    m = INFNAN_RE.match(s)
    if m:
        if m.group(1).lower() == "nan":
            return ("s",)
        return ("inf", -1 if s[0] == "-" else 1)
    return ("s",)


def sign(x):
    return (x > 0) - (x < 0)


def pair_in_domain(ca, cb):
    ka, kb = ca[0], cb[0]
    if "s" in (ka, kb) or "inf" in (ka, kb):
        # inf against a finite number: f64 overflow of the finite one would matter
        for c in (ca, cb):
            if c[0] == "f" and (c[1] is None or c[2] in (float("inf"), float("-inf"))):
                return False
            if c[0] in ("u", "n", "z") and float(c[1]) in (float("inf"), float("-inf")):
                return False
        return True
    exact_path = (ka == "u" and kb == "u") or (ka == "u" and kb == "n") or (ka == "n" and kb == "u") or \
                 (ka in "nz" and kb in "nz")
    if exact_path:
        return True
    def ex(c):
        return Fraction(c[1]) if c[0] in "unz" else c[1]
    def fl(c):
        return float(c[1]) if c[0] in "unz" else c[2]
    if ex(ca) is None or ex(cb) is None:
        return False
    return sign(ex(ca) - ex(cb)) == sign(fl(ca) - fl(cb)) if fl(ca) != fl(cb) else ex(ca) == ex(cb)


def list_in_domain(names):
    cs = [classify(n) for n in names]
    uniq = list({(n, c) for n, c in zip(names, cs)})
    for i in range(len(uniq)):
        for j in range(i + 1, len(uniq)):
            if not pair_in_domain(uniq[i][1], uniq[j][1]):
                return False
    return True


# --------------------------------------------------------------------------
# generators
# --------------------------------------------------------------------------

LETTERS = ["a", "b", "z", "A", "Z", "x", "ab", "bench", "N", "_", "r#"]
PUNCT = [" ", "-", "+", ".", "/", ":", "<", ">", "~", "!", ",", "%", "::", "(", "#", "@", "\t", "\x7f", "&'static "]
NONASCII = ["é", "ß", "€", "中", "𝄞", "ñ", " ", "٠", "Ω"]
DIGITS = ["0", "00", "1", "01", "001", "2", "9", "09", "10", "010", "16", "32", "64", "100", "99", "0100",
          "18446744073709551615", "18446744073709551616", "340282366920938463463374607431768211455",
          "340282366920938463463374607431768211456", "0000000000000000000000000000000000000001", "4", "8", "12", "7"]


def gen_piece(rng):
    k = rng.random()
    if k < 0.35:
        return rng.choice(LETTERS)
    if k < 0.7:
        return rng.choice(DIGITS) if rng.random() < 0.7 else str(rng.randrange(0, 10 ** rng.randrange(1, 6)))
    if k < 0.88:
        return rng.choice(PUNCT)
    return rng.choice(NONASCII)


def gen_name(rng):
    n = rng.choice([0, 1, 1, 2, 2, 3, 3, 4, 5, 7])
    return "".join(gen_piece(rng) for _ in range(n))


def mutate(rng, s):
    """A name close to s: respell a digit run, change its value, cut, extend, swap a byte."""
    runs = list(re.finditer(r"[0-9]+", s))
    k = rng.random()
    if runs and k < 0.35:
        m = rng.choice(runs)
        d = m.group(0)
        c = rng.random()
        if c < 0.4:
            nd = "0" * rng.randrange(1, 4) + d            # same value, more zeros
        elif c < 0.6:
            nd = d.lstrip("0") or "0"                      # same value, no zeros
        elif c < 0.8:
            nd = str(int(d) + rng.choice([1, 9, 10, 90]))
        else:
            nd = d[:-1] if len(d) > 1 else d + "0"
        return s[:m.start()] + nd + s[m.end():]
    if k < 0.5:
        return s[: rng.randrange(0, len(s) + 1)]
    if k < 0.7:
        return s + gen_piece(rng)
    if k < 0.85 and s:
        i = rng.randrange(len(s))
        return s[:i] + gen_piece(rng) + s[i + 1:]
    return gen_piece(rng) + s


INTS = [0, 1, 2, 9, 10, 11, 99, 100, 255, 256, 1000, 65535, 2**31, 2**32, 2**53 - 1, 2**53, 2**53 + 1, 2**63, 2**64 - 1, 2**64,
        2**127 - 1, 2**127, 2**127 + 1, 2**128 - 1]
DECIMALS = ["0.0", "-0.0", "0.5", ".5", "5.", "1.5", "1.50", "1.10", "1.05", "2.25", "-1.5", "-0.5", "+1.5", "1e3", "1E3", "1e-3",
            "1.5e2", "150.0", "1000.0", "3.14159", "2.718281828", "1e0", "0e0", "-0e0", "1e15", "1e-15", "123456789012345",
            "0.000001", "1e+2", "00.50", "1.0", "01.0", "10.0", "9.99", "100.5", "-100.5", "1e300", "-1e300", "1e-300"]
WORDS = ["inf", "-inf", "+inf", "Infinity", "INF", "-Infinity", "nan", "NaN", "-nan", "+NaN"]
VERSIONS = ["1.5a", "1.10.2", "1.5.0", "1.10a", "v2", "v10", "2.0-rc1", "2.0-rc10", "1.", ".", "..", "1..2", "e5", "1e", "1e+", "-", "+",
            "--1", "+-1", "0x10", "1_000", " 1", "1 ", "١", "1.5e", "1.5e+", ".e1", "-.", "+.", "infinit", "in", "na", "1,5", "−1", "1e1.5",
            "abc", "", "a", "b", "A", "arg", "arg10", "arg9", "arg09", "é", "中"]


def gen_numeric_int(rng):
    k = rng.random()
    if k < 0.5:
        v = rng.choice(INTS)
    elif k < 0.8:
        v = rng.randrange(0, 10 ** rng.randrange(1, 16))
    else:
        v = rng.getrandbits(rng.randrange(1, 129))
    s = str(v)
    c = rng.random()
    if c < 0.15:
        s = "0" * rng.randrange(1, 3) + s
    elif c < 0.2:
        s = "+" + s
    return s


def gen_negative_int(rng):
    k = rng.random()
    if k < 0.4:
        v = rng.choice([0, 1, 2, 10, 100, 2**31, 2**63, 2**127 - 1, 2**127, 2**127 + 1, 2**53, 2**53 + 1])
    elif k < 0.8:
        v = rng.randrange(0, 10 ** rng.randrange(1, 16))
    else:
        v = rng.getrandbits(rng.randrange(1, 128))
    return "-" + ("0" if rng.random() < 0.1 else "") + str(v)


def gen_decimal(rng):
    if rng.random() < 0.5:
        return rng.choice(DECIMALS)
    digits = rng.randrange(1, 15)
    m = str(rng.randrange(0, 10 ** digits))
    p = rng.randrange(0, len(m) + 1)
    s = m[:p] + "." + m[p:]
    if s == ".":
        s = "0."
    if rng.random() < 0.25:
        s += rng.choice(["e", "E"]) + rng.choice(["", "+", "-"]) + str(rng.randrange(0, 20))
    if rng.random() < 0.3:
        s = "-" + s
    return s


def gen_string(rng):
    return rng.choice(VERSIONS) if rng.random() < 0.6 else gen_name(rng)


def gen_arg_list(rng, n):
    kind = rng.choice(["int", "int", "signed", "float", "float", "string", "mixed", "mixed", "version", "small-ints", "zeros", "respelt", "flags"])
    base = rng.choice([1, 2, 10, 15, 100])
    out = []
    for _ in range(n):
        if kind == "int":
            s = gen_numeric_int(rng)
        elif kind == "small-ints":
            s = str(rng.randrange(0, 30))
        elif kind == "signed":
            s = gen_negative_int(rng) if rng.random() < 0.5 else gen_numeric_int(rng)
        elif kind == "float":
            s = gen_decimal(rng) if rng.random() < 0.8 else rng.choice(WORDS + [str(rng.randrange(0, 1000)), "-" + str(rng.randrange(0, 1000))])
        elif kind == "string":
            s = gen_string(rng)
        elif kind == "zeros":
            s = rng.choice(["0", "-0", "+0", "00", "-00", "0.0", "-0.0", "0e0", "-0e5", ".0", "0.", "1", "-1", "0a", "-"])
        elif kind == "respelt":
            v = base + rng.choice([0, 0, 0, 1, -1])
            s = rng.choice(["%d", "0%d", "+%d", "%d.0", "%d.00", "%de0", "%d.", "00%d"]) % v
        elif kind == "flags":
            s = rng.choice(["-O0", "-O2", "-O3", "-v", "--release", "-1x", "-x1", "-", "--", "-e5", "-.5x", "+O0", "-inf", "-nan", "-infx"]) \
                if rng.random() < 0.5 else rng.choice([str(rng.randrange(0, 20)), "2.5", "-3", "0.5", "-0", "10"])
        elif kind == "version":
            s = "%d.%d%s" % (rng.randrange(0, 3), rng.randrange(0, 12), rng.choice(["", "", "a", ".0", ".1", "-rc1", "0"]))
        else:
            s = rng.choice([gen_numeric_int, gen_negative_int, gen_decimal, gen_string, lambda r: r.choice(WORDS)])(rng)
        out.append(s)
    return kind, out


# --------------------------------------------------------------------------
# tree cases (see harness/hx-sort/src/tree.rs for the item format)
# --------------------------------------------------------------------------

def enc2(s):
    if s == "":
        return "%_"
    out = []
    for b in s.encode("utf-8"):
        ch = chr(b)
        if b < 128 and (ch.isalnum() or ch in "_.-"):
            out.append(ch)
        else:
            out.append("%%%02X" % b)
    return "".join(out)


TYPE_TABLE = ["u8", "u16", "u32", "i64", "String", "Vec<u8>", "&str", "T1", "T2", "T10", "T02", "Vec<alloc::string::String>"]
ARGS_TABLE = [["10", "9", "1", "100", "2"], ["1.5", "1.10", "1.5a", "abc", "-3"], ["b", "a", "c"], ["0", "-0", "-0.0", "00"],
              ["x2", "x10", "x1", "x02"], ["1e3", "999", "inf", "nan", "1000.5", "-inf"]]
MOD_NAMES = ["m", "m1", "m2", "m10", "m02", "a", "B", "r#mod", "r#a", "zz", "m_1", "M"]
BENCH_NAMES = ["b1", "b01", "b2", "b10", "b010", "a", "A", "bench", "x", "é", "b 1", "b", "c9", "c10", "c09", "z", "_", "m1", "0", "00", "1"]
FILES = ["a.rs", "b.rs", "src/lib.rs", "src/a.rs"]


def gen_tree_case(rng):
    """One forest of entries: plain benches in nested modules, bench groups on modules, generic groups."""
    mods = [("crate",)]
    for _ in range(rng.randrange(0, 6)):
        parent = rng.choice(mods)
        if len(parent) >= 3:
            continue
        name = rng.choice(MOD_NAMES)
        disp = name[2:] if name.startswith("r#") else name
        sib_disp = {(m[-1][2:] if m[-1].startswith("r#") else m[-1]) for m in mods if m[:-1] == parent}
        if disp in sib_disp:
            continue
        mods.append(parent + (name,))
    items = []
    used_leaf = {}
    used_parent = {m: set() for m in mods}
    for m in mods:
        if len(m) > 1:
            used_parent[m[:-1]].add(m[-1][2:] if m[-1].startswith("r#") else m[-1])
    shared_loc = (rng.choice(FILES), rng.randrange(1, 30), rng.choice([1, 5]))
    has_leaf = set()
    nb = rng.randrange(1, 9)
    for _ in range(nb):
        m = rng.choice(mods)
        name = rng.choice(BENCH_NAMES)
        if name in used_leaf.setdefault(m, set()):
            continue
        used_leaf[m].add(name)
        has_leaf.add(m)
        loc = shared_loc if rng.random() < 0.35 else (rng.choice(FILES), rng.randrange(1, 30), rng.choice([1, 5, 9]))
        raw = name if rng.random() < 0.7 else "f%d" % len(items)
        args = "-"
        if rng.random() < 0.25:
            k = rng.randrange(len(ARGS_TABLE))
            args = "%d=%s" % (k, ",".join(enc2(a) for a in ARGS_TABLE[k]))
        items.append(["B", None, "::".join(m), name, raw, loc, args])
    # a leaf whose name ties with a sibling module's name (the tie-breakers then decide)
    for m in mods[1:]:
        if rng.random() < 0.5:
            parent = m[:-1]
            disp = m[-1][2:] if m[-1].startswith("r#") else m[-1]
            name = rng.choice([disp, re.sub(r"([0-9]+)", lambda mm: "0" + mm.group(1), disp)])
            if name in used_leaf.setdefault(parent, set()):
                continue
            used_leaf[parent].add(name)
            loc = (rng.choice(FILES), rng.randrange(1, 30), rng.choice([1, 5, 9]))
            items.append(["B", None, "::".join(parent), name, "t%d" % len(items), loc, "-"])
    # bench groups on modules that exist as parents (only those with leaves below appear in the tree)
    gline = 100
    for m in mods[1:]:
        if rng.random() < 0.4:
            disp = m[-1][2:] if m[-1].startswith("r#") else m[-1]
            if rng.random() < 0.4:
                cand = rng.choice(["G1", "g01", "grp", "Z", "a0"])
                if cand not in used_parent[m[:-1]]:
                    used_parent[m[:-1]].discard(disp)
                    used_parent[m[:-1]].add(cand)
                    disp = cand
            gline += 1
            items.append(["G", None, "::".join(m[:-1]), disp, m[-1], (rng.choice(FILES), gline, 1), "-"])
    # generic groups
    for gi in range(rng.choice([0, 0, 1, 1, 2])):
        m = rng.choice(mods)
        raw = "gen%d" % gi
        if raw in used_parent[m]:
            continue
        used_parent[m].add(raw)
        gline += 1
        spec = []
        mode = rng.choice(["t", "c", "tc"])
        if "t" in mode:
            idx = rng.sample(range(len(TYPE_TABLE)), rng.randrange(1, 5))
            spec.append("t:" + ",".join("%d=%s" % (i, enc2(TYPE_TABLE[i])) for i in idx))
        if "c" in mode:
            k = rng.random()
            if k < 0.4:
                vals = rng.sample([-10, -2, -1, 0, 1, 2, 9, 10, 11, 100, 20, 3, -5, 12, -100, -2**63, 2**63 - 1, -(2**63) + 1],
                                  rng.randrange(1, 7))
                spec.append("c:i:" + ",".join("%d=%s" % (v, enc2(str(v))) for v in vals))
            elif k < 0.55:
                vals = rng.sample([-2**127, 2**127 - 1, -1, 0, 1, -10, 10, -9, -2**64, 2**64, -11], rng.randrange(1, 6))
                spec.append("c:j:" + ",".join("%d=%s" % (v, enc2(str(v))) for v in vals))
            elif k < 0.7:
                vals = rng.sample([-128, 127, -1, 0, 1, -10, 10, -9, 9, -100, 100, -2], rng.randrange(1, 6))
                spec.append("c:k:" + ",".join("%d=%s" % (v, enc2(str(v))) for v in vals))
            elif k < 0.8:
                vals = rng.sample([0, 1], rng.randrange(1, 3))
                spec.append("c:b:" + ",".join("%d=%s" % (v, "true" if v else "false") for v in vals))
            else:
                vals = rng.sample([ord("a"), ord("Z"), ord("1"), ord("9"), 0xE9, 0x4E2D, ord("_"), ord("b")], rng.randrange(1, 5))
                spec.append("c:c:" + ",".join("%d=%s" % (v, enc2(chr(v))) for v in vals))
        items.append(["G", None, "::".join(m), raw, raw, (rng.choice(FILES), gline, 1), "!".join(spec)])
    rng.shuffle(items)
    ranks = list(range(len(items)))
    rng.shuffle(ranks)
    toks = []
    for it, r in zip(items, ranks):
        loc = it[5]
        toks.append(";".join([it[0], str(r), enc2(it[2]), enc2(it[3]), enc2(it[4]), enc2(loc[0]), str(loc[1]), str(loc[2]), it[6]]))
    return toks


BIG = [2**53 - 1, 2**53, 2**53 + 1, 2**53 + 2, 2**53 + 3, 2**63, 2**64 - 1, 2**64, 2**64 + 1, 2**127 - 1, 2**127, 2**127 + 1,
       2**128 - 1, 2**128, 2**128 + 1, 10**20, 10**20 + 1, 10**38, 10**39, 10**40, 123456789012345678901234567890]


def gen_wild_name(rng, center):
    """Names around one big integer: neighbours, decimal/exponent spellings that round to it, negatives."""
    v = center + rng.choice([0, 0, 1, -1, 2, -2, 3])
    k = rng.random()
    if k < 0.45:
        s = str(v)
    elif k < 0.6:
        s = str(v) + rng.choice([".0", ".5", ".00", ".", ".25", "e0", ".0e0", ".9"])
    elif k < 0.7:
        m = str(v)
        s = m[0] + "." + m[1:] + "e" + str(len(m) - 1)
    elif k < 0.8:
        s = "0" * rng.randrange(1, 3) + str(v)
    elif k < 0.9:
        s = "+" + str(v)
    else:
        s = rng.choice(["1e400", "-1e400", "inf", "1e-400", "0", "-0", "0.0", "abc", "1.5"])
    if rng.random() < 0.35 and s[0] not in "+-":
        s = "-" + s
    return s


def gen_wild_list(rng, n):
    center = rng.choice(BIG)
    return [gen_wild_name(rng, center) for _ in range(n)]


def valid_name(s):
    return "\n" not in s


def read_corpus():
    out = {}
    for p in sorted(glob.glob(os.path.join(ROOT, "corpus", "C16-*.txt"))):
        for line in open(p, encoding="utf-8"):
            line = line.rstrip("\n")
            if not line or line.startswith("#"):
                continue
            mode, _, case = line.partition(" ")
            out.setdefault(mode, []).append(case)
    return out


def streams(tier, rng):
    quick = tier == "quick"
    corpus = read_corpus()

    # ---- nat ----
    n_nat = 1500 if quick else 40000
    nat = list(corpus.get("nat", []))
    hist_nat = {"corpus": len(nat), "mutation": 0, "independent": 0, "non-ascii": 0, "with-digits": 0}
    seen = set(nat)
    while len(nat) < n_nat:
        a = gen_name(rng)
        if rng.random() < 0.7:
            b = mutate(rng, a)
            hist_nat["mutation"] += 1
        else:
            b = gen_name(rng)
            hist_nat["independent"] += 1
        for x, y in ((a, b), (b, a)):
            c = enc(x) + " " + enc(y)
            if c not in seen:
                seen.add(c)
                nat.append(c)
        if not (a + b).isascii():
            hist_nat["non-ascii"] += 1
        if re.search(r"[0-9]", a + b):
            hist_nat["with-digits"] += 1

    # ---- cmp ----
    n_cmp = 1500 if quick else 40000
    cmp_cases = list(corpus.get("cmp", []))
    hist_cmp = {"corpus": len(cmp_cases), "skipped-out-of-domain": 0}
    while len(cmp_cases) < n_cmp:
        kind, names = gen_arg_list(rng, rng.randrange(2, 7))
        if not list_in_domain(names):
            hist_cmp["skipped-out-of-domain"] += 1
            continue
        hist_cmp[kind] = hist_cmp.get(kind, 0) + 1
        el = enc_list(names)
        for _ in range(3):
            i, j = rng.randrange(len(names)), rng.randrange(len(names))
            attr = rng.choice(["name", "name", "kind", "location"])
            cmp_cases.append(f"{attr} {i} {j} {el}")
            cmp_cases.append(f"{attr} {j} {i} {el}")

    # ---- sort ----
    n_sort = 420 if quick else 2600
    sort_cases = list(corpus.get("sort", []))
    hist_sort = {"corpus": len(sort_cases), "skipped-out-of-domain": 0, "len<=20": 0, "len>20": 0}
    for names in ([], [""], ["a"], ["1", "1"], ["b", "a"], ["a", "a", "a"]):
        for attr in ATTRS:
            for rev in (0, 1):
                sort_cases.append(f"{attr} {rev} {enc_list(names)}")
    while len(sort_cases) < n_sort:
        n = rng.randrange(21, 65) if rng.random() < 0.4 else rng.randrange(0, 21)
        kind, names = gen_arg_list(rng, n)
        if rng.random() < 0.3 and names:      # duplicates: ties broken by position
            names = [rng.choice(names) for _ in names]
        if not list_in_domain(names):
            hist_sort["skipped-out-of-domain"] += 1
            continue
        hist_sort[kind] = hist_sort.get(kind, 0) + 1
        hist_sort["len>20" if n > 20 else "len<=20"] += 1
        el = enc_list(names)
        attr = rng.choice(["kind", "name", "kind", "name", "location"])
        for rev in (0, 1):
            sort_cases.append(f"{attr} {rev} {el}")

    # ---- wild: no domain restriction, the float oracle is the recorded one ----
    n_w = 300 if quick else 3000
    wcmp_cases = list(corpus.get("wcmp", []))
    wsort_cases = list(corpus.get("wsort", []))
    hist_w = {"corpus": len(wcmp_cases) + len(wsort_cases), "len<=20": 0, "len>20": 0}
    while len(wcmp_cases) < n_w:
        names = gen_wild_list(rng, rng.randrange(2, 6))
        el = enc_list(names)
        i, j = rng.randrange(len(names)), rng.randrange(len(names))
        wcmp_cases.append(f"name {i} {j} {el}")
        wcmp_cases.append(f"name {j} {i} {el}")
    while len(wsort_cases) < (n_w // 2 if quick else 900):
        n = rng.randrange(21, 50) if rng.random() < 0.5 else rng.randrange(2, 21)
        names = gen_wild_list(rng, n)
        if rng.random() < 0.5:
            pool = names[: rng.randrange(2, 5)]
            names = [rng.choice(pool) for _ in names]      # few distinct names, many repeats (the panic witness's shape)
        hist_w["len>20" if n > 20 else "len<=20"] += 1
        el = enc_list(names)
        attr = rng.choice(["kind", "name"])
        for rev in (0, 1):
            wsort_cases.append(f"{attr} {rev} {el}")

    def with_table(c, i):
        k = i.find(" | f64:")
        return c + " " + i[k + 3:] if k >= 0 else c

    def same_result(i, m):
        return i.split(" | ")[0] == m

    def nt_nat(c, m):
        a, b = c.split(" ")
        return a != b

    def nt_cmp(c, m):
        t = c.split(" ")
        return t[0] != "location" and t[1] != t[2]

    def nt_sort(c, m):
        if not m.startswith("ok ") or m == "ok -":
            return False
        p = m[3:].split(",")
        ident = [str(i) for i in range(len(p))]
        return p != ident and p != ident[::-1]

    # ---- tree ----
    n_tree = 400 if quick else 10000
    tree_cases = list(corpus.get("tree", []))
    hist_tree = {"corpus": len(tree_cases), "items<=4": 0, "items>4": 0, "with-generic-group": 0, "with-args": 0}
    while len(tree_cases) < n_tree:
        toks = gen_tree_case(rng)
        if not toks:
            continue
        hist_tree["items>4" if len(toks) > 4 else "items<=4"] += 1
        if any(";t:" in t or ";c:" in t for t in toks):
            hist_tree["with-generic-group"] += 1
        if any(t.startswith("B;") and not t.endswith(";-") for t in toks):
            hist_tree["with-args"] += 1
        attr = rng.choice(ATTRS)
        k = rng.random()
        if k < 0.5:
            flt = "F:-"
        else:
            # drop the paths containing some display name / argument / module of this forest
            pool = []
            for t in toks:
                f = t.split(";")
                pool.append(f[3])
                if f[0] == "B" and f[8] != "-":
                    pool.extend(f[8].split("=", 1)[1].split(","))
            flt = "F:" + rng.choice(pool + ["%3A%3Ab", "1", "crate%3A%3Am"])
            hist_tree["with-filter"] = hist_tree.get("with-filter", 0) + 1
        for rev in (0, 1):
            tree_cases.append(f"{attr} {rev} {flt} " + " ".join(toks))

    # the (listed or to-be-listed) known finding goes last, so that a new failure is reported first
    kf = [c for c in tree_cases if ";-1x;" in c and "c:i:-2=-2,-1=-1" in c]
    tree_cases = [c for c in tree_cases if c not in kf] + kf

    def nt_tree(c, m):
        return len(c.split(" ")) >= 5 and "panic" not in m

    # ---- e2e: real macro-generated registry, real Divan::main() --list in a child process ----
    e2e_cases = [f"{a} {r}" for a in ATTRS for r in (0, 1)]
    # both flags on one command line, in both orders (and three alternating): the LAST one is the choice
    # (same flag twice and DIVAN_SORT x --sortr are clap usage errors on the unchanged tree: not generated)
    # the choice made through the environment only (DIVAN_SORT / DIVAN_SORTR, no flag)
    e2e_cases += [f"{a} {r} ev:{'sortr' if r else 'sort'}={a}" for a in ATTRS for r in (0, 1)]
    e2e_cases += list(corpus.get("e2e", []))
    seen_cl = set(e2e_cases)
    n_cl = 10 if quick else 60
    tries = 0
    n_fixed = len(e2e_cases)
    while len(e2e_cases) < n_fixed + n_cl and tries < 1000:
        tries += 1
        k = rng.choice([2, 2, 3])
        first = rng.choice(["sort", "sortr"])
        flags = [first if i % 2 == 0 else ("sortr" if first == "sort" else "sort") for i in range(k)]
        attrs = [rng.choice(ATTRS) for _ in range(k)]
        c = f"{attrs[-1]} {1 if flags[-1] == 'sortr' else 0} cl:" + ",".join(f"{f}={a}" for f, a in zip(flags, attrs))
        if c not in seen_cl:
            seen_cl.add(c)
            e2e_cases.append(c)

    # ---- e2erun: which declared value each argument row receives under --test ----
    e2erun_cases = [f"{a} {r} {b}" for b in ("lossy", "strs") for a in ATTRS for r in (0, 1)]

    def e2erun_model_input(c, i):
        k = i.find(" | names:")
        return c + " " + i[k + 9:] if k >= 0 else c + " %0"

    def e2e_model_input(c, i):
        k = i.find(" => ")
        return c + " " + i[:k] if k >= 0 else c

    def e2e_compare(i, m):
        k = i.find(" => ")
        return k >= 0 and i[k + 4:] == m

    out = [
        Stream("natural-order", "nat", nat, nontrivial=nt_nat, hist=hist_nat),
        Stream("arg-comparator", "cmp", cmp_cases, compare=same_result, nontrivial=nt_cmp, hist=hist_cmp),
        Stream("arg-sort", "sort", sort_cases, compare=same_result, nontrivial=nt_sort, hist=hist_sort),
        Stream("arg-comparator-recorded-f64", "wcmp", wcmp_cases, compare=same_result, model_input=with_table, nontrivial=nt_cmp, hist=hist_w),
        Stream("arg-sort-recorded-f64", "wsort", wsort_cases, compare=same_result, model_input=with_table, nontrivial=nt_sort, hist=hist_w),
        Stream("tree-sibling-order", "tree", tree_cases, nontrivial=nt_tree, hist=hist_tree),
        Stream("end-to-end-argument-identity", "e2erun", e2erun_cases, compare=same_result, model_input=e2erun_model_input,
               nontrivial=nt_sort,
               describe="hx-sort-e2e recv::lossy (values whose Display is lossy: three print 1KB) and recv::strs (equal Strings in "
                        "separate slots) run by Divan::main() --test --sort/--sortr <attr>; the bodies report the value received; "
                        "checked as a sort of the labels: every declared argument exactly once, in the specified order"),
        Stream("end-to-end-listing", "e2e", e2e_cases, compare=e2e_compare, model_input=e2e_model_input,
               describe="hx-sort-e2e: #[divan::bench]/#[divan::bench_group] items (renamed groups, generic types not in token "
                        "order, signed consts, types x consts, args) listed by Divan::main() --list --sort/--sortr <attr>; also "
                        "--sort and --sortr together in both orders: the last flag decides attribute and direction"),
    ]
    return out


def shrink(item, rerun):
    """Greedy shrinking of a failing case: drop names (sort) / items (tree) while the specification still fails."""
    mode, case = item.get("mode"), item.get("case")
    if mode not in ("sort", "tree") or not case:
        return item

    def fails(c):
        impl, model, sb = rerun(mode, c, crate=item.get("crate", CRATE), release=item.get("release", False), drv=DRV)
        return (not sb.startswith("true")), impl, model, sb

    if mode == "sort":
        attr, rev, names = case.split(" ")
        parts = [] if names == "%0" else names.split(",")
        build = lambda ps: f"{attr} {rev} " + (",".join(ps) if ps else "%0")
    else:
        toks = case.split(" ")
        attr, rev, parts = toks[0], toks[1], toks[2:]
        build = lambda ps: f"{attr} {rev} " + " ".join(ps)
    best = dict(item)
    changed = True
    budget = 300
    while changed and budget > 0:
        changed = False
        for i in range(len(parts)):
            budget -= 1
            if budget <= 0:
                break
            cand = parts[:i] + parts[i + 1:]
            if mode == "tree" and not cand:
                continue
            f, impl, model, sb = fails(build(cand))
            if f:
                parts = cand
                best.update({"case": build(cand), "impl": impl, "model": model, "spec_verdict": sb})
                changed = True
                break
    return best


MANIFEST = {
    "text": "Coq theorems, no bound on names or list lengths: natural_cmp (tokeniser over bytes, cmp_int with leading zeros) is a total "
            "preorder whose ties are exactly equal token-key sequences, digit runs of any length compare by value; the argument-name "
            "comparator (exact u128/i128 parsing, float parsing as an oracle) is, for ALL lists of names and every oracle monotone on the "
            "list's integer names, a total preorder and with the position tie-breaker a strict total order, so the modelled sort never "
            "takes std's order-violation panic, its result is the unique sorted permutation (independent of the algorithm), numbers sort "
            "by value before other names, --sortr is exactly the reverse; the sibling comparator of the tree is a total preorder under "
            "three stated conditions (two shown necessary by witnesses), and for whole trees satisfying them at every depth sort_forest "
            "returns (no fuel exhaustion, no order-violation panic) a tree with the same entries under the same parents that is sorted at "
            "every level; any two sorted permutations agree up to ties; sort_sb accepts exactly the model's output; sorting a forest only "
            "permutes siblings and arguments; the "
            "tokeniser's cuts keep every token valid UTF-8. The models are tied to the code by differential execution of four streams "
            "(natural order, single comparisons, whole sorts up to 64 names, trees built from hand-made entries through tree_dump) and "
            "the boolean specifications (declarative order, not the comparator's code) are evaluated on the implementation's outputs.",
    "note": "Assumed, not proved: str::parse::<f64> is monotone on integer names and does not round a non-zero integer to zero (no "
            "exactness needed since fix 6cb0c72; before it the real crate panicked in sort_by on >= 21 names such as 9007199254740992, "
            "9007199254740993, 9007199254740992.0: C16_argcmp_rounding_refuted, corpus witness); std's sorts return a sorted permutation "
            "for a total preorder; addresses in one slice/array order like indices. Known finding (contrived): a plain benchmark named "
            "'-1x' in `mod foo` beside the constants [-2,-1] of `fn foo<const N>` gives a name cycle (hypothesis consts_uniform). Trusted: Coq kernel, extraction, "
            "OCaml driver (incl. the glue that lays the implementation's tree dump over the unsorted tree), hooks natural_cmp / "
            "cmp_bench_arg_names / sort_arg_names / tree_dump, harness hx-sort. The hook sort_arg_names repeats the closure of "
            "sort_by_attr instead of calling it; the tree stream exercises the real one.",
    "technique": "machine-checked proof in Coq (total-preorder algebra over comparison-valued functions, keys, sorted-permutation uniqueness) "
                 "+ differential correspondence and specification evaluation against the real crate",
}
