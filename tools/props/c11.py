"""C11 — timestamp differences convert to picoseconds exactly."""
from vp import Stream

DRV = "time"
CRATE = "hx"

RULE = ("tsc: (a,b,f) drawn from boundary values {0,1,2^32+-1,2^63+-1,2^64-1} and random 64-bit values, "
        "f from {1..10^10 boundaries, random}; dur: Durations over boundary secs/nanos; prec: Timer::measure_precision "
        "under the virtual clock stepping `step` ticks per read at frequency f. Non-trivial = b >= a and result > 0 "
        "(tsc), secs>0 or nanos>0 (dur), all prec cases; distinct by input line.")
ASSUMPTIONS = [
    "rdtsc/cntvct assembly, frequency probing and the Instant clock are not modelled (only the conversions)",
    "the virtual clock hook returns the scripted counter from TscTimestamp::start/end",
    "the OS clock (Instant) has nanosecond resolution, so a measured OS precision is a non-zero whole number of nanoseconds (hypothesis of C11_precq_model_sb)",
]
CONSTS_USED = ["tsc_picos_const", "prec_seen_threshold", "prec_inner_loop", "prec_delay_giveup"]
GENERATED_OBLIGATIONS = ["C11_picos_const : tsc_picos_const = 10^12"]

B64 = [0, 1, 2, 3, 999, 1000, 2**31, 2**32 - 1, 2**32, 2**32 + 1, 2**53, 2**63 - 1, 2**63, 2**63 + 1, 2**64 - 2, 2**64 - 1]
FREQ = [1, 2, 3, 7, 10, 999, 1000, 24_000_000, 10**9, 10**9 + 7, 2_400_000_000, 3_000_000_000, 10**10, 10**12, 10**12 + 1, 2**32, 2**63, 2**64 - 1]


def streams(tier, rng):
    n = 3000 if tier == "quick" else 150000
    tsc = []
    for a in B64:
        for b in B64:
            for f in (1, 3, 10**9, 3_000_000_000, 10**12, 2**64 - 1):
                tsc.append(f"{a} {b} {f}")
    while len(tsc) < n:
        k = rng.random()
        if k < 0.3:
            a, b = rng.choice(B64), rng.choice(B64)
        elif k < 0.6:
            a = rng.getrandbits(64)
            b = min(2**64 - 1, a + rng.choice([0, 1, 2, rng.getrandbits(20), rng.getrandbits(40)]))
        elif k < 0.9:
            a, b = sorted((rng.getrandbits(rng.randrange(1, 65)), rng.getrandbits(rng.randrange(1, 65))))
        else:
            a, b = rng.getrandbits(64), rng.getrandbits(64)
        f = rng.choice(FREQ) if rng.random() < 0.5 else max(1, rng.getrandbits(rng.randrange(1, 65)))
        tsc.append(f"{a} {b} {f}")
    dur = []
    secs = [0, 1, 59, 60, 3600, 86400, 2**32, 2**63, 2**64 - 1]
    nanos = [0, 1, 999, 1000, 999_999, 10**6, 999_999_999]
    for s in secs:
        for x in nanos:
            dur.append(f"{s} {x}")
    while len(dur) < n // 4:
        dur.append(f"{rng.getrandbits(rng.randrange(1, 65))} {rng.randrange(10**9)}")
    prec = []
    for f, step in [(10**12, 1), (10**12, 50), (10**12, 12345), (3 * 10**9, 7), (3 * 10**9, 1), (24_000_000, 1), (10**9, 3),
                    (2**64 - 1, 2**40), (10**12 + 1, 2), (1, 1), (7, 5)]:
        prec.append(f"{f} {step}")
    m = 30 if tier == "quick" else 400
    while len(prec) < m:
        f = rng.choice(FREQ[3:])
        step = rng.randrange(1, 2**rng.randrange(1, 30))
        if step * 10**12 // f > 0:
            prec.append(f"{f} {step}")

    # OS arm: two instants `earlier later` nanoseconds after a common base; spans straddling whole seconds,
    # multi-second spans with zero/non-zero sub-second parts, reversed pairs (= 0)
    osd = []
    NS = 10**9
    spans = [0, 1, 999, 1000, NS - 1, NS, NS + 1, 2 * NS - 1, 2 * NS, 2 * NS + 500_000_000, 59 * NS + 999_999_999, 60 * NS,
             3600 * NS + 1, 86400 * NS, 2**32 * NS + 7, 2**40 * NS + 123_456_789]
    for a in (0, 1, 999_999_999, NS, 5 * NS + 250_000_000, 2**33 * NS + 3):
        for sp in spans:
            osd.append(f"{a} {a + sp}")
            if sp:
                osd.append(f"{a + sp} {a}")
    while len(osd) < (n // 4):
        a = rng.getrandbits(rng.randrange(1, 70))
        k = rng.random()
        if k < 0.4:
            sp = rng.randrange(1, 100) * NS + rng.choice([0, 1, rng.randrange(NS)])
        elif k < 0.7:
            sp = rng.getrandbits(rng.randrange(1, 72))
        else:
            sp = rng.randrange(NS)
        osd.append(f"{a} {a + sp}" if rng.random() < 0.9 else f"{a + sp} {a}")

    def nt_osd(c, m):
        return m.startswith("ok ") and m != "ok 0" and int(m[3:]) >= 10**12

    def nt_tsc(c, m):
        return m.startswith("ok ") and m != "ok 0"

    return [
        Stream("os-conversion-dispatcher", "osd", osd, nontrivial=nt_osd),
        Stream("os-conversion-raw-sample", "oss", osd[: len(osd) // 2], nontrivial=nt_osd),
        Stream("os-conversion-dispatcher-release", "osd", osd[: len(osd) // 2], nontrivial=nt_osd, release=True),
        # the same Duration conversion as the sampling loop reads its budgets: BenchOptions::min_time()/max_time(),
        # own and inherited; sub-microsecond parts well represented
        Stream("duration-conversion-time-limits", "durl", dur + [f"{rng.choice([0, 0, 1, 59])} {rng.choice([1, 250, 500, 999, rng.randrange(1000), rng.randrange(10**6)])}" for _ in range(200)],
               nontrivial=lambda c, m: c != "0 0"),
        Stream("tsc-conversion", "tsc", tsc, nontrivial=nt_tsc),
        Stream("duration-conversion", "dur", dur, nontrivial=lambda c, m: c != "0 0"),
        Stream("precision-uniform-clock", "prec", prec),
        Stream("tsc-conversion-release", "tsc", tsc[: len(tsc) // 3], nontrivial=nt_tsc, release=True),
        precq_stream(tier, rng),
        # the same conversion through the Timestamp::duration_since dispatcher the sampling loop uses,
        # with frequencies dividing 10^12 and spans >= 2^64 ps well represented (debug and release)
        Stream("tsc-conversion-dispatcher", "tscd", tsc + disp_extra(rng, 600 if tier == "quick" else 20000), nontrivial=nt_tsc),
        # and through RawSample::duration, the elapsed time of a sample as the loop computes it (end before start = 0)
        Stream("tsc-conversion-raw-sample", "tscs", tsc[: len(tsc) // 2] + disp_extra(rng, 200 if tier == "quick" else 5000), nontrivial=nt_tsc),
        Stream("tsc-conversion-dispatcher-release", "tscd", tsc[: len(tsc) // 3] + disp_extra(rng, 300 if tier == "quick" else 10000),
               nontrivial=nt_tsc, release=True),
    ]


def disp_extra(rng, n):
    out = []
    divs = [1, 2, 4, 5, 8, 10, 100, 1000, 10**6, 10**9, 2 * 10**9, 2_500_000_000, 4 * 10**9, 5 * 10**9, 10**10, 10**12]
    while len(out) < n:
        f = rng.choice(divs)
        span = rng.choice([2**32 - 1, 2**32, 18_446_744, 18_446_745, 2**40, 2**63, 2**64 - 1, rng.getrandbits(rng.randrange(20, 65))])
        a = rng.choice([0, 1, rng.getrandbits(32)])
        b = min(2**64 - 1, a + span)
        out.append(f"{a} {b} {f}")
    return out


def precq_stream(tier, rng):
    """The cached `Timer::precision()` queried for both timer kinds in ONE process (one process per case):
    `K K K | f step`.  TSC steps are chosen so that the TSC precision is not a whole number of nanoseconds,
    which the OS timer's always is, so a value leaking from one kind's cache slot to the other's is visible."""
    import subprocess
    from concurrent.futures import ThreadPoolExecutor
    fs = [(10**12, 50), (10**12, 1), (10**12, 12345), (3 * 10**9, 7), (3 * 10**9, 1), (24_000_000, 1), (10**9 + 7, 3), (2_400_000_000, 11)]
    cases = ["T O | 1000000000000 50", "O T | 1000000000000 50", "T | 3000000000 7", "O | 3000000000 7", "O O T T O T | 24000000 1"]
    n = 40 if tier == "quick" else 400
    while len(cases) < n:
        f, step = rng.choice(fs)
        ks = " ".join(rng.choice("TO") for _ in range(rng.randrange(1, 6)))
        cases.append(f"{ks} | {f} {step}")

    def run_one(hbin, case):
        try:
            p = subprocess.run([hbin, "precq"], input=case + "\n", capture_output=True, text=True, timeout=120)
            out = p.stdout.strip().splitlines()
            return out[0] if out else "crash rc=%s" % p.returncode
        except subprocess.TimeoutExpired:
            return "hang"

    def impl_runner(st, hbin):
        with ThreadPoolExecutor(max_workers=8) as ex:
            return list(ex.map(lambda c: run_one(hbin, c), st.cases))

    return Stream("precision-cache-per-kind", "precq", cases, impl_runner=impl_runner,
                  model_input=lambda c, i: c + " # " + (i[3:] if i.startswith("ok ") else ""),
                  nontrivial=lambda c, m: "T" in c.split("|")[0] and "O" in c.split("|")[0],
                  describe="Timer::precision() (cached) for sequences of TSC/OS queries in one process, one process per case; "
                           "history-driven: the OS measurement is taken from the implementation's first OS answer")

MANIFEST = {
    "text": "Coq theorems over all of u64 x u64 x (u64 minus 0): the conversion model returns exactly the floor, never overflows its 128-bit intermediate, is monotone, additive up to 1 ps, shift invariant; Duration conversion exact and panic-free; measure_precision on any uniform stream of length >= 101 returns the step. The model is tied to the code by differential execution on boundary-dense inputs (debug and release) and by the generated PICOS constant.",
    "note": "Trusted: Coq kernel, extraction (ExtrOcamlBasic), OCaml driver, hooks H1-H3, hand-written model validated by the correspondence stream; rdtsc/cntvct assembly, frequency probing and Instant are outside the model.",
    "technique": "machine-checked proof in Coq (lia/nia over N) + differential correspondence against the real crate",
}
