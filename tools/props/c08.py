"""C08 — threads of a parallel benchmark enter and leave timed sections together;
own allocations per sample; a panic on any thread ends the run with a panic on
the calling thread instead of a hang."""
import os
from concurrent.futures import ThreadPoolExecutor

import vp
from vp import Stream

DRV = "round"
CRATE = "hx-round"

RULE = ("run: real multi-threaded Bencher runs (threads T in {2,3,4,8}, sample_count S giving ceil(S/T) rounds, "
        "sample_size n in 1..4, eight type shapes = drops of outputs/inputs x zero-sized/sized types through "
        "bench_values/bench_refs, skip_ext_time on/off) under the virtual clock with divan::AllocProfiler as global "
        "allocator; random yields/sleeps/spins at every generator call, benchmarked call and Drop, plus one designated "
        "slow thread sleeping 1-2 ms in its generator / call / drops. The global event log (sequence numbers) is "
        "replayed through the extracted `step` (every event must be the thread's next program action and barrier "
        "leaves must be enabled), the extracted `log_sb` checks the phase order on the observed global order and the "
        "recorded allocation info (sample index -> tally) must equal the extracted `records` (index r*T+t holds thread "
        "t's own tally of round r, no entry for an empty tally); allocation masks make any subset of the threads "
        "allocate in its timed section (only the last thread, all but thread 0, none, random, different per round), and "
        "per-thread behaviours (allocate, allocate+free, free-only from a pool pre-filled on another thread, shrink-only on "
        "pre-grown vectors, nothing) over >= 3 rounds; the full tally (alloc, dealloc, grow, shrink counts and bytes) of every "
        "recorded sample is compared. tune: T in {2,3}, no sample_size, every call costs 60/30/13 virtual ticks "
        "at a precision of 1 tick so that tuning takes 2/3/4 rounds (sizes 1, 2, 4, ...; call budget as watchdog), same jitter; the "
        "per-round sizes are read off the log (history-driven) and replay, log_sb and the recorded samples (from the round that ends "
        "tuning on) are checked with them. e2e: the real-macro binary hx-round-e2e, "
        "#[divan::bench] functions with the Rust ABI and extern C/system ABI returning outputs with drop glue (sized and "
        "zero-sized), threads 2/3 through Divan::from_args().main(), one process per case, optionally one slow thread; divan's "
        "own unlogged `|| ()` generator calls are put back before each thread's first wait, then the same replay and log_sb apply. "
        "panic: T in {2,3}, a panic injected at every "
        "(thread, phase in {first/last generator call, first/last benchmarked call, first output drop, first input "
        "drop}) in round 0 or 1, plus two-thread and all-thread panics, each under a watchdog (outcome `hang`). "
        "Non-trivial = the model accepted the whole log and the run had >= 2 threads; distinct by case line. "
        "post: exhaustive exploration of the extracted transition system over all interleavings and all fault sets "
        "for T in {2,3}, 1-2 rounds (invariant, phase order, deadlock freedom, measure, outcome), and of the "
        "pre-fix protocol (must show deadlocks).")
ASSUMPTIONS = [
    "std::sync::Barrier behaves as documented (count + generation; the arrival completing the count releases all)",
    "the thread pool is a fork/join: par_extend returns after every thread's task ended, a panicking task leaves its slot None (properties C06/C07)",
    "ThreadAllocInfo::current() returns Some on every benchmark thread (Linux thread_local, thread not terminating): hypothesis "
    "fixed_code of the theorems; the other branch of sync_impl is in the model (has_info) and C08_mixed_info_deadlocks shows "
    "that a None on one thread only would deadlock the round",
    "the number of rounds and the sample size of each round are inputs of the model (decided by the sampling loop, properties C03/C04/C19)",
    "every barrier wait is logged, the guard's waits while unwinding included (hook H5, a = 3): the replay matches every model step "
    "that touches the barrier one to one with a logged event in the global order; silent steps are only the end of the guard's "
    "drop, the return from record_sample, join and start of a round",
    "log_sb (the monitor evaluated on observed logs) is proved to accept every model execution, for arbitrary per-round sample sizes (C08_log_sb_model)",
]
TRUSTED = [
    "real-thread schedules are sampled (jitter), not enumerated; all interleavings are covered by the Coq theorems over the model",
]
CONSTS_USED = ['barrier_wait_count']

SHAPES = [("00", "z"), ("00", "v"), ("10", "z"), ("10", "v"), ("01", "z"), ("01", "r"), ("11", "z"), ("11", "r")]


def case_line(T, S, n, sh, path, seed, jit, slow=0, skipext=0, fault="none", hang_ms=4000, test=0, mask="", tune=0, cost=0):
    R = (S + T - 1) // T
    if test:  # Action::Test: one round, one call per thread, whatever the options say
        R, n = 1, 1
    if tune:  # no sample_size: rounds and sizes are what the loop chooses; the driver reads them off the log
        return (f"T={T} S={S} R=0 n=1 sh={sh} path={path} seed={seed} jit={jit} slow={slow} "
                f"skipext={skipext} hang_ms={hang_ms} test=0 tune=1 cost={cost} fault=none")
    return (f"T={T} S={S} R={R} n={n} sh={sh} path={path} seed={seed} jit={jit} slow={slow} "
            f"skipext={skipext} hang_ms={hang_ms} test={test}" + (f" mask={mask}" if mask else "") + f" fault={fault}")


BEHAVIOURS = "01bfs"   # per thread: nothing, allocate, allocate+free, free-only, shrink-only


def masks_for(T, rng, kind):
    """What each thread does in the calls of its timed section, per round (cycling): '0' nothing, '1' allocate,
    'b' allocate and free, 'f' free blocks allocated before the run, 's' shrink vectors grown before the run."""
    if kind == "last":
        return "0" * (T - 1) + "1"
    if kind == "not0":
        return "0" + "1" * (T - 1)
    if kind == "none":
        return "0" * T
    if kind == "first":
        return "1" + "0" * (T - 1)
    if kind == "rand":
        return "".join(rng.choice("01") for _ in range(T))
    if kind == "freeonly":
        return "f" * T
    if kind == "shrinkonly":
        return "s" * T
    if kind == "behav":      # one behaviour per thread, the same in every round
        return "".join(rng.choice(BEHAVIOURS) for _ in range(T))
    if kind == "behavround":  # a different assignment in each of up to three rounds
        return ",".join("".join(rng.choice(BEHAVIOURS) for _ in range(T)) for _ in range(rng.choice([2, 3])))
    # a different random subset in each of up to three rounds
    return ",".join("".join(rng.choice("01") for _ in range(T)) for _ in range(rng.choice([2, 3])))


def corpus_cases(e2e=False):
    out = []
    d = os.path.join(vp.ROOT, "corpus")
    if os.path.isdir(d):
        for f in sorted(os.listdir(d)):
            if f.startswith("C08-") and f.endswith(".txt") and (f.startswith("C08-e2e") == e2e):
                for line in open(os.path.join(d, f), encoding="utf-8"):
                    line = line.strip()
                    if line and not line.startswith("#"):
                        out.append(line)
    return out


def parallel_runner(nproc):
    """Runs the harness on `nproc` chunks concurrently (each case spawns its own threads)."""
    def runner(st, hbin):
        cases = st.cases
        k = max(1, min(nproc, len(cases) // 8 or 1))
        chunks = [cases[i::k] for i in range(k)]

        def one(chunk):
            rc, lines, err, dt = vp.run_lines(hbin, st.mode, chunk, st.impl_timeout)
            if len(lines) != len(chunk):
                lines = lines[:len(chunk)] + ["crash rc=%s" % rc] * (len(chunk) - len(lines))
            return lines
        with ThreadPoolExecutor(max_workers=k) as ex:
            res = list(ex.map(one, chunks))
        out = [None] * len(cases)
        for j, lines in enumerate(res):
            for i, l in enumerate(lines):
                out[j + i * k] = l
        return out
    return runner


def kvs(case):
    return dict(t.split("=", 1) for t in case.split(" ") if "=" in t)


def hist_of(cases):
    h = {}
    for c in cases:
        d = kvs(c)
        m = d.get("mask")
        k = "mask=" + ("all-allocate" if not m else "free/shrink-only-threads" if ("f" in m or "s" in m) else
                       "per-round" if "," in m else "none" if "1" not in m and "b" not in m else "subset")
        h[k] = h.get(k, 0) + 1
        if d.get("tune") == "1":
            h["cost=" + d.get("cost", "?")] = h.get("cost=" + d.get("cost", "?"), 0) + 1
        for key in ("T", "n", "sh", "path", "jit", "R"):
            k = f"{key}={d.get(key)}"
            h[k] = h.get(k, 0) + 1
        f = d.get("fault", "none")
        k = "fault=" + ("none" if f == "none" else "+".join(sorted(x.split(":")[2] for x in f.split(","))))
        h[k] = h.get(k, 0) + 1
    return dict(sorted(h.items()))


def streams(tier, rng):
    quick = tier == "quick"
    n_run = 330 if quick else 6000
    corpus = corpus_cases()
    run = [c for c in corpus if "fault=none" in c]
    pan = [c for c in corpus if "fault=none" not in c]

    # ---- schedules ---------------------------------------------------------
    # every (T, shape) once with each slow-thread mode, then random
    for T in (2, 3, 4, 8):
        for sh, path in SHAPES:
            for jit in (2, 3, 4):
                n = rng.choice([1, 2, 3])
                S = T * rng.choice([1, 2])
                run.append(case_line(T, S, n, sh, path, rng.getrandbits(32), jit, slow=rng.randrange(T),
                                     skipext=rng.randrange(2)))
    # allocation masks: any subset of the threads allocates in its timed section, over several rounds
    for T in (2, 3, 4, 8):
        for kind in ("last", "not0", "none", "first", "rand", "perround"):
            sh, path = rng.choice(SHAPES)
            run.append(case_line(T, T * rng.choice([2, 3]), rng.choice([1, 2]), sh, path, rng.getrandbits(32),
                                 rng.choice([0, 1]), skipext=rng.randrange(2), mask=masks_for(T, rng, kind)))
    # behaviours: free-only / shrink-only threads (memory owned elsewhere), >= 3 rounds, every type shape once
    for T in (2, 3, 4):
        for kind in ("freeonly", "shrinkonly", "behav", "behav", "behavround"):
            for sh, path in rng.sample(SHAPES, 3) + [("00", "z")]:
                run.append(case_line(T, T * rng.choice([3, 4]), rng.choice([1, 2]), sh, path, rng.getrandbits(32),
                                     rng.choice([0, 1]), skipext=rng.randrange(2), mask=masks_for(T, rng, kind)))
    for T in (2, 3, 8):   # Action::Test goes through the same barrier protocol
        for sh, path in SHAPES[1::2]:
            run.append(case_line(T, 2 * T, 3, sh, path, rng.getrandbits(32), rng.choice([1, 2, 3, 4]), slow=rng.randrange(T), test=1))
    while len(run) < n_run:
        T = rng.choice([2, 2, 3, 3, 4, 8] + ([16, 32] if not quick else []))
        sh, path = rng.choice(SHAPES)
        n = rng.choice([1, 1, 2, 3, 4])
        S = rng.choice([1, T, T, 2 * T, 2 * T + 1, 3 * T])
        jit = rng.choice([0, 1, 1, 1, 2, 3, 4])
        mask = masks_for(T, rng, rng.choice(["last", "not0", "none", "rand", "perround", "behav", "behavround"])) if rng.random() < 0.4 else ""
        run.append(case_line(T, S, n, sh, path, rng.getrandbits(32), jit, slow=rng.randrange(T), skipext=rng.randrange(2),
                             mask=mask))

    # ---- panic injection -----------------------------------------------------
    for T in (2, 3):
        for sh, path in (SHAPES if not quick else [("00", "v"), ("11", "r"), ("11", "z"), ("10", "v"), ("01", "r")]):
            n = 2
            phases = [("g", 0), ("g", n - 1), ("c", 0), ("c", n - 1)]
            if sh[0] == "1":
                phases.append(("o", 0))
            if sh[1] == "1":
                phases.append(("i", n - 1))
            for t in range(T):
                for ph, k in phases:
                    for r in ((0, 1) if (not quick or (t + k) % 2 == 0) else (0,)):
                        S = 2 * T
                        pan.append(case_line(T, S, n, sh, path, rng.getrandbits(32), rng.choice([0, 1, 1, 2, 3]),
                                             slow=rng.randrange(T), skipext=rng.randrange(2), fault=f"{t}:{r}:{ph}:{k}"))
        # several threads panic (different phases), all threads panic
        for sh, path in [("00", "v"), ("11", "r")]:
            pan.append(case_line(T, T, 2, sh, path, rng.getrandbits(32), 1, fault=",".join(f"{t}:0:c:{t % 2}" for t in range(T))))
            pan.append(case_line(T, T, 2, sh, path, rng.getrandbits(32), 1, fault=",".join(f"{t}:0:g:{t % 2}" for t in range(T))))
            pan.append(case_line(T, T, 2, sh, path, rng.getrandbits(32), 1, fault=f"0:0:g:1,{T - 1}:0:c:0"))
            pan.append(case_line(T, 2 * T, 1, sh, path, rng.getrandbits(32), 1, fault=f"{T - 1}:1:g:0,0:1:c:0"))
            pan.append(case_line(T, T, 1, sh, path, rng.getrandbits(32), 1, fault=f"{T - 1}:0:c:0", test=1))
    if not quick:
        for _ in range(600):
            T = rng.choice([2, 3, 4, 8, 16])
            sh, path = rng.choice(SHAPES)
            n = rng.choice([1, 2, 3])
            S = T * rng.choice([1, 2, 3])
            R = (S + T - 1) // T
            fs = []
            for _ in range(rng.choice([1, 1, 2, 3])):
                ph = rng.choice(["g", "c"] + (["o"] if sh[0] == "1" else []) + (["i"] if sh[1] == "1" else []))
                fs.append(f"{rng.randrange(T)}:{rng.randrange(R)}:{ph}:{rng.randrange(n)}")
            pan.append(case_line(T, S, n, sh, path, rng.getrandbits(32), rng.choice([0, 1, 2, 3, 4]),
                                 slow=rng.randrange(T), fault=",".join(sorted(set(fs)))))

    # ---- tuned runs: no sample_size; sizes 1, 2, 4, ... until a sample outlasts 100 x precision -----------
    tune = [c for c in corpus if "tune=1" in c]
    run = [c for c in run if "tune=1" not in c]
    for T in (2, 3):
        for cost in (60, 30, 13):          # tuning takes 2, 3, 4 rounds
            for jit in (2, 4, 3, 1):       # slow thread in its generator / its drops / its calls; random jitter
                for _ in range(2 if quick else 12):
                    sh, path = rng.choice(SHAPES if jit != 4 else [x for x in SHAPES if x[0] != "00"])
                    tune.append(case_line(T, T * rng.choice([1, 2, 3]), 1, sh, path, rng.getrandbits(32), jit,
                                          slow=rng.randrange(T), skipext=rng.randrange(2), tune=1, cost=cost))

    # ---- real-macro binary: extern-ABI benches with Drop outputs, several threads, real entry point ---------
    e2e = corpus_cases(e2e=True)
    for bench in ("extern_c", "extern_system", "extern_c_zst", "rust_abi", "rust_abi_zst"):
        for T in (2, 3):
            for _ in range(2 if quick else 10):
                n = rng.choice([1, 2, 3])
                S = T * rng.choice([1, 2])
                e2e.append(f"bench={bench} T={T} S={S} R={(S + T - 1) // T} n={n} sh=10 slow={rng.randrange(-1, T)} fault=none")

    mi = lambda case, impl: case + "\t" + impl
    nt = lambda c, m: (m.startswith("ok ") or m.startswith("panic ")) and "REJECT" not in m
    return [
        Stream("round-run", "run", run, nontrivial=nt, model_input=mi, impl_runner=parallel_runner(3),
               impl_timeout=900, hist=hist_of(run),
               describe="real threads, jittered schedules; global log replayed through the extracted step; log_sb + own allocations"),
        Stream("round-panic", "run", pan, nontrivial=nt, model_input=mi, impl_runner=parallel_runner(6),
               impl_timeout=900, hist=hist_of(pan),
               describe="panic injected at (thread, round, phase); expected: caller panics for the least faulting thread; hang = failure"),
        Stream("round-tune", "run", tune, nontrivial=nt, model_input=mi, impl_runner=parallel_runner(3),
               impl_timeout=900, hist=hist_of(tune),
               describe="no sample_size: tuning rounds of sizes 1, 2, 4, ... (2-4 of them) then collecting; per-round sizes read "
                        "off the log; replay, log_sb with per-round sizes, recorded allocation info from the round that ends tuning"),
        Stream("round-e2e", "e2e", e2e, nontrivial=nt, model_input=mi, impl_runner=parallel_runner(4), impl_timeout=900,
               hist={b: sum(1 for c in e2e if f"bench={b} " in c) for b in ("extern_c", "extern_system", "extern_c_zst", "rust_abi", "rust_abi_zst")},
               describe="real-macro binary hx-round-e2e (one process per case): #[divan::bench] extern \"C\"/\"system\" and Rust-ABI "
                        "functions returning Drop outputs, threads 2/3 through Divan::main; replay + log_sb on the global log "
                        "(output drops only after the end rendezvous, never while a thread is being timed)"),
    ]


BFS_GUARD = [
    "T=2 R=1 n=1 sh=00", "T=2 R=1 n=1 sh=11", "T=2 R=1 n=2 sh=10", "T=2 R=2 n=1 sh=01", "T=2 R=2 n=2 sh=11",
    "T=3 R=1 n=1 sh=00", "T=3 R=1 n=1 sh=11", "T=3 R=1 n=2 sh=00", "T=3 R=2 n=1 sh=10",
]
BFS_GUARD_THOROUGH = ["T=3 R=2 n=2 sh=11", "T=4 R=1 n=1 sh=00", "T=4 R=1 n=1 sh=11", "T=3 R=1 n=3 sh=01"]
BFS_OLD = ["T=2 R=1 n=1 sh=00 guard=0", "T=3 R=1 n=1 sh=00 guard=0",
           # ThreadAllocInfo::current() None on thread 1 only: that thread skips the second wait (latent hazard)
           "T=2 R=1 n=1 sh=00 noinfo=1", "T=3 R=1 n=1 sh=00 noinfo=1"]


def post(tier, rng, api):
    """Exhaustive exploration of the extracted transition system (supports, never replaces, the theorems)."""
    drv = api["driver_bin"](DRV)
    cases = BFS_GUARD + (BFS_GUARD_THOROUGH if tier != "quick" else []) + BFS_OLD
    rc, lines, err, dt = api["run_lines"](drv, "bfs", cases, 1700)
    out = {"evaluations": len(cases), "nontrivial_keys": [], "streams": [], "samples": [], "coverage": {}}
    if len(lines) != len(cases):
        out["problem"] = f"explorer failed: rc={rc} {err[-300:]}"
        return out
    tot_s = tot_t = 0
    per = []
    problem = None
    for c, l in zip(cases, lines):
        d = dict(t.split("=", 1) for t in l.split(" ") if "=" in t)
        per.append({"instance": c, **d})
        if "guard=0" in c or "noinfo=" in c:
            # the pre-fix protocol: the explorer must see its deadlocks (F5), else it is blind
            if d.get("deadlocks", "0") == "0":
                problem = problem or f"explorer found no deadlock in the pre-fix protocol ({c}): {l}"
        else:
            tot_s += int(d.get("states", 0))
            tot_t += int(d.get("transitions", 0))
            out["nontrivial_keys"].append(c)
            if d.get("fails") != "none" or d.get("deadlocks") != "0":
                problem = problem or f"explorer: {d.get('fails')} in instance ({c}): {l}"
    out["streams"].append({"stream": "round-explore", "mode": "bfs", "cases": len(cases), "disagreements": 0,
                           "wall_s": round(dt, 2),
                           "describe": f"all interleavings x all fault sets: {tot_s} states, {tot_t} transitions; "
                                       "inv_b, phase_sb, deadlock freedom, measure decrease, outcome checked in every state"})
    out["samples"].append({"stream": "round-explore", "case": cases[0], "impl": "(model only)", "model": lines[0]})
    out["coverage"]["exploration"] = {"states": tot_s, "transitions": tot_t, "instances": per}
    if problem:
        out["problem"] = problem
    return out


MANIFEST = {
    "text": "Coq theorems over a transition system with any number of threads T >= 2 (phase order; T >= 1 for the rest), any number of rounds and sample sizes, any interleaving and any fault set: an inductive invariant ties every thread's program position and guard counter to the barrier generation (count = number of threads blocked in the current generation; a thread is at most one wait behind), from which follow the phase order (start timestamp only after every thread generated and cleared or has panicked; snapshot/drops only after every thread took its end timestamp or has panicked), non-overlap of untimed work with timed sections, deadlock freedom, a strictly decreasing measure (every execution is finite) and the outcome of every maximal execution as a function of the fault set (caller panics for the least faulting thread of the first faulty round, returns normally iff no fault is in range); each returned sample holds exactly its own thread's operations between its clear and its snapshot; the caller's bookkeeping stores thread t's tally of round r under sample index r*T+t and nothing for an empty tally (C08_sample_index); the pre-fix protocol (no guard) deadlocks for T = 2 (F5). The model is tied to the code by replaying the global event log of real multi-threaded runs (jittered schedules, panic injection at every thread/phase under a watchdog) through the extracted step function, by the boolean phase-order specification evaluated on the observed global order, by per-sample allocation info under AllocProfiler, and by an exhaustive exploration of the extracted system for T in {2,3}.",
    "note": "Trusted: Coq kernel, extraction, OCaml driver, hooks H1-H4 and harness hx-round; std::sync::Barrier's documented semantics and the pool's fork/join contract (C06/C07) are assumptions of the model; ThreadAllocInfo::current() is assumed Some on every benchmark thread; number of rounds and sample sizes are model inputs (C03/C04/C19); real schedules are sampled, the theorems cover all of them.",
    "technique": "machine-checked proof in Coq (inductive invariant of a labelled transition system, unbounded thread count; lia) + trace replay of real-thread event logs through the extracted step function + exhaustive exploration of small instances + panic injection under a watchdog",
}
