"""C17 — each row is measured with the argument, constant and type it names."""
import glob
import os

import vp
from vp import Stream, ROOT
from props import treelib as T
from props import treeprog as P
from props import c12

DRV = "tree"
CRATE = "hx-run"

RULE = ("(i) synthetic registries whose entries take runtime arguments through the BenchArgs/BenchArgsRunner API exactly as the macro "
        "emits it, over 15 argument containers (items rendered as the empty string, &str items that are prefixes of one buffer, Vec<i64>, &[i64], Range, Vec<u8>, Debug-only items, chars, Vec<String>, Vec<&str>, "
        "&[&str], slice::Iter<&str>, Box<str>, Cow<str>), lengths 0..30 with duplicates, plain and generic (shared list) owners; the "
        "benchmark body logs the value it received and the harness pairs it with the row label printed by the --test run; x all seven "
        "sort settings x filters keeping a strict subset (exact label paths or literal substrings) x ignore flags; (ii) generated crates "
        "using the attribute macros: 13 argument expressions, types x consts x args, the body derives its identity from "
        "type_name::<T>() and the const N it was instantiated with, the args expression bumps a counter that must read 1. "
        "Non-trivial = at least one argument row executed; distinct by input line.")
ASSUMPTIONS = [
    "type labels: the model follows the repaired EntryType::display_name (F13: strip leading `ident::` components only); bytes >= 128 count as identifier bytes",
    "pointers into the names slice are indices in the model; slice_ptr_index and the unchecked cast behind the TypeId check are exercised, not modelled",
    "as for C14: filter = predicate on the display path, sort = any permutation of siblings and argument names; thread counts only at run-time level (--threads / Divan::threads, sorted, distinct, non-zero); entry-level `threads` absent or empty",
    "the flat semantics used as specification presupposes no module / generic-function name clash (finding F8)",
]
TRUSTED = ["harness/hx-run (value rendering i/s/d, pairing of printed rows with logged calls by execution order)",
           "the crate generator tools/props/treeprog.py"]
CONSTS_USED = []

LENGTHS = [0, 1, 2, 3, 5, 8, 13, 21, 30]


def corpus_cases():
    out = []
    for p in sorted(glob.glob(os.path.join(ROOT, "corpus", "C17-*.txt"))):
        for l in open(p, encoding="utf-8"):
            l = l.rstrip("\n")
            if l and not l.startswith("#"):
                out.append(l)
    return out


def nt(case, model):
    return "=i" in model or "=s" in model or "=d" in model


def args_registry(rng, big_len):
    r = T.Reg()
    mods = ["cr", "cr::m", "cr::m::deep"]
    for _ in range(rng.randrange(1, 4)):
        kind = rng.choice(T.ALL_KINDS)
        n = rng.choice(LENGTHS) if big_len else rng.randrange(0, 7)
        vals = T.gen_args(rng, kind, n)
        if rng.random() < 0.3:
            types = rng.sample(range(len(T.TYPE_NAMES)), rng.randrange(1, 3))
            consts = None
            if rng.random() < 0.5:
                consts = [("i", v) for v in rng.sample([1, 2, 10, -3], rng.randrange(1, 3))]
            r.generic_fn(rng.choice(mods), rng.choice(["gf", "gg", "gh"]) + str(r.next_gid), types=types, consts=consts,
                         kind=kind, vals=vals, opts=T.rand_opts(rng, 0.2))
        else:
            r.bench(rng.choice(mods), rng.choice(["f", "g", "h", "r#loop"]) + str(r.next_id), kind=kind, vals=vals,
                    opts=T.rand_opts(rng, 0.2), display=rng.choice(T.CUSTOM) if rng.random() < 0.15 else None)
    if rng.random() < 0.5:
        r.bench("cr::m", "plain")
    if rng.random() < 0.4:
        r.group("cr", "m", opts=T.rand_opts(rng, 0.5), display="M M" if rng.random() < 0.3 else None)
    rng.shuffle(r.benches)
    rng.shuffle(r.groups)
    return r


def subset_filters(rng, reg):
    paths = [p for p in reg.guess_paths()]
    if not paths or rng.random() < 0.25:
        return False, [], []
    k = rng.random()
    if k < 0.5:   # exact: a strict subset of the rows
        n = max(1, len(paths) // rng.choice([2, 3, 5]))
        return True, rng.sample(paths, min(n, len(paths))), ([rng.choice(paths)] if rng.random() < 0.3 else [])
    labels = sorted({p.rsplit("::", 1)[-1] for p in paths})
    lab = rng.choice(labels)
    piece = lab[: rng.randrange(1, len(lab) + 1)] if lab else "1"
    if k < 0.8:
        return False, ["::" + piece], []
    return False, [], [piece]


def args_tour(crate):
    F = P.F
    M = lambda raw, items, group=None: dict(k="M", raw=raw, items=items, group=group)
    items = []
    n = 0
    for kind in P.CONTAINERS:
        for ln in ([0, 3] if kind in ("arr_i", "arr_str") else [1, 4]) + ([30] if kind in ("arr_i", "vec_string", "range", "slice_str") else []):
            n += 1
            if kind in ("range", "range_incl"):
                vals = list(range(5, 5 + ln))
            elif P.CONTAINERS[kind][1] == "i":
                vals = [(7 * i * i - 40 * i + 3) % 211 - 100 for i in range(ln)] if kind != "arr_u8" else [(37 * i + 5) % 256 for i in range(ln)]
            elif kind == "arr_char":
                vals = ["abcxyzQ"[i % 7] for i in range(ln)]
            elif kind == "prefix_str":
                vals = [P.PREFIX_TEXT[:(3 * i + 2) % (len(P.PREFIX_TEXT) + 1)] for i in range(ln)]
            elif kind == "blank":
                vals = [i * 3 - 2 for i in range(ln)]
            elif kind in P.LABEL_FORMS:
                vals = [P.LABEL_FORMS[kind] % (i * 7 - 3) for i in range(ln)]
            else:
                vals = ["s%d" % ((i * 7) % 31) if i % 3 else P.STRV[i % len(P.STRV)] for i in range(ln)]
            items.append(F("k%d_%s" % (n, kind), args=(kind, vals), bencher=(n % 2 == 0)))
    items.append(F("gen_args", types=[0, 1, 6], args=("vec_i", [3, 1, 2]), bencher=True))
    # labels with line breaks (argument renderings and a custom name): the row shows the whole rendering
    items.append(F("multiline", name="two\nlines", args=("arr_str", ["north\neast", "north\nwest", "plain"])))
    items.append(F("multiline_v", args=("vec_string", ["one\ntwo\nthree", "one\ntwo"]), bencher=True))
    # type syntax other than a path: &String and String must not share a label, tuples / arrays / fn pointers keep their shape
    items.append(F("nonpath_types", types=[10, 1, 3, 11, 12, 13, 14, 15, 16, 17, 18, 19]))
    items.append(F("nonpath_types_cs", types=[10, 1, 11, 14], consts=("L", "i", [1, 2]), args=("arr_i", [5])))
    items.append(F("gen_cs_args", consts=("L", "i", [5, 50]), args=("arr_str", ["p", "q", "r"])))
    # inline const literals written with separators / radix prefixes / leading zeros / suffixes: the row label is the value's rendering
    items.append(F("gen_cs_spell", consts=("L", "i", [1000, 512, 16, 15, 7, 5], ["1_000", "0x200", "0b1_0000", "0o17", "007", "5i64"]),
                   args=("arr_i", [1, 2])))
    items.append(F("gen_cs_spell_t", types=[0, 6], consts=("L", "u", [4096, 10], ["0x1000", "1_0"]), const_first=True))
    items.append(F("gen_both_args", types=[2, 7], consts=("X", "u", [1, 2, 3]), const_first=True, args=("range", [0, 1])))
    items.append(M("grp", [F("inner_args", args=("arr_i", [10, 9, 1, 100, 2]))], group=dict(name="Grp", opts=dict(sample_count=2))))
    return P.Prog(crate, items)


def real_lines(rng, progs, per):
    cases = []
    for p in progs:
        exe = c12.exe_path(p)
        cases.append(p.line("TR", exe, ign="y"))
        cases.append(p.line("Rp", exe, ign="y", threads=[1, 2]))
        if p.crate == "e2e_args":
            cases.append(p.line("x", exe))
        cases.append(p.line("R", exe, ign="n", threads=[2, 3], sort="N"))
        for s in "knlKNL":
            cases.append(p.line("R", exe, ign="n", sort=s))
        for _ in range(per):
            piece = rng.choice(["::1", "::s", "k1", "::3", "gen", "0", "::q", "String", "::5"])
            cases.append(p.line("TR", exe, ign=rng.choice("ny"), pos=[piece] if rng.random() < 0.7 else [],
                                skip=[rng.choice(["::2", "A", "k2", "::p"])] if rng.random() < 0.5 else [], sort=rng.choice("-knlKNL")))
    return cases


def streams(tier, rng):
    big = tier != "quick"
    n_syn = 9000 if big else 1200
    corpus = corpus_cases()
    syn = []
    h = {"len_0": 0, "len_1_5": 0, "len_6_20": 0, "len_21_30": 0, "exact_subset": 0, "substring": 0, "no_filter": 0}
    while len(syn) < n_syn:
        reg = args_registry(rng, big_len=rng.random() < 0.5)
        exact, pos, skip = subset_filters(rng, reg)
        for b in reg.benches + reg.groups:
            if b["kind"] != "p":
                n = len(b["vals"])
                h["len_0" if n == 0 else "len_1_5" if n <= 5 else "len_6_20" if n <= 20 else "len_21_30"] += 1
        h["exact_subset" if exact else "substring" if (pos or skip) else "no_filter"] += 1
        syn.append(reg.line("R" if rng.random() < 0.7 else "TR", ign=rng.choice("nnyo"), exact=exact, pos=pos, skip=skip,
                            sort=rng.choice("-knlKNL")))
    # two or more thread counts: every argument row becomes a parent labelled with the argument, with leaves t=N
    thr = []
    while len(thr) < (2500 if big else 260):
        reg = args_registry(rng, big_len=rng.random() < 0.2)
        exact, pos, skip = subset_filters(rng, reg) if rng.random() < 0.5 else (False, [], [])
        threads = rng.choice([[1, 2], [1, 2], [1, 2, 3], [2, 4], [2], [1], [3]])
        thr.append(reg.line(rng.choice(["R", "p", "Rp"]), ign=rng.choice("nny"), exact=exact, pos=pos, skip=skip,
                            sort=rng.choice("-knlKNL"), threads=threads))
    # three concurrent runs in one process (argument expressions slowed down): every list evaluated once
    conc = []
    while len(conc) < (60 if big else 10):
        reg = args_registry(rng, big_len=False)
        conc.append(reg.line("x"))
    progs = [args_tour("e2e_args")] + [P.rand_program(rng, "e2e_a%d" % i, size=12) for i in range(1 if not big else 8)]
    real = real_lines(rng, progs, 4 if not big else 8)
    out = []
    if corpus:
        out.append(Stream("corpus", "c17", corpus, nontrivial=nt))
    out.append(Stream("args-sort-filter", "c17", syn, nontrivial=nt, hist=h))
    out.append(Stream("concurrent-runs", "c17", conc, nontrivial=lambda c, m: "=" in m,
                      describe="three threads released by a barrier, each Divan::default().test_benches(); evaluation count of every argument list"))
    out.append(Stream("thread-branches", "c17", thr, nontrivial=nt,
                      describe="--threads a,b / Divan::threads with one, two or three thread counts: row label per (argument, thread count)"))
    out.append(Stream("real-crates", "c17", real, nontrivial=nt, impl_runner=c12.build_then_run(progs), impl_timeout=900,
                      describe="%d generated crates: every argument expression kind, types x consts x args, evaluation counters" % len(progs),
                      hist={"crates": len(progs), "cases": len(real)}))
    return out


def shrink(item, rerun):
    return c12.shrink(item, rerun)

MANIFEST = {
    "text": "Coq theorems for every registry, filter, ignore flag, sort (any permutation of siblings and argument pointers) and running "
            "action: the run does not panic (indices taken from name pointers stay in range) and every executed argument row is displayed "
            "under a path ending in '::' + to_string(received value) (C17_label_value); the received value is value number i of the "
            "argument list of the entry whose function ran (C17_received_value); the executed multiset is exactly the selected subset of "
            "the registered cases (C17_selected_subset); every BenchArgs static is initialised once and found initialised by every runner "
            "(C17_once) and all generic instantiations of a function share one list (C17_once_shared); the type label names the type for "
            "every type name (label and type_name agree once ident:: qualifiers are deleted: C17_label_names_type, C17_labels_distinguish; the "
            "pre-repair label function fails on &a::S: C17_old_label_refuted, F13). Correspondence: synthetic registries "
            "through the BenchArgs API (12 containers, lengths 0..30, all sorts/reversals, strict-subset filters) and generated macro crates "
            "(13 argument expressions, types x consts x args; the body identifies itself by type_name::<T>() and N; evaluation counters).",
    "note": "Pointers into the names slice are indices in the model, so the proofs are short and the weight is on the correspondence. "
            "slice_ptr_index, the TypeId check and the unchecked cast are exercised, not modelled. Trusted: harness value rendering and the "
            "pairing of printed rows with logged calls by execution order.",
    "technique": "machine-checked proof in Coq + whole-program differential correspondence incl. generated macro crates",
}
