"""C04 — max_time, min_time and skip_ext_time bound sampling as documented."""
from props import loop_common as L

DRV = "loop"
CRATE = "hx-loop"

RULE = ("[options reach the loop as the runner builds them: every case places each of sample_count, sample_size, min_time, max_time, skip_ext_time on one of four layers (runner, bench, group, outer group), optionally with losing values further out, and the harness merges the layers through the real BenchOptions::overwrite; the model takes the resolved values] "
        "hx-loop runs the real bench_loop_threaded under the per-thread virtual clock (frequency mostly 10^12: one tick = 1 ps) "
        "with generator/call/drop costs scripted per (round, thread, iteration). Streams: (1) boundary-aimed: min_time or "
        "max_time placed exactly at the elapsed time after some round, and one tick below / above it (costs in whole ns, an "
        "extra of 999/1000/1001 ticks in that round), with and without skip_ext_time, explicit and tuned sizes, T in 1..4, "
        "per-thread clock offsets and skew so that the latest end is not the caller's, the other budget sometimes set around "
        "it (min > max included); (2) random (n, s, min, max, skip, T) incl. zero, Duration::MAX and durations of 2^64 ns and more whose "
        "nanosecond count has small low 64 bits (multiples of 2^55 s, 2^63 s, u64::MAX s) on either bound; (3) skip_ext_time with "
        "rounds faster than 1 ns (the 1 ns floor decides the round count); (4) end to end: hx-loop-e2e through Divan::main with --min-time/--max-time/"
        "DIVAN_MIN_TIME/DIVAN_MAX_TIME as decimal seconds with sub-millisecond parts, the benchmark running on the virtual clock (--timer tsc), rounds "
        "compared with the model under the exactly converted limits (decimal_nanos); (5) two runs on the OS timer (Instant) with calls of at "
        "least 400 ms under a 1 s ceiling, judged by the bound of C04_rounds_bounded; (6) end to end on the virtual clock with an input generator "
        "that takes external time: skip_ext_time from the bench attribute, the group, --skip-ext-time (bare, =true, =false), DIVAN_SKIP_EXT_TIME, or Divan::skip_ext_time(false|true) (before or after "
        "the limit; the builder wins), rounds read from the dumped event log, model driven by the same history; (7) the time origin: fresh processes "
        "with the REAL first-use overhead calibration (no override) under an auto-stepping virtual clock, min_time/max_time below and above the "
        "calibration time, judged by the rule with the elapsed time measured from just before the first sample (c04_cal_sb); (8) limits written as "
        "plain numbers of seconds: IntoDuration for u64 / f64 at function level against the exact nanosecond count, and benches whose attributes "
        "say max_time = u64::MAX, min_time = u64::MAX above a fractional ceiling, values near 2^64 and above 2^53, and the same through Duration. The harness logs every timestamp the loop takes; "
        "the log drives the extracted model; the extracted c04_sb (rounds = least k with not continue_after k, computed "
        "declaratively from the logged timestamps) is evaluated on the implementation's output. "
        "Non-trivial = agreed `ok` line with at least one round; distinct by input line.")
ASSUMPTIONS = [
    "time is the per-thread virtual timestamp counter (TscTimestamp::start/end return it); the OS timer path (Instant) is only exercised by the two "
    "c04-os-timer-ceiling runs (an upper bound on the rounds, no exact history); real TSC reads are not exercised",
    "decimal seconds on the command line go through f64 (str::parse + Duration::try_from_secs_f64); the model converts the decimal exactly; "
    "the generated values have at most 9 fractional digits and are below 1000 s, where the two agree",
    "Timestamp -> picoseconds is C11's model (tsc_duration), reused here",
    "the T raw samples of a round come back in thread order (C06's subject)",
]
TRUSTED = ["tools/props/loop_common.py (case generators; its Python rendering of the loop only aims cases at boundaries)"]
CONSTS_USED = ["max_time_cmp_is_ge", "min_time_cmp_is_lt", "min_progress_picos", "default_sample_count", "tune_threshold", "tune_factor",
               "origin_before_calib"]
GENERATED_OBLIGATIONS = ["C04_origin_after_calibration : origin_before_calib = false (the time origin is read after the first-use "
                         "overhead calibration)", "C04_loop_consts : max_time_cmp_is_ge = true /\\ min_time_cmp_is_lt = true /\\ min_progress_picos = 1000"]

DMAX = "18446744073709551615:999999999"
# at least 2^64 ns, with small low 64 bits of the nanosecond count (2^55 s = 5^9 * 2^64 ns): a conversion that
# truncates nanoseconds to u64 turns these into 0 or a few ns
HUGE = ["36028797018963968:0", "36028797018963968:5", "72057594037927936:0", "72057594037927936:1000",
        "9223372036854775808:0", "9223372036854775808:3", "18446744073709551615:0", DMAX]


def streams(tier, rng):
    big = tier != "quick"
    n_aim, n_rand, n_floor = (450, 420, 120) if not big else (9000, 8000, 2500)
    aimed, tries = [], 0
    while len(aimed) < n_aim and tries < 30 * n_aim:
        tries += 1
        base = L.rand_case(rng, tuned=(rng.random() < 0.3), test=False, timed=True)
        if base["s"] == 0 or base["n"] == 0:
            continue
        if base["n"] == "-" or int(base["n"]) > 10:
            base["n"] = rng.randrange(1, 9)
        if base["s"] != "-" and int(base["s"]) > 6:
            base["s"] = rng.randrange(1, 5)
        aimed.extend(L.aim_budget(rng, base, rng.choice(["max", "min"])))
    rand = []
    # corners: zero / huge budgets, min > max
    for T in (1, 2, 3):
        for mn, mx in (("0:0", "0:0"), ("0:0", DMAX), (DMAX, "0:1"), ("0:5", "0:2"), ("-", "0:1"), ("0:1", "-"), (DMAX, "0:0"),
                       ("0:3", "0:3"), ("0:2", "0:3")):
            for skip in ("0", "1"):
                rand.append(dict(mode="b", n=3, s=2, T=T, min=mn, max=mx, skip=skip, g=100, c=250, d=50))
                rand.append(dict(mode="b", n=2, s="-", T=T, min=mn, max=mx, skip=skip, g=100, c=250, d=50, p=3))
    # huge budgets: a huge ceiling never binds; a huge floor keeps the run going until the (small) ceiling
    for T in (1, 2):
        for h in HUGE:
            for skip in ("0", "1"):
                rand.append(dict(mode="b", n=3, s=2, T=T, min="-", max=h, skip=skip, g=100, c=250, d=50))
                rand.append(dict(mode="b", n=2, s=1, T=T, min=h, max="0:9", skip=skip, g=100, c=1000, d=50))
                rand.append(dict(mode="b", n=2, s="-", T=T, min="0:3", max=h, skip=skip, g=100, c=250, d=50, p=3))
    while len(rand) < n_rand:
        c = L.rand_case(rng, timed=True)
        c_ps = max(1, c["c"] * L.PS // c["f"])
        scale = max(1, (c_ps * rng.choice([1, 2, 5, 20, 100])) // 1000)
        k = rng.random()
        if k < 0.4:
            c["max"] = L.ns(rng.randrange(0, scale * 4 + 2))
        elif k < 0.5:
            c["max"] = rng.choice(["0:0", DMAX] + HUGE)
        k = rng.random()
        if k < 0.4:
            c["min"] = L.ns(rng.randrange(0, scale * 4 + 2))
        elif k < 0.5:
            c["min"] = rng.choice(["0:0", DMAX] + HUGE) if c.get("max", "-") not in ("-", DMAX, *HUGE) else "0:0"
        if L.fits(c):
            rand.append(c)
    floor = []
    while len(floor) < n_floor:
        T = rng.choice([1, 2, 3])
        c = dict(mode="b", n=rng.randrange(1, 6), s=rng.choice([1, 1, 2, 3, "-"]), T=T, skip="1", f=L.PS,
                 g=rng.randrange(0, 2000), c=rng.choice([1, 10, 99, 333, 499, 500, 999, 1000, 1001]), d=rng.randrange(0, 2000),
                 p=rng.choice([1, 2, 5]), off=L.rand_offsets(rng, T), skew=rng.choice([0, 0, 1, 100]))
        k = rng.randrange(1, 40)
        which = rng.choice(["min", "max", "both"])
        if which in ("min", "both"):
            c["min"] = L.ns(k)
        if which in ("max", "both"):
            c["max"] = L.ns(max(0, k + rng.choice([-2, 0, 1, 3])))
        if L.fits(c):
            floor.append(c)
    cli = L.cli_time_cases(rng, 45 if not big else 400)
    return [
        L.make_stream("c04-corpus", "c04", L.corpus("C04")),
        L.cli_time_stream("c04-cli-time-limits", cli),
        L.calib_stream("c04-e2e-calibration-origin"),
        L.into_duration_stream("c04-into-duration", rng, 120 if not big else 3000),
        L.skip_ext_stream("c04-e2e-attribute-limits", L.attr_limit_cases()),
        L.os_timer_stream("c04-os-timer-ceiling"),
        L.skip_ext_stream("c04-e2e-skip-ext-time", L.skip_ext_cases(rng, 92 if not big else 300)),
        L.make_stream("c04-boundaries", "c04", aimed, hist=L.histogram(aimed),
                      describe="min/max at the elapsed time of a round, -1/0/+1 tick"),
        L.make_stream("c04-random-budgets", "c04", rand, hist=L.histogram(rand),
                      describe="random and corner (zero, Duration::MAX, min > max) budgets"),
        L.make_stream("c04-skip-1ns-floor", "c04", floor, hist=L.histogram(floor),
                      describe="skip_ext_time with rounds faster than 1 ns"),
    ]


MANIFEST = {
    "text": "Coq theorems about the same model of bench_loop_threaded, for EVERY history of clock readings and every (n, s, min, max, skip, T), "
            "min > max, zero and u128-sized budgets included: the number of rounds run is the least k with not continue_after k, where "
            "continue_after k = elapsed_after k < max /\\ (counted_after k < n \\/ elapsed_after k < min) is defined declaratively from the "
            "timestamps (C04_rounds_least, C04_continue_meaning); max_time has priority (C04_max_has_priority); the loop's elapsed_picos equals "
            "the declarative elapsed time: latest end of the newest round minus the initial start, or under skip_ext_time the saturating sum "
            "of max(slowest thread's timed section, 1 ns) (C04_elapsed_def); the model never panics on well-formed histories while tuned sizes "
            "stay below 2^31 (C04_loop_total); the boolean specification holds of the model for every history (C04_model_sb). Comparison "
            "operators and the 1 ns floor are generated from the source (proof obligations C04_loop_consts).",
    "note": "All theorems full strength, closed under the global context. Time is the per-thread virtual timestamp counter behind "
            "TscTimestamp::start/end (hook H2); the Instant path and real TSC reads are not exercised; Timestamp->picoseconds reuses C11's model. "
            "Trusted: Coq kernel, extraction, OCaml driver, hooks, hx-loop, the model as validated by boundary-aimed correspondence streams.",
    "technique": "machine-checked proof in Coq (invariant over fold of rounds; declarative least-k rule) + history-driven differential "
                 "correspondence with budgets placed at/one tick below/above round boundaries + extracted specification on implementation outputs",
}


def shrink(item, rerun_case):
    return L.shrink_item(item, rerun_case)
