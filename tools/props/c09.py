"""C09 — AllocProfiler is a transparent wrapper around the wrapped allocator."""
import os
import re
import subprocess

from vp import Stream

DRV = "alloc"
CRATE = "hx-alloc"

RULE = ("prof: request sequences (a:size:align:ret alloc, z:size:align:ret alloc_zeroed, r:ptr:size:align:new_size:ret realloc, "
        "d:ptr:size:align dealloc) issued to a static AllocProfiler<Mock>; Mock (the wrapped allocator) logs every call with its "
        "arguments and answers with the scripted value `ret` (0 = null, about one answer in six); the harness prints Mock's log and "
        "the values AllocProfiler returned, the model (run with the same script as its `inner` function) must print the same, and the "
        "boolean specification is evaluated on the harness output (log = requests, returned = scripted). Generators: heap-like "
        "(realloc/dealloc of pointers that were returned earlier, same layout) and arbitrary; sizes 0..2^40 (boundary stream: up to "
        "isize::MAX - (align-1), new_size up to 2^64-1, where the debug build's tally panics and the model says so), alignments "
        "2^0..2^12, lengths 0..400; answers are null (1 in 6), aligned addresses, or - about 1 in 4 - sentinel / odd / under-aligned "
        "values (1, 3, base+1, base+3, base+align/2, 2^47-1, 2^64-1), which must be passed through unchanged too. nest: forests of "
        "requests (depth-annotated pre-order): ReMock, while serving a request, issues the scripted nested requests through the "
        "profiler wrapping it or a second AllocProfiler<ReMock> instance (nested requests are alloc/alloc_zeroed of 0..4096 bytes; "
        "top-level ones any kind, sizes up to 2^40), depth up to 5; its log must be the pre-order of the forest, every requester "
        "(harness or ReMock) must get ReMock's answer, the tally that of the pre-order sequence (non-trivial = at least one nested "
        "request). churn (tested, not proved): a second binary whose #[global_allocator] is "
        "Outer<AllocProfiler<Inner<System>>>, both layers logging enter/exit events into one fixed ring from the first allocation of "
        "the process on; after thread spawn/exit churn (some threads leave by unwinding) with allocation from TLS destructors the ring "
        "must be, per thread, groups outer-enter inner-enter inner-exit outer-exit of one method with equal arguments and results (no "
        "extra inner call, no nested outer call = no re-entrancy), each worker's tally must equal what the outer layer saw, and the "
        "process must exit 0 with allocating threads still alive. Non-trivial: prof = at least two request kinds and at least one "
        "null answer; churn = at least 2 threads. Distinct by input line.")
ASSUMPTIONS = [
    "the theorem C09_transparent is near-definitional: the model forwards what the code forwards; the evidence for C09 is the "
    "correspondence of that model with the real AllocProfiler around a logging mock, checked on every run",
    "TESTED, NOT PROVED: 'never allocates or re-enters itself, also on threads that have not yet used it or are shutting down' is "
    "run-time behaviour of thread_local!/try_with that no Gallina model exhibits; it is exercised by the churn stream only "
    "(x86_64 Linux, const-initialised thread_local without destructor)",
    "non-macOS cfg only: the macOS pthread-key path (where current() allocates with System, not with the wrapped allocator) is not modelled",
    "pointers are modelled as numbers; memory safety of the wrapped allocator's blocks is outside the model",
]
TRUSTED = [
    "harness/hx-alloc: Mock inner allocator (logs calls, scripted answers, never touches memory)",
    "harness/hx-alloc/src/bin/hx-alloc-global.rs: Outer/Inner logging layers (fixed ring in .bss, thread identified by %fs:0), its "
    "workload and its own analysis of the ring — tested, not proved",
]
CONSTS_USED = []

P40 = 2**40
ISIZE_MAX = 2**63 - 1


def size(rng):
    k = rng.random()
    if k < 0.12:
        return 0
    if k < 0.40:
        return rng.randrange(1, 128)
    if k < 0.65:
        return rng.randrange(1, 1 << rng.randrange(1, 21))
    if k < 0.88:
        return rng.randrange(1, 1 << rng.randrange(20, 41))
    return rng.choice([1, 8, 4095, 4096, 4097, 2**32 - 1, 2**32, P40 - 1, P40])


def align(rng):
    return 1 << rng.randrange(0, 13)


def answer(rng, al, fresh):
    """What the wrapped allocator answers: null, an aligned address, or - the mock never touches memory, so any
    usize is a legitimate answer to pass through - a sentinel / odd / under-aligned address."""
    k = rng.random()
    if k < 0.17:
        return 0
    fresh[0] += 1
    base = (0x100000 + fresh[0] * 8192) // al * al or al
    if k < 0.40:
        return rng.choice([1, 3, base + 1, base + 3, base + al // 2 if al > 1 else base + 1, 2**47 - 1, 2**64 - 1])
    return base


def gen_seq(rng, n, boundary=False):
    live = []  # (ptr, size, align)
    out = []
    fresh = [rng.randrange(1 << 20)]
    for _ in range(n):
        k = rng.random()
        heap = rng.random() < 0.7
        if k < 0.30 or (heap and not live and k < 0.8):
            s, al = size(rng), align(rng)
            if boundary and rng.random() < 0.3:
                s = rng.choice([ISIZE_MAX - (al - 1), ISIZE_MAX - (al - 1) - 1, 2**62, 2**63 - 4096])
            kind = "z" if rng.random() < 0.35 else "a"
            ret = answer(rng, al, fresh)
            if ret:
                live.append((ret, s, al))
            out.append(f"{kind}:{s}:{al}:{ret}")
        elif k < 0.62:
            if heap and live:
                p, s, al = live.pop(rng.randrange(len(live)))
            else:
                p, s, al = rng.choice([0, 1, 4096, rng.getrandbits(47)]), size(rng), align(rng)
            out.append(f"d:{p}:{s}:{al}")
        else:
            if heap and live:
                j = rng.randrange(len(live))
                p, s, al = live[j]
            else:
                j = None
                p, s, al = rng.choice([1, 4096, rng.getrandbits(47)]), size(rng), align(rng)
            m = rng.random()
            new = s if m < 0.12 else 0 if m < 0.22 else size(rng)
            if boundary and rng.random() < 0.4:
                new = rng.choice([2**63 - 1, 2**63, 2**64 - 1, 2**64 - 2, ISIZE_MAX - (al - 1)])
            ret = answer(rng, al, fresh)
            if j is not None and ret:
                if new <= ISIZE_MAX - (al - 1):
                    live[j] = (ret, new, al)   # on failure the old block stays
                else:
                    live.pop(j)
            out.append(f"r:{p}:{s}:{al}:{new}:{ret}")
    return out


def length(rng):
    k = rng.random()
    if k < 0.06:
        return rng.randrange(0, 2)
    if k < 0.6:
        return rng.randrange(1, 25)
    if k < 0.9:
        return rng.randrange(25, 150)
    return rng.randrange(150, 401)


FIXED = [
    "a:0:2:1", "z:0:4096:1", "a:7:8:1048579", "r:4096:16:16:32:8195", "a:64:64:18446744073709551615",
    "", "a:0:1:0", "a:5:8:4096", "z:5:8:4096", "z:0:4096:0", "d:0:0:1", "d:4096:5:8", "r:4096:5:8:5:0", "r:4096:5:8:0:4096",
    "a:5:8:4096 z:0:1:0 r:4096:5:8:77:0 d:4096:5:8", "r:4096:100:16:200:0 r:4096:100:16:200:8192 d:8192:200:16",
    "a:1099511627776:4096:0 a:1099511627776:4096:1048576 r:1048576:1099511627776:4096:0:0 d:1048576:1099511627776:4096",
    "z:7:1:3 z:7:2:0 z:7:4:0 z:7:4096:8192",
]


def load_corpus():
    d = os.path.join(os.path.dirname(os.path.dirname(os.path.dirname(os.path.abspath(__file__)))), "corpus")
    out = []
    if os.path.isdir(d):
        for f in sorted(os.listdir(d)):
            if f.startswith("C09-") and f.endswith(".txt"):
                for line in open(os.path.join(d, f)):
                    line = line.rstrip("\n")
                    if line and not line.startswith("#"):
                        out.append(line)
    return out


def hist(cases):
    h = {"alloc": 0, "alloc_zeroed": 0, "realloc": 0, "dealloc": 0, "null answers": 0, "size 0": 0, "size >= 2^32": 0,
         "new_size >= 2^63": 0, "align 1": 0, "align 4096": 0, "len 0-1": 0, "len 2-24": 0, "len 25-149": 0, "len 150-400": 0}
    for c in cases:
        toks = [t for t in c.split(" ")[1:] if t]
        n = len(toks)
        h["len 0-1" if n < 2 else "len 2-24" if n < 25 else "len 25-149" if n < 150 else "len 150-400"] += 1
        for t in toks:
            f = t.split(":")
            k = f[0]
            h[{"a": "alloc", "z": "alloc_zeroed", "r": "realloc", "d": "dealloc"}[k]] += 1
            s, al = (int(f[1]), int(f[2])) if k in "az" else (int(f[2]), int(f[3]))
            if k in "azr" and f[-1] == "0":
                h["null answers"] += 1
            if s == 0:
                h["size 0"] += 1
            if s >= 2**32:
                h["size >= 2^32"] += 1
            if k == "r" and int(f[4]) >= 2**63:
                h["new_size >= 2^63"] += 1
            if al == 1:
                h["align 1"] += 1
            if al == 4096:
                h["align 4096"] += 1
    return h


def nt_prof(c, m):
    toks = [t for t in c.split(" ")[1:] if t]
    kinds = {t[0] for t in toks}
    nulls = any(t[0] in "azr" and t.endswith(":0") for t in toks)
    return m.startswith("log=") and len(kinds) >= 2 and nulls



def gen_nest(rng, flag, n):
    """Forests of requests: the wrapped allocator issues nested requests through a profiler while serving one."""
    fixed = [
        "0:p:a:100:8:4096 1:q:z:24:8:1 2:p:d:77:8:1 1:p:r:1:24:8:48:0 0:p:d:4096:100:8",
        "0:p:a:64:8:4096 1:p:a:16:8:8192",                      # nested alloc through the same instance
        "0:p:a:64:8:4096 1:q:a:16:8:8192",                      # ... through a second instance
        "0:p:z:64:8:4096 1:p:z:16:8:0",
        "0:p:d:4096:64:8 1:p:a:24:8:12288",
        "0:p:r:4096:64:8:128:8192 1:p:a:128:8:8192",
        "0:q:a:8:1:3 1:p:a:8:2:5 2:q:a:8:4:7 3:p:a:8:8:9",
        "0:p:a:5:1:4096 0:p:a:6:1:8192",
    ]
    cases = [f"{flag} {c}" for c in fixed]
    while len(cases) < n:
        fresh = [rng.randrange(1 << 20)]
        toks = []

        def node(depth, budget):
            al = align(rng)
            k = rng.random()
            # nested requests stay small and never free or resize a made-up block (a broken profiler that hands them to the
            # system allocator must not take the harness down before the mismatch is reported)
            s_ = size(rng) if depth == 0 else rng.randrange(0, 4097)
            via = rng.choice("pq")
            if depth > 0 or k < 0.55:
                kind = "z" if rng.random() < 0.35 else "a"
                toks.append(f"{depth}:{via}:{kind}:{s_}:{al}:{answer(rng, al, fresh)}")
            elif k < 0.8:
                toks.append(f"{depth}:{via}:d:{rng.choice([1, 4096, rng.getrandbits(40)])}:{s_}:{al}")
            else:
                toks.append(f"{depth}:{via}:r:{rng.choice([1, 4096, rng.getrandbits(40)])}:{s_}:{al}:{size(rng)}:{answer(rng, al, fresh)}")
            kids = 0
            while budget[0] > 0 and depth < 5 and rng.random() < (0.55 if depth == 0 else 0.35) and kids < 4:
                budget[0] -= 1
                kids += 1
                node(depth + 1, budget)

        budget = [rng.randrange(0, 14)]
        for _ in range(rng.randrange(1, 6)):
            node(0, budget)
        cases.append(flag + " " + " ".join(toks))
    return cases


def nest_hist(cases):
    h = {"forests": 0, "requests": 0, "nested requests": 0, "max depth 0": 0, "max depth 1": 0, "max depth 2+": 0,
         "nested via the same instance": 0, "nested via the second instance": 0}
    for c in cases:
        toks = [t for t in c.split(" ")[1:] if t]
        h["forests"] += 1
        h["requests"] += len(toks)
        md = 0
        for t in toks:
            d, via = t.split(":")[:2]
            d = int(d)
            md = max(md, d)
            if d > 0:
                h["nested requests"] += 1
                h["nested via the same instance" if via == "p" else "nested via the second instance"] += 1
        h["max depth 0" if md == 0 else "max depth 1" if md == 1 else "max depth 2+"] += 1
    return h


def nt_nest(c, m):
    return m.startswith("log=") and any(t.split(":")[0] != "0" for t in c.split(" ")[1:] if t)


def run_global(st, hbin):
    """One process per case: `hx-alloc-global <threads> <rounds> <seed>`."""
    gbin = os.path.join(os.path.dirname(hbin), "hx-alloc-global")
    lines = []
    tot = {"inner calls checked": 0, "worker tallies checked": 0, "processes": 0, "ring events": 0}
    for c in st.cases:
        try:
            p = subprocess.run([gbin] + c.split(" "), stdout=subprocess.PIPE, stderr=subprocess.PIPE, text=True, timeout=120)
            out = p.stdout.strip().split("\n")[0] if p.stdout.strip() else ""
            if p.returncode != 0:
                lines.append(f"crash rc={p.returncode} {out}".strip())
            else:
                lines.append(out or "no-output")
            m = re.search(r"stats calls=(\d+) thread_ids=(\d+) windows=(\d+) events=(\d+)", p.stderr)
            if m:
                tot["inner calls checked"] += int(m.group(1))
                tot["worker tallies checked"] += int(m.group(3))
                tot["ring events"] += int(m.group(4))
            tot["processes"] += 1
        except subprocess.TimeoutExpired:
            lines.append("hang")
    st.hist = tot
    return lines


def streams(tier, rng):
    q = tier == "quick"
    n_d, n_r, n_b = (900, 400, 300) if q else (25000, 10000, 8000)
    corpus = load_corpus()

    def gen(flag, n, boundary=False):
        cases = [f"{flag} {c}".rstrip() for c in FIXED] if not boundary else []
        while len(cases) < n:
            cases.append((flag + " " + " ".join(gen_seq(rng, length(rng), boundary))).rstrip())
        return cases

    prof_d = [c for c in corpus if c.startswith("D")] + gen("D", n_d)
    prof_r = [c for c in corpus if c.startswith("R")] + gen("R", n_r)
    bound_d = gen("D", n_b, True)
    bound_r = gen("R", n_b, True)
    churn = ["1 3 1", "2 10 2", "4 10 3", "8 6 4"] + [f"{rng.choice([2, 3, 4, 6, 8])} {rng.randrange(4, 25)} {rng.getrandbits(32)}"
                                                      for _ in range(36 if q else 400)]
    churn_r = ["1 2 9", "8 10 5"] + [f"{rng.choice([2, 4, 8])} {rng.randrange(4, 25)} {rng.getrandbits(32)}" for _ in range(18 if q else 200)]
    nt_churn = lambda c, m: int(c.split(" ")[0]) >= 2
    nest_d = gen_nest(rng, "D", 500 if q else 12000)
    nest_r = gen_nest(rng, "R", 200 if q else 5000)
    return [
        Stream("reentrant-mock-debug", "nest", nest_d, nontrivial=nt_nest, hist=nest_hist(nest_d),
               describe="the wrapped allocator issues scripted nested requests through a profiler (same or second instance) while "
                        "serving a request; its log must be the pre-order of the forest, every requester gets its answer"),
        Stream("reentrant-mock-release", "nest", nest_r, nontrivial=nt_nest, release=True, hist=nest_hist(nest_r)),
        Stream("profiler-around-mock-debug", "prof", prof_d, nontrivial=nt_prof, hist=hist(prof_d)),
        Stream("profiler-around-mock-release", "prof", prof_r, nontrivial=nt_prof, release=True, hist=hist(prof_r)),
        Stream("profiler-around-mock-boundary-debug", "prof", bound_d, nontrivial=nt_prof, hist=hist(bound_d),
               describe="layouts up to isize::MAX, new_size up to 2^64-1: outside C10's guard the debug tally may panic, as the model says"),
        Stream("profiler-around-mock-boundary-release", "prof", bound_r, nontrivial=nt_prof, release=True, hist=hist(bound_r)),
        Stream("global-allocator-churn-debug", "churn", churn, nontrivial=nt_churn, impl_runner=run_global,
               describe="TESTED, NOT PROVED: Outer<AllocProfiler<Inner<System>>> as #[global_allocator]; one process per case"),
        Stream("global-allocator-churn-release", "churn", churn_r, nontrivial=nt_churn, impl_runner=run_global, release=True,
               describe="TESTED, NOT PROVED: same, release build"),
    ]


def shrink(item, rerun):
    mode, case = item["mode"], item["case"]
    if mode != "prof":
        return item
    kw = dict(crate=item.get("crate", CRATE), release=item.get("release", False), drv=item.get("drv", DRV))

    def bad(c):
        impl, model, sb = rerun(mode, c, **kw)
        return not sb.startswith("true")

    if not bad(case):
        return item
    flag, toks = case.split(" ")[0], [t for t in case.split(" ")[1:] if t]
    join = lambda ts: (flag + " " + " ".join(ts)).rstrip()
    chunk = max(1, len(toks) // 2)
    budget = 300
    while chunk >= 1 and budget > 0:
        i, changed = 0, False
        while i < len(toks) and budget > 0:
            cand = toks[:i] + toks[i + chunk:]
            budget -= 1
            if bad(join(cand)):
                toks, changed = cand, True
            else:
                i += chunk
        if not changed:
            chunk //= 2
    c = join(toks)
    impl, model, sb = rerun(mode, c, **kw)
    out = dict(item)
    out.update({"case": c, "impl": impl, "model": model, "spec_verdict": sb, "shrunk_from_tokens": len(case.split())})
    return out

MANIFEST = {
    "text": "Coq theorem C09_transparent, for every request sequence, every behaviour of the wrapped allocator (an arbitrary "
            "function from the history of requests it received to its answer, null included), both builds and a present or absent "
            "tally slot: the calls reaching the wrapped allocator are exactly the requests (same method, layout, pointer, new_size, "
            "order; one per request) and the caller gets exactly its answers; C09_tally_independent (the tally is a function of the "
            "requests alone: the code tallies before the inner call, failed or not); C09_panic_only_from_tally, C09_release_total, "
            "C09_no_slot_total, C09_guarded_total, C09_forwarded_prefix (what was forwarded before a debug tally panic is exactly the first "
            "k requests), C09_nested_transparent (re-entrant wrapped allocator: for every forest of requests the wrapped allocator "
            "receives exactly the pre-order, nested requests included, and every requester gets its answer). This logic core is near-definitional; the weight is on the correspondence: the real "
            "AllocProfiler around a mock that logs every call and answers from a script (null about 1 in 6), sizes 0..2^40 and up to "
            "isize::MAX, alignments 1..4096, answers including sentinel / odd / under-aligned values, and a re-entrant mock that issues "
            "nested requests through the same or a second profiler instance, compared op by op with the model and judged by the extracted specification. The clause "
            "'never allocates or re-enters itself, also on threads starting up or shutting down' is TESTED, NOT PROVED: "
            "Outer<AllocProfiler<Inner<System>>> as #[global_allocator] in a separate process, ring of enter/exit events from the "
            "first allocation on, thread churn, unwinding threads, TLS-destructor allocation, exit with live allocating threads.",
    "note": "All theorems closed under the global context. Trusted: Coq kernel, extraction, OCaml driver, harness/hx-alloc (Mock; "
            "the Outer/Inner ring layers, workload and ring analysis of hx-alloc-global). The run-time part is a test on x86_64 Linux "
            "(const thread_local without destructor), not a proof; the macOS pthread-key path is not covered.",
    "technique": "machine-checked proof in Coq (near-definitional core) + differential correspondence against the real crate with a "
                 "logging/scripted mock allocator + run-time test with layered global allocators",
}
