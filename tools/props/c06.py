"""C06 — pool broadcast runs the task once per index and publishes its effects."""
from props import pool_common as pc

DRV = "pool"
CRATE = "hx-sched"
RULE = pc.RULE
ASSUMPTIONS = pc.ASSUMPTIONS
TRUSTED = pc.TRUSTED
CONSTS_USED = pc.CONSTS_USED
GENERATED_OBLIGATIONS = [
    "C06_cfg_good : pool_unpark_when_old = 1, pool_wait_is_loop = true, pool_wait_while_nonzero = true",
    "C06_dec_is_release : is_release pool_dec_ordering = true",
    "C06_load_is_acquire : is_acquire pool_load_ordering = true",
]


def streams(tier, rng):
    return pc.streams("c06", tier, rng)


post = pc.post
