"""C06 — pool broadcast runs the task once per index and publishes its effects."""
from props import pool_common as pc

DRV = "pool"
CRATE = "hx-sched"
RULE = pc.RULE
ASSUMPTIONS = pc.ASSUMPTIONS
TRUSTED = pc.TRUSTED
CONSTS_USED = list(pc.CONSTS_USED) + ["pool_payload_drop_after_wait"]
GENERATED_OBLIGATIONS = [
    "C06_cfg_good : pool_unpark_when_old = 1, pool_wait_is_loop = true, pool_wait_while_nonzero = true",
    "C06_dec_is_release : is_release pool_dec_ordering = true",
    "C06_load_is_acquire : is_acquire pool_load_ordering = true",
]


def streams(tier, rng):
    return pc.streams("c06", tier, rng)


post = pc.post

shrink = pc.shrink

MANIFEST = {
    "text": "Coq theorems over ALL reachable states of a labelled transition system of pool.rs (caller: TaskShared::new+spawn missing, rendezvous send, run index 0, load, park/spurious, return; worker: recv, run, clone handle, fetch_sub, unpark, exit), for every script of broadcasts, every interleaving, any panicking subset: each returned broadcast had every index 0..=n called exactly once (0 on the caller, k on worker k) and nothing else; the caller leaves the loop only with counter 0, no worker before its decrement and all n+1 calls made; no worker ever touches a dead or foreign task block (handle cloned before the decrement); the caller's view at return contains all calls provided the decrement releases and the load acquires (obligations discharged against the orderings read from the source); result slots are Some i / None exactly for the non-panicked / panicked calls; threads are spawned only when missing and kept. The model is tied to the code by replaying every explored schedule of the verbatim pool.rs (shuttle: random, PCT, bounded DFS) through the extracted step function, and a monitor extracted from Coq evaluates the property clauses on the implementation's traces.",
    "note": "Trusted: Coq kernel, extraction, OCaml driver (token->label translation), harness hx-sched (sched_std shim over shuttle 0.9.3, liveness table), extract_consts.py. Implementation side is sequentially consistent only; memory-ordering edits are caught by the generated-constant obligations (VIOLATION ... no-failing-input-found). std's park/unpark/sync_channel/Mutex are assumed, the abort guard for a panicking panic payload is not modelled.",
    "technique": "machine-checked proof in Coq (inductive invariants of a transition system, all interleavings) + trace-replay correspondence against the real pool.rs under a deterministic scheduler",
}
