HOOK_COMMITS = "d7d16a8d2733f68bbf61ecbe7b1e68c5e64013b2 42adbe47f133a96e5cfc5a0fd5069c5464218cc7 98993fb394f39d430d64b435a59bdd0e8de5d219 556a5b9a96f7b1563e8dfb97b07888eee6e99fea ".split()

PENDING = "not yet built in this session; planned at proof level (DESIGN.md section 7)"

CHECKS = [
    {
        "property_id": "C11",
        "text": "Coq theorems over all of u64 x u64 x (u64 minus 0): the conversion model returns exactly the floor, never overflows its 128-bit intermediate, is monotone, additive up to 1 ps, shift invariant; Duration conversion exact and panic-free; measure_precision on any uniform stream of length >= 101 returns the step. The model is tied to the code by differential execution on boundary-dense inputs (debug and release) and by the generated PICOS constant.",
        "note": "Trusted: Coq kernel, extraction (ExtrOcamlBasic), OCaml driver, hooks H1-H3, hand-written model validated by the correspondence stream; rdtsc/cntvct assembly, frequency probing and Instant are outside the model.",
        "technique": "machine-checked proof in Coq (lia/nia over N) + differential correspondence against the real crate",
    },
]

_claimed = {c["property_id"] for c in CHECKS}
NOT_APPLICABLE = [
    {"property_id": "C%02d" % i, "reason": PENDING}
    for i in range(1, 21) if "C%02d" % i not in _claimed
]
