"""Manifest data: hook commits; the per-property entries live in tools/props/cXX.py (MANIFEST dict)."""
import importlib, os, sys
sys.path.insert(0, os.path.dirname(os.path.abspath(__file__)))

HOOK_COMMITS = "d7d16a8d2733f68bbf61ecbe7b1e68c5e64013b2 42adbe47f133a96e5cfc5a0fd5069c5464218cc7 98993fb394f39d430d64b435a59bdd0e8de5d219 556a5b9a96f7b1563e8dfb97b07888eee6e99fea 4e133267e0f097feb436378d6e2798f8247775fa ebfaf446cc402944495a05b24c59773a552e79b3 341abbefce5e523c12ffece820f9aa7a7181121d 5bee2c2a3c0499c1b10b04c5b0f52c723ba385f8 98bc66c2a2322bb90f67341a7eddc9fb68455adf 488ab72edc39781c0a2544ac1bfe1818b9128b56 cd02b1001acf527c1fca82f142d726672bb9b76b ab34177625e18be055941fdba83e6d972a11992f".split()

PENDING = "not yet built (planned at proof level, DESIGN.md section 7); no check is registered, so nothing is claimed"

CHECKS, NOT_APPLICABLE = [], []
for i in range(1, 21):
    pid = "C%02d" % i
    try:
        mod = importlib.import_module("props." + pid.lower())
        man = getattr(mod, "MANIFEST", None)
    except ModuleNotFoundError:
        man = None
    if man and not man.get("disabled"):
        CHECKS.append(dict(man, property_id=pid))
    else:
        NOT_APPLICABLE.append({"property_id": pid, "reason": (man or {}).get("reason", PENDING)})
