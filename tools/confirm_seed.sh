#!/bin/bash
# usage: confirm_seed.sh <seed-dir> <slot>
#   <seed-dir> contains patch.diff, demo.diff, run_demo.sh;  <slot> names a persistent scratch
#   worktree /tmp/confirm-<slot> (created on first use; incremental builds are reused).
# Confirms: clean+demo passes; patch+existing suite passes; patch+demo fails.
# Prints one line: CONFIRM <name> demo_clean=<rc> suite=<rc> demo_patched=<rc> verdict=<ok|bad>
set -u
seed="$(cd "$1" && pwd)"; slot="$2"; wt="/tmp/confirm-$slot"
name="$(basename "$seed")"
export CARGO_TARGET_DIR="$wt/target" CARGO_NET_OFFLINE=true
if [ ! -d "$wt" ]; then git -C /repo worktree add -q --detach "$wt" HEAD || exit 2; fi
cd "$wt" || exit 2
git checkout -q -- . ; git clean -fdq -e target
git checkout -q --detach "$(git -C /repo rev-parse HEAD)" 2>/dev/null
log="$seed/confirm.log"; : > "$log"
# re-base the patch onto the current HEAD by a 3-way merge against the blobs it names (plain `git apply` can place a
# hunk in a look-alike function when later commits shifted the file); fall back to the patch as delivered
rb="$seed/patch.rebased.diff"
if git apply --3way "$seed/patch.diff" >>"$log" 2>&1; then git diff HEAD > "$rb"; else cp "$seed/patch.diff" "$rb"; fi
git reset -q --hard; git clean -fdq -e target
git apply "$seed/demo.diff" >>"$log" 2>&1 || { echo "CONFIRM $name demo.diff does not apply"; exit 1; }
timeout 1500 bash "$seed/run_demo.sh" >>"$log" 2>&1; d0=$?
git apply "$rb" >>"$log" 2>&1 || { echo "CONFIRM $name patch.diff does not apply"; git checkout -q -- .; git clean -fdq -e target; exit 1; }
timeout 1500 bash "$seed/run_demo.sh" >>"$log" 2>&1; d1=$?
# existing suite without the demo files (patch only)
git checkout -q -- . ; git clean -fdq -e target
git apply "$rb" >>"$log" 2>&1
echo "=== suite ===" >>"$log"
timeout 2400 cargo test --workspace --no-fail-fast --offline --lib --bins --tests >>"$log" 2>&1; s=$?
git checkout -q -- . ; git clean -fdq -e target
v=bad; [ $d0 -eq 0 ] && [ $s -eq 0 ] && [ $d1 -ne 0 ] && v=ok
echo "CONFIRM $name demo_clean=$d0 suite=$s demo_patched=$d1 verdict=$v"
