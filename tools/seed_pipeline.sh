#!/bin/bash
# usage: seed_pipeline.sh <slot> <name[:extra-checks,comma-separated]> ...
# For each seed under /tmp/seed-out/<name>: confirm it (tools/confirm_seed.sh), then run the check of the property
# it breaks (plus the extra checks) against it (tools/run_seed.sh), then record it (tools/keep_seed.py).
slot="$1"; shift
for item in "$@"; do
  name="${item%%:*}"; extra=""; [ "$item" != "$name" ] && extra="${item#*:}"
  d="/tmp/seed-out/$name"; pid="${name%%-*}"
  [ -f "$d/patch.diff" ] || { echo "PIPE $name missing"; continue; }
  c="$(/verif/tools/confirm_seed.sh "$d" "s$slot" | tail -1)"; echo "$c" | tee -a "/tmp/seed-out/confirm_pipe_$slot.txt"
  case "$c" in *verdict=ok*) ;; *) continue;; esac
  checks="$pid $(echo "$extra" | tr ',' ' ')"
  timeout 9000 /verif/tools/run_seed.sh "$d" "m$slot" $checks
  python3 /verif/tools/keep_seed.py "$d" | tail -1
done
