#!/bin/bash
# usage: run_seed.sh <seed-dir> <slot> <Cxx> [Cyy ...]
# Applies <seed-dir>/patch.diff to the persistent scratch worktree /tmp/mut-<slot> (created at /repo's HEAD on first
# use), runs the given checks against it through vp_alt.py (private copy of /verif under /tmp/vpalt/<slot>, kept so
# that cargo builds are incremental), writes <seed-dir>/check_<Cxx>.log and prints one line per check:
#   SEED <name> <Cxx> exit=<rc> <VIOLATION line or ->
set -u
seed="$(cd "$1" && pwd)"; slot="$2"; shift 2
name="$(basename "$seed")"; wt="/tmp/mut-$slot"
if [ ! -d "$wt" ]; then git -C /repo worktree add -q --detach "$wt" HEAD || exit 2; fi
git -C "$wt" checkout -q --detach "$(git -C /repo rev-parse HEAD)" 2>/dev/null
git -C "$wt" checkout -q -- . ; git -C "$wt" clean -fdq
# 3-way against the blobs the patch names (see confirm_seed.sh), else the patch as delivered
if git -C "$wt" apply --3way "$seed/patch.diff" >/dev/null 2>&1; then git -C "$wt" reset -q; else git -C "$wt" reset -q --hard; git -C "$wt" apply "$seed/patch.diff"; fi || { echo "SEED $name patch does not apply"; exit 1; }
for pid in "$@"; do
  log="$seed/check_$pid.log"
  timeout 3000 python3 /verif/tools/vp_alt.py --repo "$wt" --name "$slot" --keep "$pid" > "$log" 2>&1
  rc=$?
  v="$(grep -m1 '^VIOLATION' "$log" || echo -)"
  echo "SEED $name $pid exit=$rc $v"
  # keep the replay file next to the log
  rp="$(echo "$v" | sed -n 's/.*replay=\([^ ]*\).*/\1/p')"
  [ -n "$rp" ] && [ -f "$rp" ] && cp "$rp" "$seed/replay_$pid.json"
done
git -C "$wt" checkout -q -- . ; git -C "$wt" clean -fdq
