#!/usr/bin/env python3
"""Orchestrator: `vp.py <property-id> [quick|thorough]`, `vp.py setup`.

Per property (DESIGN.md section 5):
 1. regenerate Generated/Consts.v from /repo, (re)build the Coq development up
    to Properties/<id>.vo, audit it (no Admitted/Axiom/..., Print Assumptions of
    every theorem, statement hashes),
 2. extract the models to OCaml and build the driver, rebuild the Rust harness
    from /repo's working tree with --cfg divan_verif,
 3. run corpus + generated cases through implementation and model, diff them
    (correspondence) and evaluate the extracted boolean specification on the
    implementation's outputs (violation search),
 4. write evidence/<id>.json, print VIOLATION / KNOWN-FINDING lines, exit 0/1.
"""
import fcntl
import hashlib
import importlib
import json
import os
import random
import re
import subprocess
import sys
import time

ROOT = os.path.dirname(os.path.dirname(os.path.abspath(__file__)))
REPO = os.environ.get("VERIF_REPO", "/repo")
COQ = os.path.join(ROOT, "coq")
OCAML = os.path.join(ROOT, "ocaml")
CACHE = os.environ.get("VERIF_CACHE", os.path.join(ROOT, ".cache"))
TARGET = os.path.join(CACHE, "target")
sys.path.insert(0, os.path.join(ROOT, "tools"))

ENV = dict(os.environ)
ENV.update({"CARGO_NET_OFFLINE": "true", "CARGO_TARGET_DIR": TARGET})
ENV.pop("RUSTFLAGS", None)  # .cargo/config.toml sets --cfg divan_verif

FORBIDDEN = re.compile(
    r"\b(Admitted|admit|Axiom|Axioms|Parameter|Parameters|Conjecture|Conjectures|Hypothesis|Hypotheses|Variable|Variables|"
    r"Admit Obligations|bypass_check)\b|Unset Guard Checking|Unset Positivity Checking|Unset Universe Checking|type-in-type|impredicative-set"
)
ALLOWED_AXIOMS = set()  # target: every theorem closed under the global context


def sh(cmd, cwd=None, timeout=None, input=None, env=None):
    t0 = time.time()
    try:
        p = subprocess.run(cmd, cwd=cwd, timeout=timeout, input=input, env=env or ENV,
                           stdout=subprocess.PIPE, stderr=subprocess.PIPE, text=True, shell=isinstance(cmd, str))
        return p.returncode, p.stdout, p.stderr, time.time() - t0
    except subprocess.TimeoutExpired as e:
        out = e.stdout.decode() if isinstance(e.stdout, bytes) else (e.stdout or "")
        err = e.stderr.decode() if isinstance(e.stderr, bytes) else (e.stderr or "")
        return 124, out, err + "\nTIMEOUT", time.time() - t0


class Lock:
    def __init__(self, name):
        os.makedirs(CACHE, exist_ok=True)
        self.path = os.path.join(CACHE, name + ".lock")

    def __enter__(self):
        self.f = open(self.path, "w")
        fcntl.flock(self.f, fcntl.LOCK_EX)

    def __exit__(self, *a):
        fcntl.flock(self.f, fcntl.LOCK_UN)
        self.f.close()


# --------------------------------------------------------------------------
# Coq
# --------------------------------------------------------------------------

COQ_HEADER = ("-Q theories DivanV\n"
              "-arg -w -arg -notation-overridden,-deprecated-hint-without-locality,-deprecated-instance-without-locality\n")


def coq_files():
    """All .v files under theories/ except Extract/ (those only write OCaml)."""
    files = []
    for d, _, fs in os.walk(os.path.join(COQ, "theories")):
        rel = os.path.relpath(d, COQ)
        if rel.startswith(os.path.join("theories", "Extract")):
            continue
        for f in fs:
            if f.endswith(".v") and not f.startswith("."):
                files.append(os.path.join(rel, f))
    return sorted(files)


def write_coqproject():
    text = COQ_HEADER + "\n".join(coq_files()) + "\n"
    p = os.path.join(COQ, "_CoqProject")
    old = open(p).read() if os.path.exists(p) else None
    if old != text:
        with open(p, "w") as f:
            f.write(text)
        return True
    return False


def coq_prepare():
    """Regenerate Consts.v and the Makefile (under the coq lock)."""
    rc, out, err, _ = sh([sys.executable, os.path.join(ROOT, "tools", "extract_consts.py")])
    rc2, out2, err2, _ = sh([sys.executable, os.path.join(ROOT, "tools", "extract_consts2.py")])
    err = (err.strip() + " " + err2.strip()).strip()
    changed = write_coqproject()
    mk = os.path.join(COQ, "Makefile")
    proj = os.path.join(COQ, "_CoqProject")
    if changed or not os.path.exists(mk) or os.path.getmtime(mk) < os.path.getmtime(proj):
        sh(["coq_makefile", "-f", "_CoqProject", "-o", "Makefile"], cwd=COQ)
    return err.strip()


def coq_make(target=None, timeout=1500):
    cmd = ["make", "-j16"]
    if target:
        cmd.append(target)
    rc, out, err, dt = sh(cmd, cwd=COQ, timeout=timeout)
    return rc, out + err, dt


def failing_coq_file(log):
    m = re.findall(r'File "\./(theories/[^"]+\.v)", line (\d+)', log)
    return m[-1] if m else None


def grep_forbidden(files):
    hits = []
    for rel in files:
        p = os.path.join(COQ, rel)
        if not os.path.exists(p):
            continue
        if rel.endswith("Generated/Consts.v"):
            continue
        text = open(p, encoding="utf-8").read()
        # strip comments (non-nested good enough: we never nest)
        text_nc = re.sub(r"\(\*.*?\*\)", "", text, flags=re.S)
        for i, line in enumerate(text_nc.splitlines(), 1):
            m = FORBIDDEN.search(line)
            if m:
                # `Variable`/`Hypothesis` are allowed inside a Section only; we
                # check that the file opens a Section before the hit.
                if m.group(1) in ("Variable", "Variables", "Hypothesis", "Hypotheses"):
                    before = "\n".join(text_nc.splitlines()[:i])
                    opened = len(re.findall(r"^\s*Section\s", before, flags=re.M))
                    closed = len(re.findall(r"^\s*End\s", before, flags=re.M))
                    if opened > closed:
                        continue
                hits.append(f"{rel}:{i}: {line.strip()}")
    return hits


def theorems_of(pid):
    p = os.path.join(COQ, "theories", "Properties", pid + ".v")
    text = open(p, encoding="utf-8").read()
    return re.findall(r"^(?:Theorem|Lemma|Corollary)\s+(\w+)", text, flags=re.M)


def statement_hash(pid):
    p = os.path.join(COQ, "theories", "Properties", pid + ".v")
    text = open(p, encoding="utf-8").read()
    text = re.sub(r"\(\*.*?\*\)", "", text, flags=re.S)
    text = re.sub(r"\s+", " ", text)
    return hashlib.sha256(text.encode()).hexdigest()[:16]


def audit(pid):
    """Print Assumptions of every theorem of Properties/<pid>.v."""
    thms = theorems_of(pid)
    adir = os.path.join(CACHE, "audit")
    os.makedirs(adir, exist_ok=True)
    src = os.path.join(adir, f"Audit_{pid}.v")
    with open(src, "w") as f:
        f.write(f"From DivanV Require Import Properties.{pid}.\n")
        for t in thms:
            f.write(f'Goal True. idtac "@@ {t}". exact I. Qed.\nPrint Assumptions {t}.\n')
    rc, out, err, dt = sh(["coqc", "-Q", os.path.join(COQ, "theories"), "DivanV", src], cwd=adir, timeout=300)
    text = out + err
    res = {}
    if rc != 0:
        return thms, {t: ["<audit failed: %s>" % text.strip()[-300:]] for t in thms}
    # split per theorem
    parts = re.split(r"@@ (\w+)\n", text)
    # parts: [pre, name1, body1, name2, body2...]
    for i in range(1, len(parts) - 1, 2):
        name, body = parts[i], parts[i + 1]
        if "Closed under the global context" in body:
            res[name] = []
        else:
            axs = re.findall(r"^(\S+)\s*:", body, flags=re.M)
            res[name] = axs or ["<unparsed>"]
    for t in thms:
        res.setdefault(t, ["<missing>"])
    return thms, res


# --------------------------------------------------------------------------
# Extraction + OCaml driver
# --------------------------------------------------------------------------

def file_sig(paths):
    h = hashlib.sha256()
    for p in sorted(paths):
        try:
            st = os.stat(p)
            h.update(f"{p}:{st.st_mtime_ns}:{st.st_size};".encode())
        except FileNotFoundError:
            h.update(f"{p}:missing;".encode())
    return h.hexdigest()


def driver_dir(group):
    return os.path.join(CACHE, "ocaml", group)


def driver_bin(group):
    return os.path.join(driver_dir(group), "driver")


def extract_src(group):
    return os.path.join(COQ, "theories", "Extract", group.capitalize() + ".v")


def extract_deps(group):
    """The .vo files theories/Extract/<Group>.v needs (via coqdep)."""
    rc, out, err, _ = sh(["coqdep", "-Q", "theories", "DivanV", os.path.relpath(extract_src(group), COQ)], cwd=COQ, timeout=120)
    deps = []
    for line in out.splitlines():
        if ":" not in line:
            continue
        lhs, rhs = line.split(":", 1)
        if ".vo" not in lhs or ".vos" in lhs.split()[0]:
            continue
        for tok in rhs.split():
            if tok.endswith(".vo") and tok.startswith("theories/"):
                deps.append(tok)
    return sorted(set(deps))


def build_driver(group):
    """Build the models the group's Extract file needs, extract them to OCaml
    and compile ocaml/prelude.ml + ocaml/<group>.ml against them.  Cached on
    the signature of the .vo files.  Call under the coq lock."""
    ext_src = extract_src(group)
    if not os.path.exists(ext_src):
        return False, f"no extraction file {ext_src}"
    deps = extract_deps(group)
    if deps:
        rc, out, err, _ = sh(["make", "-j16"] + deps, cwd=COQ, timeout=2400)
        if rc != 0:
            return False, "models do not compile: " + (out + err)[-2000:]
    srcs = [os.path.join(OCAML, "prelude.ml"), os.path.join(OCAML, group + ".ml")]
    sig = file_sig([os.path.join(COQ, d) for d in deps] + [ext_src] + srcs)
    ddir = driver_dir(group)
    os.makedirs(ddir, exist_ok=True)
    sigfile = os.path.join(ddir, "driver.sig")
    if os.path.exists(driver_bin(group)) and os.path.exists(sigfile) and open(sigfile).read() == sig:
        return True, "cached"
    rc, out, err, dt = sh(["coqc", "-Q", os.path.join(COQ, "theories"), "DivanV", "-o",
                           os.path.join(ddir, group.capitalize() + ".vo"), ext_src], cwd=ddir, timeout=900)
    if rc != 0:
        return False, "extraction failed: " + (out + err)[-2000:]
    with open(os.path.join(ddir, "driver.ml"), "w") as f:
        for p in srcs:
            f.write(f'# 1 "{p}"\n')
            f.write(open(p, encoding="utf-8").read())
            f.write("\n")
    rc, out, err, dt = sh(["ocamlfind", "ocamlopt", "-O3", "-w", "-a", "model.mli", "model.ml", "driver.ml", "-o", "driver"],
                          cwd=ddir, timeout=900)
    if rc != 0:
        return False, "ocamlopt failed: " + (out + err)[-3000:]
    with open(sigfile, "w") as f:
        f.write(sig)
    return True, "built"


# --------------------------------------------------------------------------
# Rust harness
# --------------------------------------------------------------------------

def build_harness(crate="hx", release=False, timeout=1500):
    cdir = os.path.join(ROOT, "harness", crate)
    lock = os.path.join(cdir, "Cargo.lock")
    if not os.path.exists(lock):
        import shutil
        shutil.copy(os.path.join(REPO, "Cargo.lock"), lock)
    cmd = ["cargo", "build", "--offline", "-q"] + (["--release"] if release else [])
    rc, out, err, dt = sh(cmd, cwd=cdir, timeout=timeout)
    binp = os.path.join(TARGET, "release" if release else "debug", crate)
    return rc == 0, (out + err)[-4000:], binp


# --------------------------------------------------------------------------
# Known findings
# --------------------------------------------------------------------------

def known_findings(pid):
    out = []
    p = os.path.join(ROOT, "known_findings.txt")
    if not os.path.exists(p):
        return out
    for line in open(p, encoding="utf-8"):
        line = line.strip()
        m = re.match(r"finding:\s+property=(\w+)\s+key=(\S+)\s+(.*)", line)
        if m and m.group(1) == pid:
            out.append((m.group(2), m.group(3)))
    return out


# --------------------------------------------------------------------------
# Running streams
# --------------------------------------------------------------------------

def run_lines(binary, mode, cases, timeout, extra_env=None, args=None):
    env = dict(ENV)
    if extra_env:
        env.update(extra_env)
    rc, out, err, dt = sh([binary, mode] + (args or []), input="\n".join(cases) + "\n", timeout=timeout, env=env)
    lines = out.split("\n")
    if lines and lines[-1] == "":
        lines.pop()
    return rc, lines, err, dt


class Stream:
    """One stream of the correspondence check.

    mode        harness/driver sub-command
    cases       list of case lines (no tabs/newlines)
    compare     f(impl_line, model_line) -> bool (default: equality)
    nontrivial  f(case, model_line) -> bool
    sb          whether the driver has a `<mode>.sb` boolean specification that
                is evaluated on `case \\t impl_line`
    model_input f(case, impl_line) -> line for the model (history-driven
                streams feed the recording to the model); default: the case
    """

    def __init__(self, name, mode, cases, compare=None, nontrivial=None, sb=True, model_input=None,
                 release=False, crate=None, drv=None, impl_timeout=600, impl_runner=None, model_runner=None,
                 sb_runner=None, describe=None, hist=None):
        self.name, self.mode, self.cases = name, mode, cases
        self.compare = compare or (lambda a, b: a == b)
        self.nontrivial = nontrivial or (lambda c, m: True)
        self.sb = sb
        self.model_input = model_input
        self.release = release
        self.crate = crate      # harness crate under harness/ (default: the property module's CRATE)
        self.drv = drv          # driver group (default: the property module's DRV)
        self.model_runner = model_runner   # f(stream, driver_binary, model_inputs) -> lines
        self.sb_runner = sb_runner         # f(stream, driver_binary, cases, impl_lines) -> lines
        self.impl_timeout = impl_timeout
        self.impl_runner = impl_runner
        self.describe = describe
        self.hist = hist


def dep_closure(rel_v_files):
    """Transitive closure (as theories/...v paths) of the given files' dependencies."""
    files = coq_files() + [os.path.join("theories", "Extract", f) for f in os.listdir(os.path.join(COQ, "theories", "Extract"))
                           if f.endswith(".v")]
    rc, out, err, _ = sh(["coqdep", "-Q", "theories", "DivanV"] + files, cwd=COQ, timeout=300)
    graph = {}
    for line in out.splitlines():
        if ":" not in line:
            continue
        lhs, rhs = line.split(":", 1)
        first = lhs.split()[0]
        if not first.endswith(".vo"):
            continue
        src = first[:-1]
        graph[src] = [t[:-1] for t in rhs.split() if t.endswith(".vo") and t.startswith("theories/")]
    seen, todo = set(), list(rel_v_files)
    while todo:
        f = todo.pop()
        if f in seen:
            continue
        seen.add(f)
        todo.extend(graph.get(f, []))
    return sorted(seen)


def main():
    if len(sys.argv) >= 2 and sys.argv[1] == "setup":
        return setup()
    if len(sys.argv) >= 2 and sys.argv[1] == "coq":
        # `vp.py coq [targets...]`: locked make (use this instead of calling make by hand)
        with Lock("coq"):
            coq_prepare()
            rc, out, err, dt = sh(["make", "-j16"] + sys.argv[2:], cwd=COQ, timeout=3000)
        print((out + err)[-6000:])
        return rc
    if len(sys.argv) >= 3 and sys.argv[1] == "driver":
        with Lock("coq"):
            coq_prepare()
            ok, msg = build_driver(sys.argv[2])
        print(msg)
        return 0 if ok else 1
    if len(sys.argv) >= 3 and sys.argv[1] == "harness":
        with Lock("cargo-" + sys.argv[2]):
            ok, log, binp = build_harness(sys.argv[2], "--release" in sys.argv)
        print(binp if ok else log)
        return 0 if ok else 1
    pid = sys.argv[1]
    tier = sys.argv[2] if len(sys.argv) > 2 else os.environ.get("VERIF_TIER", "quick")
    seed = int(os.environ.get("VERIF_SEED", "20260927"))
    t0 = time.time()
    prop = importlib.import_module("props." + pid.lower())
    rng = random.Random(seed * 1000003 + int(pid[1:]))
    DRV = getattr(prop, "DRV", "time")
    CRATE = getattr(prop, "CRATE", "hx")

    evidence = {
        "property_id": pid, "tier": tier, "seed": seed, "level": "proof",
        "coverage": {}, "assumptions": list(getattr(prop, "ASSUMPTIONS", [])), "wall_s": 0.0, "violations": 0,
    }
    cov = evidence["coverage"]
    known_hits = []
    notes = []

    # ---- 1. Coq ----------------------------------------------------------
    with Lock("coq"):
        miss = coq_prepare()
        target = f"theories/Properties/{pid}.vo"
        rc, log, dt = coq_make(target)
        proof_ok = rc == 0
        proof_fail = None
        if not proof_ok:
            ff = failing_coq_file(log)
            proof_fail = {"file": ff[0] if ff else "?", "line": ff[1] if ff else "?", "log_tail": log[-1500:]}
        # models for extraction are built even when a proof is broken
        groups = sorted({DRV} | set(getattr(prop, "EXTRA_DRVS", [])))
        drv_state = {g: build_driver(g) for g in groups}
        closure = dep_closure([f"theories/Properties/{pid}.v"] + [os.path.relpath(extract_src(g), COQ) for g in groups])
    drv_ok = all(ok for ok, _ in drv_state.values())
    drv_msg = "; ".join(f"{g}: {m}" for g, (ok, m) in drv_state.items() if not ok)
    thms, assumptions = ([], {})
    forb = grep_forbidden(closure)
    if proof_ok:
        with Lock("coq"):
            thms, assumptions = audit(pid)
    else:
        thms = theorems_of(pid)
    pinned = {}
    pin_file = os.path.join(COQ, "statement_hashes.json")
    if os.path.exists(pin_file):
        pinned = json.load(open(pin_file))
    shash = statement_hash(pid)
    side = list(getattr(prop, "GENERATED_OBLIGATIONS", []))
    allowed = ALLOWED_AXIOMS | set(getattr(prop, "ALLOWED_AXIOMS", []))
    obligations = len(thms)
    discharged = 0
    bad_axioms = {}
    used_axioms = set()
    if proof_ok:
        for t in thms:
            axs_all = assumptions.get(t, ["<missing>"])
            used_axioms.update(axs_all)
            axs = [a for a in axs_all if a not in allowed]
            if axs:
                bad_axioms[t] = axs
            else:
                discharged += 1
    cov.update({
        "obligations": obligations, "discharged": discharged,
        "theorems": thms,
        "generated_side_conditions": side,
        "checker_cmd": f"cd /verif && python3 tools/vp.py coq {target}   # then coqc on .cache/audit/Audit_{pid}.v: Print Assumptions of each theorem",
        "axioms": {t: assumptions.get(t, []) for t in thms} if proof_ok else "proof does not check",
        "statement_hash": shash,
        "coq_files_in_scope": closure,
        "trusted_base": [
            "Coq 8.16.1 kernel (vm_compute used for closed computations; no native_compute)",
            ("no axioms: every theorem is 'Closed under the global context'" if not used_axioms else
             "axioms used (standard-library declared, allow-listed): " + ", ".join(sorted(used_axioms))) if not bad_axioms
            else "axioms outside the allow-list: " + json.dumps(bad_axioms),
            "Coq Extraction with ExtrOcamlBasic only (no Extract Constant / Extract Inductive of our own); OCaml 4.13.1; ocaml/prelude.ml + ocaml/%s.ml" % DRV,
            "tools/extract_consts.py and extract_consts2.py (regenerate Generated/Consts.v, Consts2.v from /repo on every run)",
            "hand-written models tied to the code by the differential correspondence check reported below",
            "hooks in /repo under --cfg divan_verif (thin wrappers, virtual clock, event log) and harness/%s" % CRATE,
        ] + list(getattr(prop, "TRUSTED", [])),
    })
    if miss:
        notes.append("extract_consts: " + miss)
    # thorough tier: independent re-check of the compiled proofs with coqchk
    coqchk_problem = None
    if tier == "thorough" and proof_ok and not os.environ.get("VERIF_NO_COQCHK"):
        with Lock("coq"):
            rc, out, err, dt = sh(["coqchk", "-silent", "-o", "-Q", "theories", "DivanV", f"DivanV.Properties.{pid}"], cwd=COQ, timeout=2400)
        text = out + err
        m = re.search(r"\* Axioms:(.*?)\n\s*\n\* Constants/Inductives relying on type-in-type:(.*?)\n\s*\n\* Constants/Inductives relying on unsafe \(co\)fixpoints:(.*?)\n\s*\n\* Inductives whose positivity is assumed:(.*?)\n", text, re.S)
        if rc != 0 or not m:
            coqchk_problem = "coqchk failed: " + text[-600:]
        else:
            axs = [a.strip() for a in m.group(1).strip().splitlines() if a.strip() and a.strip() != "<none>"]
            others = [g.strip() for g in (m.group(2), m.group(3), m.group(4)) if g.strip() != "<none>"]
            cov["coqchk"] = {"axioms": axs, "wall_s": round(dt, 1), "unsafe": others}
            bad = [a for a in axs if not any(a.endswith(x) or x in a for x in allowed)]
            if bad or others:
                coqchk_problem = "coqchk reports axioms/unsafe features outside the allow-list: " + json.dumps(bad + others)

    proof_problem = None
    if not proof_ok:
        proof_problem = f"proof obligation no longer checks: {proof_fail['file']} line {proof_fail['line']}"
    elif bad_axioms:
        proof_problem = "theorems depend on axioms outside the allow-list: " + json.dumps(bad_axioms)
    elif forb:
        proof_problem = "forbidden vernacular in the development: " + "; ".join(forb[:5])
    elif pid in pinned and pinned[pid] != shash:
        proof_problem = f"statements of Properties/{pid}.v changed (hash {shash}, pinned {pinned[pid]})"
    elif miss and any(n in miss for n in getattr(prop, "CONSTS_USED", [])):
        proof_problem = "translator anchors not found: " + miss
    elif coqchk_problem:
        proof_problem = coqchk_problem

    # ---- 2/3. correspondence + violation search --------------------------
    streams = []
    corr_problem = None
    total_eval = 0
    nontrivial = set()
    samples = []
    stream_stats = []
    disagreements = []
    sb_failures = []
    if not drv_ok:
        corr_problem = "model driver unavailable: " + drv_msg
    else:
        streams = prop.streams(tier, rng)
        built = {}
        for st in streams:
            crate = st.crate or CRATE
            drv = driver_bin(st.drv or DRV)
            key = (crate, st.release)
            if key not in built:
                with Lock("cargo-" + crate):
                    built[key] = build_harness(crate, st.release)
            ok, blog, hbin = built[key]
            if not ok:
                corr_problem = f"harness {crate} does not build against /repo's working tree: " + blog[-1500:]
                break
            ts = time.time()
            if st.impl_runner:
                impl = st.impl_runner(st, hbin)
                rc, err = 0, ""
            else:
                rc, impl, err, _ = run_lines(hbin, st.mode, st.cases, st.impl_timeout)
            if len(impl) != len(st.cases):
                # harness died or hung: each missing line is a crash outcome
                impl = impl[:len(st.cases)] + ["crash rc=%s" % rc] * (len(st.cases) - len(impl))
            minputs = [st.model_input(c, i) if st.model_input else c for c, i in zip(st.cases, impl)]
            if st.model_runner:
                model = st.model_runner(st, drv, minputs)
            else:
                rc, model, merr, _ = run_lines(drv, st.mode, minputs, 1800)
                if len(model) != len(st.cases):
                    raise SystemExit(f"driver failed on stream {st.name}: rc={rc} {merr[-800:]} (got {len(model)} lines for {len(st.cases)} cases)")
            sbres = None
            if st.sb:
                if st.sb_runner:
                    sbres = st.sb_runner(st, drv, st.cases, impl)
                else:
                    rc, sbres, serr, _ = run_lines(drv, st.mode + ".sb", [c + "\t" + i for c, i in zip(st.cases, impl)], 1800)
                if len(sbres) != len(st.cases):
                    raise SystemExit(f"driver .sb failed on stream {st.name}: rc={rc} {serr[-800:]}")
            nd = 0
            for idx, (c, i, m) in enumerate(zip(st.cases, impl, model)):
                total_eval += 1
                if st.nontrivial(c, m):
                    nontrivial.add((st.mode, c))
                agree = st.compare(i, m)
                sbok = True if sbres is None else sbres[idx].startswith("true")
                if not agree:
                    nd += 1
                    disagreements.append({"stream": st.name, "mode": st.mode, "case": c, "impl": i, "model": m,
                                          "crate": crate, "drv": st.drv or DRV, "release": st.release})
                if not sbok:
                    sb_failures.append({"stream": st.name, "mode": st.mode, "case": c, "impl": i, "model": m,
                                        "spec_verdict": sbres[idx], "crate": crate, "drv": st.drv or DRV, "release": st.release})
            if len(samples) < 12 and st.cases:
                k = rng.randrange(len(st.cases))
                samples.append({"stream": st.name, "case": st.cases[k][:400], "impl": impl[k][:400], "model": model[k][:400]})
            stream_stats.append({"stream": st.name, "mode": st.mode, "cases": len(st.cases), "disagreements": nd,
                                 "wall_s": round(time.time() - ts, 2),
                                 **({"describe": st.describe} if st.describe else {}),
                                 **({"input_histogram": st.hist} if st.hist else {})})
        # optional property-specific extra checks (e.g. exhaustive model exploration, end-to-end runs)
        post = getattr(prop, "post", None)
        if post and not corr_problem:
            api = {"driver_bin": driver_bin, "build_harness": build_harness, "run_lines": run_lines, "sh": sh, "Lock": Lock,
                   "TARGET": TARGET, "CACHE": CACHE, "ROOT": ROOT, "REPO": REPO, "ENV": ENV}
            extra = post(tier, rng, api) or {}
            total_eval += extra.get("evaluations", 0)
            for k in extra.get("nontrivial_keys", []):
                nontrivial.add(("post", k))
            disagreements.extend(extra.get("disagreements", []))
            sb_failures.extend(extra.get("spec_failures", []))
            samples.extend(extra.get("samples", [])[:6])
            stream_stats.extend(extra.get("streams", []))
            if extra.get("coverage"):
                cov.update(extra["coverage"])
            if extra.get("problem") and not corr_problem:
                corr_problem = extra["problem"]

    cov.update({
        "evaluations": total_eval,
        "distinct_nontrivial": len(nontrivial),
        "rule": getattr(prop, "RULE", ""),
        "samples": samples or [{"note": "no stream ran"}],
        "streams": stream_stats,
        "disagreements": len(disagreements),
        "spec_failures_on_impl": len(sb_failures),
        "notes": notes,
    })

    # ---- 4. verdicts -----------------------------------------------------
    kf = known_findings(pid)
    os.makedirs(os.path.join(ROOT, "replays"), exist_ok=True)

    def is_known(item):
        for key, desc in kf:
            smode, _, pat = key.partition(":")
            if smode == item.get("mode") and item.get("case") is not None and re.fullmatch(pat, item["case"]):
                return key, desc
        return None

    reported_known = set()
    new_fail = []
    for item in sb_failures:
        k = is_known(item)
        if k:
            if k[0] not in reported_known:
                reported_known.add(k[0])
                print(f"KNOWN-FINDING: property={pid} {k[1]} (e.g. {item['mode']} {item['case'][:80]})")
        else:
            new_fail.append(item)
    # disagreements that coincide with known findings are not "correspondence broken"
    new_dis = [d for d in disagreements if not is_known(d)]

    exit_code = 0
    if new_fail:
        item = shrink(prop, new_fail[0])
        path = write_replay(pid, item, "property fails on the implementation's output for this input", proof_problem, corr_problem)
        print(f"VIOLATION property={pid} replay={path}")
        evidence["violations"] = len(new_fail)
        exit_code = 1
    elif proof_problem or corr_problem or new_dis:
        what = proof_problem or corr_problem or (
            f"correspondence stream '{new_dis[0]['stream']}' no longer checks: implementation and model differ on {len(new_dis)} case(s)")
        item = new_dis[0] if new_dis else {"stream": None, "mode": None, "case": None, "impl": None, "model": None}
        path = write_replay(pid, item, what + "; the boolean specification holds on every implementation output explored, "
                            "so no failing input was found", proof_problem, corr_problem,
                            extra={"proof_failure": proof_fail} if not proof_ok else None)
        print(f"VIOLATION property={pid} replay={path} no-failing-input-found")
        evidence["violations"] = 1
        exit_code = 1
    evidence["wall_s"] = round(time.time() - t0, 2)
    os.makedirs(os.path.join(ROOT, "evidence"), exist_ok=True)
    with open(os.path.join(ROOT, "evidence", pid + ".json"), "w") as f:
        json.dump(evidence, f, indent=1)
    print(f"{pid} {tier}: theorems {discharged}/{obligations} discharged; {total_eval} cases, "
          f"{len(disagreements)} disagreements, {len(sb_failures)} spec failures; {evidence['wall_s']}s")
    return exit_code


def shrink(prop, item):
    f = getattr(prop, "shrink", None)
    if not f:
        return item
    try:
        return f(item, rerun_case)
    except Exception:
        return item


def rerun_case(mode, case, crate="hx", release=False, model_input=None, drv="time"):
    """Re-run one case through implementation, model and spec. Returns (impl, model, sb)."""
    hbin = os.path.join(TARGET, "release" if release else "debug", crate)
    _, impl, _, _ = run_lines(hbin, mode, [case], 120)
    impl = impl[0] if impl else "crash"
    mi = model_input(case, impl) if model_input else case
    _, model, _, _ = run_lines(driver_bin(drv), mode, [mi], 120)
    _, sb, _, _ = run_lines(driver_bin(drv), mode + ".sb", [case + "\t" + impl], 120)
    return impl, (model[0] if model else "?"), (sb[0] if sb else "?")


def write_replay(pid, item, what, proof_problem, corr_problem, extra=None):
    h = hashlib.sha256(json.dumps(item, sort_keys=True).encode()).hexdigest()[:10]
    path = os.path.join(ROOT, "replays", f"{pid}-{h}.json")
    doc = {
        "property": pid, "what": what,
        "stream": item.get("stream"), "mode": item.get("mode"),
        "input": item.get("case"), "implementation_output": item.get("impl"), "model_output": item.get("model"),
        "spec_verdict": item.get("spec_verdict"),
        "proof_problem": proof_problem, "correspondence_problem": corr_problem,
        "replay_cmd": (f"printf '%s\\n' '{item.get('case')}' | {TARGET}/{'release' if item.get('release') else 'debug'}/{item.get('crate', 'hx')} {item.get('mode')}   # implementation\n"
                       f"printf '%s\\n' '{item.get('case')}' | {driver_bin(item.get('drv', 'time'))} {item.get('mode')}   # model") if item.get("case") else None,
    }
    if extra:
        doc.update(extra)
    with open(path, "w") as f:
        json.dump(doc, f, indent=1)
    return path


def all_groups():
    d = os.path.join(COQ, "theories", "Extract")
    return sorted(f[:-2].lower() for f in os.listdir(d) if f.endswith(".v"))


def setup():
    t0 = time.time()
    rc_all = 0
    with Lock("coq"):
        coq_prepare()
        rc, out, err, dt = sh(["make", "-k", "-j16"], cwd=COQ, timeout=6000)
        print((out + err)[-3000:])
        if rc != 0:
            print("setup: WARNING some Coq files did not build (each property's check rebuilds and reports its own closure)")
        for g in all_groups():
            ok, msg = build_driver(g)
            print(f"driver {g}:", msg[-1500:])
            if not ok:
                print(f"setup: WARNING driver {g} not built")
    for crate in sorted(os.listdir(os.path.join(ROOT, "harness"))):
        if not os.path.exists(os.path.join(ROOT, "harness", crate, "src", "main.rs")):
            continue
        for rel in (False, True):
            with Lock("cargo-" + crate):
                ok, log, _ = build_harness(crate, rel, timeout=3000)
            print(f"harness {crate} release={rel}:", "ok" if ok else log)
            if not ok:
                print(f"setup: WARNING harness {crate} not built")
    print(f"setup done in {time.time() - t0:.0f}s rc={rc_all}")
    return rc_all


if __name__ == "__main__":
    sys.exit(main())
