#!/usr/bin/env python3
"""Writes MANIFEST.json from tools/manifest_data.py (kept valid at all times)."""
import json, os, sys
sys.path.insert(0, os.path.dirname(os.path.abspath(__file__)))
from manifest_data import CHECKS, NOT_APPLICABLE, HOOK_COMMITS
ROOT = os.path.dirname(os.path.dirname(os.path.abspath(__file__)))
m = {
    "version": 1,
    "setup_cmd": "python3 tools/vp.py setup",
    "hooks": {
        "guard": "divan_verif",
        "enable": "RUSTFLAGS=\"--cfg divan_verif\" (set in harness/*/.cargo/config.toml); harness crates path-depend on /repo",
        "baseline_off_cmd": "cd /repo && cargo nextest run --workspace --no-fail-fast --test-threads 8 --offline || cargo test --workspace --no-fail-fast --offline",
        "source_commits": HOOK_COMMITS,
        "add_only": True,
    },
    "engines": [
        {"name": "coq", "path": "coq", "serves_properties": [c["property_id"] for c in CHECKS],
         "kind_free_text": "Coq 8.16.1 development DivanV: executable models, boolean specifications, theorems"},
        {"name": "correspondence", "path": "tools/vp.py", "serves_properties": [c["property_id"] for c in CHECKS],
         "kind_free_text": "differential execution of the extracted models (ocaml/driver) against the real crate (harness/hx), plus evaluation of the extracted specifications on implementation outputs"},
    ],
    "checks": [],
    "not_applicable": NOT_APPLICABLE,
    "notes": "Every check: python3 tools/vp.py <id> <tier>. See DESIGN.md.",
}
for c in CHECKS:
    pid = c["property_id"]
    m["checks"].append({
        "property_id": pid,
        "quick_cmd": f"python3 tools/vp.py {pid} quick",
        "thorough_cmd": f"python3 tools/vp.py {pid} thorough",
        "evidence_file": f"/verif/evidence/{pid}.json",
        "replay_cmd_template": "cat {path}   # the file names the harness/driver commands that replay the case",
        "engine": "coq",
        "level_claimed": {"category": c.get("category", "proof"), "text": c["text"], "design_ref": c.get("design_ref", "DESIGN.md section 7 " + pid)},
        "level_note": c["note"],
        "technique": c["technique"],
    })
json.dump(m, open(os.path.join(ROOT, "MANIFEST.json"), "w"), indent=1)
print("MANIFEST.json:", len(m["checks"]), "checks,", len(NOT_APPLICABLE), "not applicable")
