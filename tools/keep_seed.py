#!/usr/bin/env python3
"""keep_seed.py <seed-out-dir>...   — record confirmed seeded changes under /verif/seeded/<name>/.

Copies patch.diff, demo.diff, run_demo.sh, notes.md; writes meta.json with the
property, what the change needs in order to manifest (extracted from the
seeder's notes), the confirmation that was run (tools/confirm_seed.sh) and the
result of every check that was run against it (tools/run_seed.sh logs)."""
import glob, json, os, re, shutil, sys

ROOT = os.path.dirname(os.path.dirname(os.path.abspath(__file__)))


def needs_from_notes(text):
    """The section(s) of the seeder's notes that say what the change needs in order to manifest."""
    # 1. markdown sections whose heading mentions it
    secs = re.split(r"(?m)^(#+ .*)$", text)
    out = []
    for i in range(1, len(secs) - 1, 2):
        if re.search(r"need|manifest|trigger", secs[i], re.I):
            out.append(secs[i + 1].strip())
    if not out:
        # 2. bold-labelled paragraphs / list items
        for para in re.split(r"\n\s*\n", text):
            if re.search(r"\*\*[^*]*(need|manifest|trigger)[^*]*\*\*", para, re.I):
                out.append(para.strip())
    if not out:
        out = [p.strip() for p in re.split(r"\n\s*\n", text) if re.search(r"needs|manifest", p, re.I)]
    res = "\n\n".join(out) if out else text
    return res[:1500]


def main():
    confirms = {}
    for f in glob.glob("/tmp/seed-out/confirm_*.txt"):
        for line in open(f):
            m = re.match(r"CONFIRM (\S+) (.*)", line.strip())
            if m:
                confirms[m.group(1)] = m.group(2)
    for d in sys.argv[1:]:
        d = d.rstrip("/")
        name = os.path.basename(d)
        pid = name.split("-")[0]
        conf = confirms.get(name, "")
        if "verdict=ok" not in conf:
            print(f"{name}: not confirmed ({conf or 'no CONFIRM line'}) — skipped")
            continue
        dst = os.path.join(ROOT, "seeded", name)
        os.makedirs(dst, exist_ok=True)
        for f in ("patch.diff", "demo.diff", "run_demo.sh", "notes.md"):
            if os.path.exists(os.path.join(d, f)):
                shutil.copy(os.path.join(d, f), os.path.join(dst, f))
        notes = open(os.path.join(d, "notes.md"), encoding="utf-8").read() if os.path.exists(os.path.join(d, "notes.md")) else ""
        checks = {}
        for log in sorted(glob.glob(os.path.join(d, "check_*.log"))):
            cid = os.path.basename(log)[6:-4]
            text = open(log, errors="replace").read()
            v = re.search(r"^VIOLATION.*$", text, re.M)
            ex = re.search(r"\[vp_alt\] \S+ exit (\d+)", text)
            summary = re.findall(r"^C\d+ \w+: theorems.*$", text, re.M)
            entry = {"exit": int(ex.group(1)) if ex else None, "violation_line": v.group(0) if v else None,
                     "summary": summary[-1] if summary else None, "caught": bool(v)}
            rp = os.path.join(d, f"replay_{cid}.json")
            if os.path.exists(rp):
                shutil.copy(rp, os.path.join(dst, f"replay_{cid}.json"))
                try:
                    r = json.load(open(rp))
                    entry["replay_input"] = (r.get("input") or "")[:300]
                    entry["what"] = (r.get("what") or "")[:300]
                except Exception:
                    pass
            checks[cid] = entry
        meta_path = os.path.join(dst, "meta.json")
        old = json.load(open(meta_path)) if os.path.exists(meta_path) else {}
        oldchecks = old.get("checks_run", {})
        oldchecks.update(checks)
        meta = {
            "name": name,
            "breaks_property": pid,
            "origin": "independent sub-agent given only the property text and a scratch worktree of /repo (nothing from /verif)",
            "needs_to_manifest": needs_from_notes(notes),
            "confirmed_by": "tools/confirm_seed.sh in a scratch worktree: demo on clean tree, existing suite (cargo test --workspace --lib --bins --tests) with the patch, demo with the patch",
            "confirmation": conf,
            "checks_run": oldchecks,
        }
        json.dump(meta, open(meta_path, "w"), indent=1)
        print(f"{name}: kept; checks: " + ", ".join(f"{k}={'caught' if v['caught'] else 'MISSED'}" for k, v in oldchecks.items()))


if __name__ == "__main__":
    main()
