#!/usr/bin/env python3
"""Run checks against another checkout of nvzqz/divan without touching /repo or
/verif's build state (used to try the checks on seeded changes while other
work is going on).

  tools/vp_alt.py --repo /tmp/wt1 [--name wt1] [--keep] C05 [C13 ...] [--tier quick]

A private copy of /verif (sources, built .vo files and drivers; not the cargo
target) is made under /tmp/vpalt/<name>/verif with the harness crates' path
dependency rewritten to --repo; each check runs there with VERIF_REPO set.
Evidence and replays land in the copy.  The copy is removed afterwards unless
--keep is given.
"""
import argparse, os, re, shutil, subprocess, sys

ROOT = os.path.dirname(os.path.dirname(os.path.abspath(__file__)))


def main():
    ap = argparse.ArgumentParser()
    ap.add_argument("--repo", required=True)
    ap.add_argument("--name")
    ap.add_argument("--keep", action="store_true")
    ap.add_argument("--tier", default="quick")
    ap.add_argument("pids", nargs="+")
    a = ap.parse_args()
    repo = os.path.abspath(a.repo)
    name = a.name or os.path.basename(repo.rstrip("/"))
    base = os.path.join("/tmp/vpalt", name)
    alt = os.path.join(base, "verif")
    os.makedirs(alt, exist_ok=True)
    subprocess.check_call(["rsync", "-a", "--delete", "--exclude", ".git", "--exclude", ".cache/target", "--exclude", ".cache/*.lock",
                           "--exclude", "evidence/*", "--exclude", "replays/*", "--exclude", "seeded", "--exclude", "__pycache__",
                           ROOT + "/", alt + "/"])
    os.makedirs(os.path.join(alt, "evidence"), exist_ok=True)
    os.makedirs(os.path.join(alt, "replays"), exist_ok=True)
    for crate in os.listdir(os.path.join(alt, "harness")):
        ct = os.path.join(alt, "harness", crate, "Cargo.toml")
        if os.path.exists(ct):
            s = open(ct).read()
            s2 = s.replace('path = "/repo"', f'path = "{repo}"')
            if s2 != s:
                open(ct, "w").write(s2)
        # harness build scripts that read the repo path take it from VERIF_REPO
    env = dict(os.environ, VERIF_REPO=repo)
    env.pop("VERIF_CACHE", None)
    rc_all = 0
    for pid in a.pids:
        p = subprocess.run([sys.executable, os.path.join(alt, "tools", "vp.py"), pid, a.tier], env=env, cwd=alt)
        print(f"[vp_alt] {pid} exit {p.returncode}")
        rc_all = rc_all or p.returncode
    if not a.keep:
        shutil.rmtree(base, ignore_errors=True)
    return rc_all


if __name__ == "__main__":
    sys.exit(main())
