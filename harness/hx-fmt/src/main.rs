//! Harness for group `fmt` (C18) driving the real crate (built from /repo's
//! working tree with `--cfg divan_verif`): one mode per stream of the
//! correspondence check. Outputs are `ok [<string>]` (brackets make padding
//! visible) or `panic <Kind>` (printed by hxlib).
use divan::__verif as v;
use hxlib::toks;

mod e2e;

fn opt(s: &str) -> Option<usize> {
    if s == "-" {
        None
    } else {
        Some(s.parse().expect("usize"))
    }
}

fn f64_of(s: &str) -> f64 {
    f64::from_bits(s.parse::<u64>().expect("bits"))
}

fn ok(s: String) -> String {
    format!("ok [{s}]")
}

fn dispatch(mode: &str, line: &str) -> String {
    let t = toks(line);
    match mode {
        // <picos>
        "dur" => ok(v::fmt_duration(t[0].parse().expect("u128"))),
        // <picos> <precision|-> <width|->
        "durw" => ok(v::fmt_duration_with(t[0].parse().expect("u128"), opt(t[1]), opt(t[2]))),
        // <f64 bits as decimal u64> <sig_figs>
        "f64" => ok(v::format_f64(f64_of(t[0]), t[1].parse().expect("usize"))),
        // <f64 bits> <sig_figs> <binary 0|1>
        "bytes" => ok(v::format_bytes(f64_of(t[0]), t[1].parse().expect("usize"), t[2] == "1")),
        // <kind 0..3> <count u64> <picos u128> <binary 0|1>
        "thr" => ok(v::display_throughput(
            t[0].parse().expect("kind"),
            t[1].parse().expect("u64"),
            t[2].parse().expect("u128"),
            t[3] == "1",
        )),
        // <kind> <count> <picos> <binary> <precision|-> <width|->
        "thrw" => ok(v::display_throughput_with(
            t[0].parse().expect("kind"),
            t[1].parse().expect("u64"),
            t[2].parse().expect("u128"),
            t[3] == "1",
            opt(t[4]),
            opt(t[5]),
        )),
        // <api> <flag> <env>: a real run of this binary as a child process (see e2e.rs)
        "e2e" => e2e::run_case(line),
        _ => panic!("unknown mode {mode}"),
    }
}

fn main() {
    if std::env::var_os("HX_FMT_CHILD").is_some() {
        return e2e::child();
    }
    hxlib::run(dispatch);
}
