//! End-to-end stream of C18: a real benchmark binary (this executable,
//! re-executed as a child) goes from process arguments / environment / the
//! builder through `Divan::config_with_args` and the benchmark loop to the
//! printed table.  The parent parses the table into cells.
//!
//! Case line: `<api> <flag> <env>` with
//!   api  = main | builder-binary | builder-decimal | pre-binary | pre-decimal | seq-<b|d>+
//!          (`seq-bd`: `Divan::default().bytes_format(Binary).run_benches()` then the same with Decimal, in one
//!           process; output: one table per runner joined by ` @@ `)
//!          (`builder-*`: `Divan::from_args().bytes_format(..)`,
//!           `pre-*`: `Divan::default().bytes_format(..).config_with_args()`)
//!   flag = - | decimal | binary      (`--bytes-format <flag>`)
//!   env  = - | decimal | binary      (`DIVAN_BYTES_FORMAT=<env>`)
//!
//! Output: `ok <bench>|<label>|<fastest>|<slowest>|<median>|<mean>;...` — one
//! entry per printed row (label `time` for the row carrying the name, the
//! row's first-column text for alloc headers, `-` for value rows).

use std::hint::black_box;
use std::io::Write;
use std::process::{Command, Stdio};

use divan::counter::{BytesCount, BytesFormat, CharsCount, CyclesCount, ItemsCount};
use divan::{AllocProfiler, Bencher, Divan};

#[global_allocator]
static ALLOC: AllocProfiler = AllocProfiler::system();

static SRC: [u8; 1 << 20] = [7; 1 << 20];

/// 1 MiB per iteration: "MB/s|GB/s" vs "MiB/s|GiB/s".
#[divan::bench(sample_count = 3, sample_size = 1)]
fn a_copy_1mib(bencher: Bencher) {
    let mut dst = vec![0u8; 1 << 20];
    bencher.counter(BytesCount::new(1usize << 20)).bench_local(|| {
        dst.copy_from_slice(black_box(&SRC));
        black_box(dst[12345]);
    });
}

/// A constant zero counter: "a zero count prints as 0".
#[divan::bench(sample_count = 3, sample_size = 1, counters = [ItemsCount::new(0u8)])]
fn b_zero_items() {
    black_box(1 + black_box(1));
}

/// A zero count that comes from the (empty) inputs.
#[divan::bench(sample_count = 3, sample_size = 2)]
fn c_empty_input(bencher: Bencher) {
    bencher.with_inputs(String::new).input_counter(BytesCount::of_str).bench_values(|s| black_box(s.len()));
}

/// A zero counter beside a non-zero one.
#[divan::bench(sample_count = 3, sample_size = 1, counters = [CharsCount::new(0u8), BytesCount::new(4096u32)])]
fn d_mixed() {
    black_box(1 + black_box(1));
}

/// All four kinds zero.
#[divan::bench(sample_count = 3, sample_size = 1,
               counters = [BytesCount::new(0u8), CharsCount::new(0u8), CyclesCount::new(0u8), ItemsCount::new(0u8)])]
fn e_all_zero() {
    black_box(1 + black_box(1));
}

/// One allocation of 2048 bytes per iteration: "2.048 KB" vs "2 KiB".
#[divan::bench(sample_count = 3, sample_size = 1)]
fn f_alloc_2048() -> Vec<u8> {
    Vec::with_capacity(black_box(2048))
}

/// 1500 items per iteration (prefixes of non-byte counters stay decimal).
#[divan::bench(sample_count = 3, sample_size = 1, counters = [ItemsCount::new(1500u32)])]
fn g_items_1500() {
    black_box(1 + black_box(1));
}

pub fn child() {
    let api = std::env::var("HX_FMT_API").expect("HX_FMT_API");
    let d = match api.as_str() {
        "main" => Divan::from_args(),
        "builder-binary" => Divan::from_args().bytes_format(BytesFormat::Binary),
        "builder-decimal" => Divan::from_args().bytes_format(BytesFormat::Decimal),
        "pre-binary" => Divan::default().bytes_format(BytesFormat::Binary).config_with_args(),
        "pre-decimal" => Divan::default().bytes_format(BytesFormat::Decimal).config_with_args(),
        // several runners, one after the other, in ONE process: `seq-<b|d><b|d>...`
        seq if seq.starts_with("seq-") => {
            for c in seq[4..].chars() {
                let f = if c == 'b' { BytesFormat::Binary } else { BytesFormat::Decimal };
                println!("@@RUN");
                Divan::default().bytes_format(f).run_benches();
                let _ = std::io::stdout().flush();
            }
            return;
        }
        other => panic!("HX_FMT_API {other}"),
    };
    d.main();
    let _ = std::io::stdout().flush();
}

pub fn run_case(line: &str) -> String {
    let t = hxlib::toks(line);
    let (api, flag, envv) = (t[0], t[1], t[2]);
    let mut cmd = Command::new(std::env::current_exe().expect("exe"));
    for (k, _) in std::env::vars() {
        if k.starts_with("DIVAN_") {
            cmd.env_remove(k);
        }
    }
    cmd.env("HX_FMT_CHILD", "1").env("HX_FMT_API", api).env("NO_COLOR", "1");
    cmd.arg("--bench");
    if flag != "-" {
        cmd.arg("--bytes-format").arg(flag);
    }
    if envv != "-" {
        cmd.env("DIVAN_BYTES_FORMAT", envv);
    }
    cmd.stdin(Stdio::null()).stdout(Stdio::piped()).stderr(Stdio::piped());
    let out = cmd.output().expect("spawn child");
    if !out.status.success() {
        let err = String::from_utf8_lossy(&out.stderr);
        return format!("child-failed {} {}", out.status, err.lines().last().unwrap_or("").replace('\t', " "));
    }
    let text = String::from_utf8_lossy(&out.stdout);
    if api.starts_with("seq-") {
        // one table per runner, separated by the child's `@@RUN` lines
        let tables: Vec<String> = text.split("@@RUN\n").skip(1).map(parse_table).collect();
        return format!("ok {}", tables.join(" @@ "));
    }
    format!("ok {}", parse_table(&text))
}

fn parse_table(text: &str) -> String {
    let mut rows: Vec<String> = Vec::new();
    let mut bench = String::new();
    // The name column and the `fastest` column are separated by position only.
    let mut off: Option<usize> = None;
    for l in text.lines() {
        let chars: Vec<char> = l.chars().collect();
        if off.is_none() {
            if let Some(b) = l.find("fastest") {
                off = Some(l[..b].chars().count());
            }
            continue;
        }
        let off = off.unwrap();
        if chars.len() <= off {
            continue;
        }
        let name_part: String = chars[..off].iter().collect();
        let rest: String = chars[off..].iter().collect();
        let cols: Vec<&str> = rest.split('│').map(|c| c.trim()).collect();
        if cols.len() < 4 {
            continue;
        }
        let first = name_part.trim_start_matches(|c: char| "├╰─│ ".contains(c)).trim().to_string();
        if cols[..4].iter().all(|c| c.is_empty()) {
            continue; // group row
        }
        let label = if !first.is_empty() {
            bench = first;
            "time".to_string()
        } else if cols[0].ends_with(':') {
            cols[0].to_string()
        } else {
            "-".to_string()
        };
        rows.push(format!("{}|{}|{}|{}|{}|{}", bench, label, cols[0], cols[1], cols[2], cols[3]));
    }
    rows.join(";")
}
