//! Whole-program harness (group `tree`: C14, C12, C17).
//!
//! `hx-run <mode>` reads one case per line (see spec.rs), and for every case
//! spawns *itself* once per requested action as a child process (env
//! `HX_CHILD=1`, `HX_SPEC=<case>`): the child builds the synthetic registry,
//! pushes it into divan's global lists and hands control to the real CLI entry
//! point (`divan::main()` / `Divan::from_args().list_benches()`), then prints
//! its invocation log.  The parent canonicalises stdout + log into one line per
//! case.  Children run in parallel (8 at a time) under a watchdog.

#[macro_use]
mod ids;
mod registry;
mod spec;

use std::io::{BufRead, Read, Write};
use std::process::{Command, Stdio};
use std::sync::atomic::{AtomicUsize, Ordering};
use std::sync::Mutex;
use std::time::{Duration, Instant};

use spec::{enc, Spec};

const CHILD_TIMEOUT: Duration = Duration::from_secs(30);

fn child() {
    let line = std::env::var("HX_SPEC").expect("HX_SPEC");
    let api = std::env::var("HX_API").unwrap_or_else(|_| "main".into());
    let sp = spec::parse(&line);
    registry::install(sp);
    let res = std::panic::catch_unwind(|| match api.as_str() {
        "main" => divan::main(),
        "list_benches" => divan::Divan::from_args().list_benches(),
        "test_benches" => divan::Divan::from_args().test_benches(),
        // k concurrent runs in one process: threads released by a barrier, each `Divan::default().test_benches()`
        "concurrent_runs" => {
            let k: usize = std::env::var("HX_K").ok().and_then(|s| s.parse().ok()).unwrap_or(3);
            let barrier = std::sync::Barrier::new(k);
            std::thread::scope(|s| {
                for _ in 0..k {
                    s.spawn(|| {
                        barrier.wait();
                        divan::Divan::default().test_benches();
                    });
                }
            });
        }
        // the builder's `threads` with an empty list: still one run per case
        "main_threads_empty" => divan::Divan::from_args().threads(std::iter::empty::<usize>()).main(),
        // the case's thread counts through the builder instead of --threads
        "main_threads_cfg" => {
            let t: Vec<usize> = std::env::var("HX_THREADS")
                .unwrap_or_default()
                .split(',')
                .filter(|s| !s.is_empty())
                .map(|s| s.parse().expect("HX_THREADS"))
                .collect();
            divan::Divan::from_args().threads(t).main()
        }
        other => panic!("HX_API {other}"),
    });
    let _ = std::io::stdout().flush();
    let log = registry::LOG.lock().unwrap_or_else(|e| e.into_inner());
    let made: Vec<String> = registry::made_counts().iter().map(|(o, n)| format!("M{o}x{n}")).collect();
    println!("\n@@LOG {}", log.join(";"));
    println!("@@MADE {}", made.join(";"));
    if res.is_err() {
        println!("@@PANIC");
    }
}

struct ChildOut {
    stdout: String,
    log: Vec<String>,
    made: String,
    status: String,
}

thread_local! {
    /// The executable the current case runs (None: this binary with the synthetic registry).
    static EXE: std::cell::RefCell<Option<String>> = const { std::cell::RefCell::new(None) };
    /// Milliseconds every argument expression sleeps in the next child (0: not slowed down).
    static SLOW_ARGS: std::cell::Cell<u64> = const { std::cell::Cell::new(0) };
    /// The run-time thread counts of the current case.
    static THREADS: std::cell::RefCell<Vec<usize>> = const { std::cell::RefCell::new(Vec::new()) };
}

fn run_child(line: &str, api: &str, nextest: bool, args: &[String]) -> ChildOut {
    let real = EXE.with(|e| e.borrow().clone());
    let exe = match &real {
        Some(p) => std::path::PathBuf::from(p),
        None => std::env::current_exe().expect("exe"),
    };
    let mut cmd = Command::new(exe);
    cmd.args(args)
        .env("HX_CHILD", "1")
        .env("HX_SPEC", line)
        .env("HX_API", api)
        .env("HX_K", "3")
        .env("HX_THREADS", THREADS.with(|t| t.borrow().iter().map(|n| n.to_string()).collect::<Vec<_>>().join(",")))
        .env_remove("NEXTEST")
        .stdin(Stdio::null())
        .stdout(Stdio::piped())
        .stderr(Stdio::null());
    for (k, _) in std::env::vars() {
        if k.starts_with("DIVAN_") {
            cmd.env_remove(k);
        }
    }
    if nextest {
        cmd.env("NEXTEST", "1");
    }
    cmd.env_remove("HX_SLOW_ARGS");
    if SLOW_ARGS.with(|s| s.get()) > 0 {
        cmd.env("HX_SLOW_ARGS", SLOW_ARGS.with(|s| s.get()).to_string());
    }
    let mut ch = cmd.spawn().expect("spawn");
    let mut so = ch.stdout.take().unwrap();
    let reader = std::thread::spawn(move || {
        let mut s = Vec::new();
        let _ = so.read_to_end(&mut s);
        String::from_utf8_lossy(&s).into_owned()
    });
    let t0 = Instant::now();
    let status = loop {
        match ch.try_wait().expect("wait") {
            Some(st) => break if st.success() { "ok".to_string() } else { format!("exit{}", st.code().unwrap_or(-1)) },
            None => {
                if t0.elapsed() > CHILD_TIMEOUT {
                    let _ = ch.kill();
                    let _ = ch.wait();
                    break "timeout".to_string();
                }
                std::thread::sleep(Duration::from_millis(1));
            }
        }
    };
    let all = reader.join().unwrap_or_default();
    let (stdout, tail) = match all.find("\n@@LOG ") {
        Some(i) => (all[..i].to_string(), all[i + 1..].to_string()),
        None => (all, String::new()),
    };
    let mut log = Vec::new();
    let mut made = String::new();
    let mut status = status;
    for l in tail.lines() {
        if let Some(r) = l.strip_prefix("@@LOG ") {
            log = r.split(';').filter(|s| !s.is_empty()).map(|s| s.to_string()).collect();
        } else if let Some(r) = l.strip_prefix("@@MADE ") {
            made = r.to_string();
        } else if l == "@@PANIC" {
            status = "panic".into();
        }
    }
    if tail.is_empty() && status == "ok" {
        status = "nolog".into();
    }
    ChildOut { stdout, log, made, status }
}

/// One node of the painted tree.
struct Node {
    depth: usize,
    name: String,
    ignored: bool,
}

fn parse_tree(out: &str) -> Vec<Node> {
    // Rows first: (depth, text).  A label may contain line breaks: a line without a branch glyph that is not a
    // top-level row (those are the first line and the lines after a blank one) continues the previous row.
    let mut rows: Vec<(usize, String)> = Vec::new();
    let mut prev_blank = true;
    let text = out.strip_suffix('\n').unwrap_or(out);
    for line in text.split('\n') {
        if line.is_empty() {
            prev_blank = true;
            continue;
        }
        let chars: Vec<char> = line.chars().collect();
        let mut i = 0;
        let mut depth = 0;
        let mut has_branch = false;
        loop {
            if i + 3 <= chars.len() {
                let g: String = chars[i..i + 3].iter().collect();
                if g == "│  " || g == "   " {
                    depth += 1;
                    i += 3;
                    continue;
                }
                if g == "├─ " || g == "╰─ " {
                    depth += 1;
                    i += 3;
                    has_branch = true;
                }
            }
            break;
        }
        if !has_branch && !prev_blank && !rows.is_empty() {
            let last = rows.last_mut().unwrap();
            last.1.push('\n');
            last.1.push_str(line);
        } else {
            let rest: String = if has_branch { chars[i..].iter().collect() } else { line.to_string() };
            rows.push((if has_branch { depth } else { 0 }, rest));
        }
        prev_blank = false;
    }
    rows.into_iter()
        .map(|(depth, rest)| {
            let (name, ignored) = match rest.strip_suffix("(ignored)") {
                Some(r) if r.ends_with("  ") => (r.trim_end_matches(' ').to_string(), true),
                _ => (rest.clone(), false),
            };
            Node { depth, name, ignored }
        })
        .collect()
}

/// The lines of a terse listing; a path may contain line breaks: a line ends with ": benchmark".
fn terse_lines_of(out: &str) -> Vec<String> {
    let text = out.strip_suffix('\n').unwrap_or(out);
    if text.is_empty() {
        return Vec::new();
    }
    let mut res: Vec<String> = Vec::new();
    let mut cur: Option<String> = None;
    for line in text.split('\n') {
        let joined = match cur.take() {
            Some(mut c) => {
                c.push('\n');
                c.push_str(line);
                c
            }
            None => line.to_string(),
        };
        if joined.ends_with(": benchmark") {
            res.push(joined);
        } else {
            cur = Some(joined);
        }
    }
    if let Some(c) = cur {
        res.push(c);
    }
    res
}

fn join_path(parent: &str, name: &str) -> String {
    if parent.is_empty() {
        name.to_string()
    } else {
        format!("{parent}::{name}")
    }
}

/// Canonical form of a painted tree: the sorted multiset of `K:<path>` with
/// K = P (has children), I (ignored), X (other leaf).  The leaves that are not
/// ignored are paired, in print order, with the `C` events of the log.
fn canon_tree(out: &ChildOut, pair_calls: bool) -> String {
    let real = EXE.with(|e| e.borrow().is_some());
    let nodes = parse_tree(&out.stdout);
    let mut stack: Vec<String> = Vec::new();
    let calls: Vec<&String> = out.log.iter().filter(|e| e.starts_with('C')).collect();
    let enters = out.log.iter().filter(|e| e.starts_with('E')).count();
    let mut k = 0;
    let mut leaves = 0;
    let threads = THREADS.with(|t| t.borrow().clone());
    let mut items = Vec::new();
    for (i, n) in nodes.iter().enumerate() {
        stack.truncate(n.depth);
        let parent = stack.last().cloned().unwrap_or_default();
        let path = join_path(&parent, &n.name);
        let has_children = nodes.get(i + 1).map(|m| m.depth > n.depth).unwrap_or(false);
        if has_children {
            items.push(format!("P:{}", enc(&path)));
        } else if n.ignored {
            items.push(format!("I:{}", enc(&path)));
        } else if pair_calls {
            // a leaf run on N threads calls the function N times: "t=N" leaves under thread branches,
            // every leaf when a single thread count N is configured
            let times = match n.name.strip_prefix("t=").and_then(|d| d.parse::<usize>().ok()) {
                Some(t) if threads.len() > 1 => t,
                _ if threads.len() == 1 => threads[0],
                _ => 1,
            };
            let mine: Vec<&str> = (0..times).map(|j| calls.get(k + j).map(|s| s.as_str()).unwrap_or("NOCALL")).collect();
            k += times;
            leaves += 1;
            let call = if mine.iter().all(|c| *c == mine[0]) { mine[0].to_string() } else { format!("MIXED({})", mine.join("+")) };
            items.push(format!("X:{}={}", enc(&path), call));
        } else {
            items.push(format!("X:{}", enc(&path)));
        }
        stack.push(path);
    }
    items.sort();
    let mut s = items.join(";");
    if pair_calls {
        // (functions without a Bencher parameter have no "enter" event in real crates)
        if k != calls.len() || (!real && enters != leaves) {
            s.push_str(&format!(";MISMATCH leaves={leaves} expected-calls={k} calls={} enters={enters}", calls.len()));
        }
        s.push_str(&format!("!{}", out.made));
    } else {
        s.push_str(&format!("!{}", out.log.join(";")));
    }
    if out.status != "ok" {
        s.push_str(&format!("!{}", out.status));
    }
    s
}

fn canon_terse(out: &ChildOut) -> String {
    let mut lines: Vec<String> = terse_lines_of(&out.stdout).iter().map(|l| enc(l)).collect();
    if EXE.with(|e| e.borrow().is_some()) {
        // constructor order is not fixed
        lines.sort();
    }
    let mut s = format!("{}!{}", lines.join(";"), out.log.join(";"));
    if out.status != "ok" {
        s.push_str(&format!("!{}", out.status));
    }
    s
}

fn cli_args(sp: &Spec, extra_pos: Option<&[String]>, force_exact: bool) -> Vec<String> {
    let c = &sp.cfg;
    let mut a = Vec::new();
    match c.ign {
        'o' => a.push("--ignored".to_string()),
        'y' => a.push("--include-ignored".to_string()),
        _ => {}
    }
    if c.exact || force_exact {
        a.push("--exact".into());
    }
    match c.sort {
        'k' => a.extend(["--sort".into(), "kind".into()]),
        'n' => a.extend(["--sort".into(), "name".into()]),
        'l' => a.extend(["--sort".into(), "location".into()]),
        'K' => a.extend(["--sortr".into(), "kind".into()]),
        'N' => a.extend(["--sortr".into(), "name".into()]),
        'L' => a.extend(["--sortr".into(), "location".into()]),
        _ => {}
    }
    if !c.threads.is_empty() && !builder_threads() {
        a.push(format!("--threads={}", c.threads.iter().map(|n| n.to_string()).collect::<Vec<_>>().join(",")));
    }
    let exact = c.exact || force_exact;
    let pat = |s: &String| if exact { s.clone() } else { regex_escape(s) };
    for s in &c.skip {
        a.push(format!("--skip={}", pat(s)));
    }
    // positional filters last, after `--` so that a filter may start with '-'
    let pos: &[String] = extra_pos.unwrap_or(&c.pos);
    if !pos.is_empty() {
        a.push("--".into());
        a.extend(pos.iter().map(pat));
    }
    a
}

/// The filters of a case are literals; without `--exact` they are passed as
/// regular expressions matching exactly that literal.
fn regex_escape(s: &str) -> String {
    let mut o = String::new();
    for c in s.chars() {
        if "\\.+*?()|[]{}^$".contains(c) {
            o.push('\\');
        }
        o.push(c);
    }
    o
}

thread_local! {
    /// Set while an act passes the thread counts through the builder (no --threads on the command line).
    static BUILDER_THREADS: std::cell::Cell<bool> = const { std::cell::Cell::new(false) };
}
fn builder_threads() -> bool {
    BUILDER_THREADS.with(|b| b.get())
}

fn with(mut a: Vec<String>, front: &[&str]) -> Vec<String> {
    let mut v: Vec<String> = front.iter().map(|s| s.to_string()).collect();
    v.append(&mut a);
    v
}

/// Runs the actions named in the case's `acts` field.
///   T  terse listing (NEXTEST=1 --list --format terse)
///   R  test run (--test)
///   L  --list
///   A  Divan::from_args().list_benches()
///   Q  Divan::from_args().test_benches()
///   H  bench run (--bench --sample-count 1 --sample-size 1)
///   E  exact round trip: every line of T fed back as the only --exact filter to a terse listing and a test run
fn run_case(line: &str) -> String {
    let sp = spec::parse(line);
    for it in &sp.items {
        if let spec::Item::G(g) = it {
            for e in g.generic.iter().flatten().flatten() {
                if let (Some(t), Some(n)) = (e.ty, &e.ty_name) {
                    if registry::type_name(t) != n {
                        return format!("badspec type {t} is {} not {n}", registry::type_name(t));
                    }
                }
            }
        }
    }
    EXE.with(|e| *e.borrow_mut() = sp.cfg.exe.clone());
    THREADS.with(|t| *t.borrow_mut() = sp.cfg.threads.clone());
    let mut out = Vec::new();
    let mut terse_lines: Option<Vec<String>> = None;
    for act in sp.cfg.acts.chars() {
        let sec = match act {
            'T' => {
                let o = run_child(line, "main", true, &with(cli_args(&sp, None, false), &["--list", "--format", "terse"]));
                terse_lines = Some(terse_lines_of(&o.stdout));
                canon_terse(&o)
            }
            'R' => canon_tree(&run_child(line, "main", false, &with(cli_args(&sp, None, false), &["--test"])), true),
            'Q' => canon_tree(&run_child(line, "test_benches", false, &cli_args(&sp, None, false)), true),
            'H' => canon_tree(
                &run_child(
                    line,
                    "main",
                    false,
                    &with(cli_args(&sp, None, false), &["--bench", "--sample-count", "1", "--sample-size", "1"]),
                ),
                false,
            ),
            'L' => canon_tree(&run_child(line, "main", false, &with(cli_args(&sp, None, false), &["--list"])), false),
            'K' => String::new(),
            // three concurrent `test_benches()` runs in one process, argument expressions slowed down:
            // the (sorted) calls of all runs and the evaluation count of every argument list
            'x' => {
                SLOW_ARGS.with(|s| s.set(if sp.cfg.exe.is_some() { 40 } else { 150 }));
                let o = run_child(line, "concurrent_runs", false, &[]);
                SLOW_ARGS.with(|s| s.set(0));
                let mut calls: Vec<&String> = o.log.iter().filter(|e| e.starts_with('C')).collect();
                calls.sort();
                let mut s = format!("{}!{}", calls.iter().map(|c| c.as_str()).collect::<Vec<_>>().join(";"), o.made);
                if o.status != "ok" {
                    s.push_str(&format!("!{}", o.status));
                }
                s
            }
            // test run with the case's thread counts set through `Divan::threads`
            'p' => {
                BUILDER_THREADS.with(|b| b.set(true));
                let args = with(cli_args(&sp, None, false), &["--test"]);
                BUILDER_THREADS.with(|b| b.set(false));
                canon_tree(&run_child(line, "main_threads_cfg", false, &args), true)
            }
            // test run / terse listing with `Divan::threads([])` set through the builder
            'm' => canon_tree(&run_child(line, "main_threads_empty", false, &with(cli_args(&sp, None, false), &["--test"])), true),
            'n' => canon_terse(&run_child(line, "main_threads_empty", true, &with(cli_args(&sp, None, false), &["--list", "--format", "terse"]))),
            // combinations and orders of the action flags
            'a' | 'b' | 'c' | 'd' | 'f' | 'g' | 'h' | 'j' | 'k' => {
                let (nextest, flags): (bool, &[&str]) = match act {
                    'a' => (false, &["--list", "--bench"]),
                    'b' => (false, &["--bench", "--list"]),
                    'c' => (true, &["--list", "--format", "terse", "--bench"]),
                    'd' => (true, &["--bench", "--list", "--format", "terse"]),
                    'f' => (false, &["--test", "--bench"]),
                    'g' => (false, &["--bench", "--test"]),
                    'h' => (false, &[]),
                    'j' => (false, &["--list", "--test"]),
                    _ => (true, &["--list", "--bench"]),
                };
                let o = run_child(line, "main", nextest, &with(cli_args(&sp, None, false), flags));
                match act {
                    'c' | 'd' => canon_terse(&o),
                    'f' | 'g' | 'h' => canon_tree(&o, true),
                    _ => canon_tree(&o, false),
                }
            }
            'V' => {
                // resolved counters of every benchmark (own options over the groups above it)
                let o = run_child(line, "resolved", false, &[]);
                let mut s = enc(o.stdout.lines().next().unwrap_or(""));
                if o.status != "ok" {
                    s.push_str(&format!("!{}", o.status));
                }
                s
            }
            'O' => {
                // registered options (ignore, sample_count, counters, threads) of every entry
                let o = run_child(line, "optdump", false, &[]);
                let mut s = enc(o.stdout.lines().next().unwrap_or(""));
                if o.status != "ok" {
                    s.push_str(&format!("!{}", o.status));
                }
                s
            }
            'D' => {
                let o = run_child(line, "dump", false, &[]);
                let mut s = o.stdout.lines().next().unwrap_or("").to_string();
                if o.status != "ok" {
                    s.push_str(&format!("!{}", o.status));
                }
                s
            }
            'A' => canon_tree(&run_child(line, "list_benches", false, &cli_args(&sp, None, false)), false),
            'E' => {
                let lines = terse_lines.clone().unwrap_or_else(|| {
                    terse_lines_of(
                        &run_child(line, "main", true, &with(cli_args(&sp, None, false), &["--list", "--format", "terse"])).stdout,
                    )
                });
                let mut lines = lines;
                if sp.cfg.exe.is_some() {
                    // constructor order is not fixed: take the listed paths in sorted order
                    lines.sort();
                }
                let mut parts = Vec::new();
                let mut seen = std::collections::BTreeSet::new();
                for l in lines.iter() {
                    let Some(path) = l.strip_suffix(": benchmark") else {
                        parts.push(format!("BADLINE {}", enc(l)));
                        continue;
                    };
                    if !seen.insert(path.to_string()) || seen.len() > 6 {
                        continue;
                    }
                    let f = [path.to_string()];
                    let t = run_child(line, "main", true, &with(cli_args(&sp, Some(&f), true), &["--list", "--format", "terse"]));
                    let r = run_child(line, "main", false, &with(cli_args(&sp, Some(&f), true), &["--test"]));
                    parts.push(format!("{}>{}>{}", enc(path), canon_terse(&t), canon_tree(&r, true)));
                }
                parts.join("&")
            }
            other => format!("unknown-act-{other}"),
        };
        out.push(format!("{act}[{sec}]"));
    }
    out.join(" ")
}

/// `push` mode: `<threads> <nodes per thread> <rounds>`.  Overlapping `EntryList::push` calls (the public
/// `__private` API the macros' constructors use) from several threads released by a barrier; afterwards the
/// list must contain the head's own entry and every pushed node exactly once.
fn run_push(line: &str) -> String {
    use divan::__private::EntryList;
    let f: Vec<usize> = line.split(' ').map(|s| s.parse().expect("push case")).collect();
    let (threads, per, rounds) = (f[0], f[1], f[2]);
    for round in 0..rounds {
        let head: &'static EntryList<u64> = Box::leak(Box::new(EntryList::new(Box::leak(Box::new(0u64)))));
        let nodes: Vec<Vec<&'static EntryList<u64>>> = (0..threads)
            .map(|t| {
                (0..per)
                    .map(|j| {
                        let v: &'static u64 = Box::leak(Box::new((t * per + j + 1) as u64));
                        &*Box::leak(Box::new(EntryList::new(v)))
                    })
                    .collect()
            })
            .collect();
        let barrier = std::sync::Barrier::new(threads);
        std::thread::scope(|s| {
            for mine in &nodes {
                let barrier = &barrier;
                s.spawn(move || {
                    barrier.wait();
                    for n in mine {
                        head.push(n);
                    }
                });
            }
        });
        let total = threads * per + 1;
        let mut seen = vec![0u32; total];
        let mut len = 0usize;
        let mut first = None;
        for v in head.iter().take(total + 8) {
            if first.is_none() {
                first = Some(*v);
            }
            len += 1;
            if (*v as usize) < total {
                seen[*v as usize] += 1;
            }
        }
        let lost = seen.iter().filter(|&&c| c == 0).count();
        let dup = seen.iter().filter(|&&c| c > 1).count();
        if lost != 0 || dup != 0 || len != total || first != Some(0) {
            return format!("round={round} lost={lost} dup={dup} len={len} of {total} first={first:?}");
        }
    }
    "ok".to_string()
}

fn parent(mode: &str) {
    let stdin = std::io::stdin();
    let lines: Vec<String> =
        stdin.lock().lines().map(|l| l.expect("line")).filter(|l| !l.is_empty() && !l.starts_with('#')).collect();
    let results: Vec<Mutex<String>> = lines.iter().map(|_| Mutex::new(String::new())).collect();
    let next = AtomicUsize::new(0);
    let workers: usize = std::env::var("HX_JOBS").ok().and_then(|s| s.parse().ok()).unwrap_or(8);
    std::thread::scope(|s| {
        for _ in 0..workers.min(lines.len().max(1)) {
            s.spawn(|| loop {
                let i = next.fetch_add(1, Ordering::SeqCst);
                if i >= lines.len() {
                    break;
                }
                let r = std::panic::catch_unwind(|| match mode {
                    "run" | "c14" | "c12" | "c17" => run_case(&lines[i]),
                    "push" => run_push(&lines[i]),
                    "types" => (0..registry::N_TYPES).map(|t| enc(registry::type_name(t))).collect::<Vec<_>>().join(" "),
                    other => format!("unknown mode {other}"),
                })
                .unwrap_or_else(|e| format!("harness-error {}", hxlib::panic_msg(&e).replace('\n', " ")));
                *results[i].lock().unwrap() = r;
            });
        }
    });
    let so = std::io::stdout();
    let mut so = so.lock();
    for r in &results {
        writeln!(so, "{}", r.lock().unwrap()).unwrap();
    }
}

fn main() {
    if std::env::var_os("HX_CHILD").is_some() {
        child();
        return;
    }
    let mode = std::env::args().nth(1).expect("mode");
    parent(&mode);
}
