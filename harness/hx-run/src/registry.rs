//! Synthetic registry: builds `BenchEntry` / `GroupEntry` / `GenericBenchEntry`
//! values from a spec exactly as the attribute macros would emit them (same
//! public `__private` API: `EntryList::new`, `BENCH_ENTRIES.push`, `BenchArgs::runner`,
//! `EntryType::new`, `EntryConst::new`, `LazyLock<BenchOptions>`), leaks them and
//! pushes them into the global lists.  Benchmark bodies append to an invocation log.

use std::borrow::Cow;
use std::sync::atomic::{AtomicUsize, Ordering};
use std::sync::{LazyLock, Mutex, OnceLock};

use divan::__private::{
    BenchArgs, BenchEntry, BenchEntryRunner, BenchOptions, EntryConst, EntryList, EntryLocation, EntryMeta, EntryType,
    GenericBenchEntry, GroupEntry, ToStringHelper, BENCH_ENTRIES, GROUP_ENTRIES,
};
use divan::Bencher;

use crate::spec::{enc, Args, Item, Spec};

pub const N_IDS: usize = 256;

static SPEC: OnceLock<Spec> = OnceLock::new();
/// Per id: the options letter and (for argument runners) the id owning the argument list.
static OPTS: OnceLock<Vec<(char, bool)>> = OnceLock::new();
static OWNER: OnceLock<Vec<usize>> = OnceLock::new();
static OWNER_ARGS: OnceLock<Vec<Option<Args>>> = OnceLock::new();

pub static LOG: Mutex<Vec<String>> = Mutex::new(Vec::new());
static MADE: [AtomicUsize; N_IDS] = [const { AtomicUsize::new(0) }; N_IDS];
static ARGS: [BenchArgs; N_IDS] = [const { BenchArgs::new() }; N_IDS];

pub fn log(s: String) {
    LOG.lock().unwrap().push(s);
}

pub fn made_counts() -> Vec<(usize, usize)> {
    (0..N_IDS).map(|i| (i, MADE[i].load(Ordering::SeqCst))).filter(|&(_, n)| n > 0).collect()
}

// ---- argument value kinds ---------------------------------------------------

#[derive(Debug, Clone, Copy, PartialEq)]
pub struct Dbg(pub i64);

/// `ToString` implemented by hand (no `Display`) beside a different `Debug`: labelled by `to_string()`.
#[derive(Clone, Copy, PartialEq)]
pub struct OwnStr(pub i64);
#[allow(clippy::to_string_trait_impl)]
impl ToString for OwnStr {
    fn to_string(&self) -> String {
        format!("own{}", self.0)
    }
}
impl std::fmt::Debug for OwnStr {
    fn fmt(&self, f: &mut std::fmt::Formatter<'_>) -> std::fmt::Result {
        write!(f, "DEBUG-OF-OWN<{}>", self.0)
    }
}
impl LogVal for OwnStr {
    fn render(&self) -> String {
        format!("s{}", enc(&format!("own{}", self.0)))
    }
}

/// `Display` beside a different `Debug`: labelled by `Display`.
#[derive(Clone, Copy, PartialEq)]
pub struct DispDbg(pub i64);
impl std::fmt::Display for DispDbg {
    fn fmt(&self, f: &mut std::fmt::Formatter<'_>) -> std::fmt::Result {
        write!(f, "disp{}", self.0)
    }
}
impl std::fmt::Debug for DispDbg {
    fn fmt(&self, f: &mut std::fmt::Formatter<'_>) -> std::fmt::Result {
        write!(f, "DEBUG-OF-DISP<{}>", self.0)
    }
}
impl LogVal for DispDbg {
    fn render(&self) -> String {
        format!("s{}", enc(&format!("disp{}", self.0)))
    }
}

fn num_of(label: &str) -> i64 {
    let digits: String = label.chars().filter(|c| c.is_ascii_digit() || *c == '-').collect();
    digits.parse().expect("number in label")
}

/// Every value is rendered as the empty string: several rows with the same (empty) label.
#[derive(Clone, Copy, PartialEq)]
pub struct Blank(pub i64);
impl std::fmt::Display for Blank {
    fn fmt(&self, _: &mut std::fmt::Formatter<'_>) -> std::fmt::Result {
        Ok(())
    }
}
impl LogVal for Blank {
    fn render(&self) -> String {
        format!("e{}", self.0)
    }
}

/// `&str` items that are prefixes of one leaked buffer (they share their start address) where the
/// values allow it; separately leaked strings otherwise.
fn prefix_strs(v: &[String]) -> Vec<&'static str> {
    let longest = v.iter().max_by_key(|s| s.len()).cloned().unwrap_or_default();
    if v.iter().all(|s| longest.starts_with(s.as_str())) {
        let buf: &'static str = Box::leak(longest.into_boxed_str());
        v.iter().map(|s| &buf[..s.len()]).collect()
    } else {
        leak_strs(v)
    }
}

pub trait LogVal {
    fn render(&self) -> String;
}
impl LogVal for i64 {
    fn render(&self) -> String {
        format!("i{self}")
    }
}
impl LogVal for u8 {
    fn render(&self) -> String {
        format!("i{self}")
    }
}
impl LogVal for Dbg {
    fn render(&self) -> String {
        format!("d{}", self.0)
    }
}
impl LogVal for char {
    fn render(&self) -> String {
        let mut b = [0u8; 4];
        format!("s{}", enc(self.encode_utf8(&mut b)))
    }
}
impl LogVal for str {
    fn render(&self) -> String {
        format!("s{}", enc(self))
    }
}
impl LogVal for String {
    fn render(&self) -> String {
        self.as_str().render()
    }
}
impl LogVal for Box<str> {
    fn render(&self) -> String {
        (**self).render()
    }
}
impl LogVal for Cow<'static, str> {
    fn render(&self) -> String {
        (**self).render()
    }
}
impl<T: LogVal + ?Sized> LogVal for &T {
    fn render(&self) -> String {
        (**self).render()
    }
}

// ---- bodies -------------------------------------------------------------------

// The bodies proper are not generic over the identity (one copy of the Bencher machinery per item
// type instead of one per identity: the cold build of this crate took minutes otherwise).
fn plain_body<const ID: usize>(b: Bencher) {
    plain_impl(ID, b)
}

#[inline(never)]
fn plain_impl(id: usize, b: Bencher) {
    log(format!("E{id}"));
    b.bench(|| log(format!("C{id}")));
}

#[inline(never)]
fn arg_body<T: LogVal>(id: usize, b: Bencher, x: &T) {
    log(format!("E{id}"));
    let v = x.render();
    b.bench(|| log(format!("C{id}={v}")));
}

fn leak_strs(v: &[String]) -> Vec<&'static str> {
    v.iter().map(|s| &*Box::leak(s.clone().into_boxed_str())).collect()
}

fn args_runner<const ID: usize>() -> BenchEntryRunner {
    BenchEntryRunner::Args(|| {
        let owner = OWNER.get().unwrap()[ID];
        let a: &'static Args = OWNER_ARGS.get().unwrap()[owner].as_ref().expect("args of owner");
        let st: &'static BenchArgs = &ARGS[owner];
        let made = move || {
            MADE[owner].fetch_add(1, Ordering::SeqCst);
            if let Some(ms) = std::env::var("HX_SLOW_ARGS").ok().and_then(|s| s.parse::<u64>().ok()) {
                // make overlapping evaluations by concurrent runs deterministic
                std::thread::sleep(std::time::Duration::from_millis(ms));
            }
        };
        match a.kind {
            // Vec<i64>: items by value, names through ToString
            b'i' => st.runner(
                || {
                    made();
                    a.ints.clone()
                },
                |x| ToStringHelper(x).to_string(),
                |b, x| arg_body(ID, b, x),
            ),
            // &'static [i64]: items by reference
            b'r' => st.runner(
                || {
                    made();
                    let s: &'static [i64] = Box::leak(a.ints.clone().into_boxed_slice());
                    s
                },
                |x| ToStringHelper(x).to_string(),
                |b, x| arg_body(ID, b, x),
            ),
            // Range<i64>
            b'g' => st.runner(
                || {
                    made();
                    let start = a.ints.first().copied().unwrap_or(0);
                    start..start + a.ints.len() as i64
                },
                |x| ToStringHelper(x).to_string(),
                |b, x| arg_body(ID, b, x),
            ),
            // Vec<u8>
            b'u' => st.runner(
                || {
                    made();
                    a.ints.iter().map(|&v| v as u8).collect::<Vec<u8>>()
                },
                |x| ToStringHelper(x).to_string(),
                |b, x| arg_body(ID, b, x),
            ),
            // Debug-only item type: names through the Debug fallback
            b'd' => st.runner(
                || {
                    made();
                    a.ints.iter().map(|&v| Dbg(v)).collect::<Vec<Dbg>>()
                },
                |x| ToStringHelper(x).to_string(),
                |b, x| arg_body(ID, b, x),
            ),
            // own ToString + Debug / Display + different Debug (the case's values are the expected labels)
            b'o' => st.runner(
                || {
                    made();
                    a.strs.iter().map(|s| OwnStr(num_of(s))).collect::<Vec<OwnStr>>()
                },
                |x| ToStringHelper(x).to_string(),
                |b, x| arg_body(ID, b, x),
            ),
            b'y' => st.runner(
                || {
                    made();
                    a.strs.iter().map(|s| DispDbg(num_of(s))).collect::<Vec<DispDbg>>()
                },
                |x| ToStringHelper(x).to_string(),
                |b, x| arg_body(ID, b, x),
            ),
            // items with an empty rendering
            b'e' => st.runner(
                || {
                    made();
                    a.ints.iter().map(|&v| Blank(v)).collect::<Vec<Blank>>()
                },
                |x| ToStringHelper(x).to_string(),
                |b, x| arg_body(ID, b, x),
            ),
            // Vec<&'static str> whose items are prefixes of one buffer
            b'p' => st.runner(
                || {
                    made();
                    prefix_strs(&a.strs)
                },
                |x| ToStringHelper(x).to_string(),
                |b, x| arg_body(ID, b, x),
            ),
            // &'static [&'static str] whose items are prefixes of one buffer
            b'q' => st.runner(
                || {
                    made();
                    let s: &'static [&'static str] = Box::leak(prefix_strs(&a.strs).into_boxed_slice());
                    s
                },
                |x| ToStringHelper(x).to_string(),
                |b, x| arg_body(ID, b, x),
            ),
            // Vec<char>
            b'c' => st.runner(
                || {
                    made();
                    a.strs.iter().map(|s| s.chars().next().expect("char")).collect::<Vec<char>>()
                },
                |x| ToStringHelper(x).to_string(),
                |b, x| arg_body(ID, b, x),
            ),
            // Vec<String>: names alias the items
            b'S' => st.runner(
                || {
                    made();
                    a.strs.clone()
                },
                |x| ToStringHelper(x).to_string(),
                |b, x| arg_body(ID, b, x),
            ),
            // Vec<&'static str>: the names slice is the items slice
            b's' => st.runner(
                || {
                    made();
                    leak_strs(&a.strs)
                },
                |x| ToStringHelper(x).to_string(),
                |b, x| arg_body(ID, b, x),
            ),
            // &'static [&'static str]: the names slice is the user's slice
            b'l' => st.runner(
                || {
                    made();
                    let s: &'static [&'static str] = Box::leak(leak_strs(&a.strs).into_boxed_slice());
                    s
                },
                |x| ToStringHelper(x).to_string(),
                |b, x| arg_body(ID, b, x),
            ),
            // slice::Iter<&str>
            b't' => st.runner(
                || {
                    made();
                    let s: &'static [&'static str] = Box::leak(leak_strs(&a.strs).into_boxed_slice());
                    s.iter()
                },
                |x| ToStringHelper(x).to_string(),
                |b, x| arg_body(ID, b, x),
            ),
            // Vec<Box<str>>
            b'b' => st.runner(
                || {
                    made();
                    a.strs.iter().map(|s| s.clone().into_boxed_str()).collect::<Vec<Box<str>>>()
                },
                |x| ToStringHelper(x).to_string(),
                |b, x| arg_body(ID, b, x),
            ),
            // Vec<Cow<'static, str>>
            b'w' => st.runner(
                || {
                    made();
                    a.strs
                        .iter()
                        .enumerate()
                        .map(|(i, s)| -> Cow<'static, str> {
                            if i % 2 == 0 {
                                Cow::Owned(s.clone())
                            } else {
                                Cow::Borrowed(Box::leak(s.clone().into_boxed_str()))
                            }
                        })
                        .collect::<Vec<_>>()
                },
                |x| ToStringHelper(x).to_string(),
                |b, x| arg_body(ID, b, x),
            ),
            k => panic!("unknown argument kind {}", k as char),
        }
    })
}

fn opts_fn<const ID: usize>() -> BenchOptions<'static> {
    let (letter, threads_empty) = OPTS.get().unwrap()[ID];
    BenchOptions {
        ignore: match letter {
            't' => Some(true),
            'f' => Some(false),
            _ => None,
        },
        // present but empty: the benchmark still runs once, on one thread
        threads: if threads_empty { Some(Cow::Borrowed(&[])) } else { None },
        ..Default::default()
    }
}

macro_rules! tables {
    ($($n:literal)*) => {
        static PLAIN: [fn(Bencher); N_IDS] = [$(plain_body::<$n>),*];
        static OPTS_FN: [fn() -> BenchOptions<'static>; N_IDS] = [$(opts_fn::<$n>),*];
    };
}
with_ids!(tables);

/// Entries that take arguments have identities below this bound (each identity instantiates
/// `BenchArgs::runner` for every container kind).
pub const N_ARG_IDS: usize = 96;
macro_rules! arg_tables {
    ($($n:literal)*) => {
        static ARGS_RUNNER: [fn() -> BenchEntryRunner; N_ARG_IDS] = [$(args_runner::<$n>),*];
    };
}
with_arg_ids!(arg_tables);

// ---- the type menu --------------------------------------------------------------

pub mod ty {
    pub mod a {
        pub struct X;
        pub struct G<T>(pub T);
    }
    pub mod b {
        pub struct X;
        pub struct Y;
    }
}

pub fn entry_type(i: usize) -> EntryType {
    match i {
        0 => EntryType::new::<i32>(),
        1 => EntryType::new::<String>(),
        2 => EntryType::new::<Vec<i32>>(),
        3 => EntryType::new::<&'static str>(),
        4 => EntryType::new::<()>(),
        5 => EntryType::new::<[u8; 4]>(),
        6 => EntryType::new::<ty::a::X>(),
        7 => EntryType::new::<ty::b::X>(),
        8 => EntryType::new::<ty::b::Y>(),
        9 => EntryType::new::<Option<String>>(),
        10 => EntryType::new::<ty::a::G<ty::b::X>>(),
        11 => EntryType::new::<std::collections::BTreeMap<ty::a::X, Vec<ty::b::Y>>>(),
        12 => EntryType::new::<(ty::a::X, ty::b::X)>(),
        13 => EntryType::new::<fn(ty::a::X) -> ty::b::Y>(),
        // type syntax other than a path
        14 => EntryType::new::<&'static String>(),
        15 => EntryType::new::<(String, i32)>(),
        16 => EntryType::new::<[String; 2]>(),
        17 => EntryType::new::<fn(String) -> Vec<u8>>(),
        18 => EntryType::new::<Box<dyn core::fmt::Debug>>(),
        19 => EntryType::new::<*const u8>(),
        20 => EntryType::new::<Vec<String>>(),
        21 => EntryType::new::<Option<&'static String>>(),
        _ => panic!("type menu index {i}"),
    }
}

pub fn type_name(i: usize) -> &'static str {
    use std::any::type_name as n;
    match i {
        0 => n::<i32>(),
        1 => n::<String>(),
        2 => n::<Vec<i32>>(),
        3 => n::<&'static str>(),
        4 => n::<()>(),
        5 => n::<[u8; 4]>(),
        6 => n::<ty::a::X>(),
        7 => n::<ty::b::X>(),
        8 => n::<ty::b::Y>(),
        9 => n::<Option<String>>(),
        10 => n::<ty::a::G<ty::b::X>>(),
        11 => n::<std::collections::BTreeMap<ty::a::X, Vec<ty::b::Y>>>(),
        12 => n::<(ty::a::X, ty::b::X)>(),
        13 => n::<fn(ty::a::X) -> ty::b::Y>(),
        14 => n::<&'static String>(),
        15 => n::<(String, i32)>(),
        16 => n::<[String; 2]>(),
        17 => n::<fn(String) -> Vec<u8>>(),
        18 => n::<Box<dyn core::fmt::Debug>>(),
        19 => n::<*const u8>(),
        20 => n::<Vec<String>>(),
        21 => n::<Option<&'static String>>(),
        _ => panic!("type menu index {i}"),
    }
}
pub const N_TYPES: usize = 22;

fn entry_const(kind: u8, v: &str) -> EntryConst {
    match kind {
        b'i' => EntryConst::new::<i64>(Box::leak(Box::new(v.parse().expect("const int")))),
        b'u' => EntryConst::new::<usize>(Box::leak(Box::new(v.parse().expect("const usize")))),
        b'b' => EntryConst::new::<bool>(Box::leak(Box::new(v == "true"))),
        b'c' => EntryConst::new::<char>(Box::leak(Box::new(v.chars().next().expect("const char")))),
        b's' => EntryConst::new::<String>(Box::leak(Box::new(v.to_string()))),
        k => panic!("const kind {}", k as char),
    }
}

// ---- building ---------------------------------------------------------------------

fn leak_str(s: &str) -> &'static str {
    Box::leak(s.to_string().into_boxed_str())
}

fn mk_meta(m: &crate::spec::Meta) -> EntryMeta {
    EntryMeta {
        display_name: leak_str(&m.display),
        raw_name: leak_str(&m.raw),
        module_path: leak_str(&m.modpath),
        location: EntryLocation { file: "hx.rs", line: m.line, col: m.col },
        bench_options: if m.opts == '-' { None } else { Some(LazyLock::new(OPTS_FN[m.id])) },
    }
}

fn runner(id: usize, has_args: bool) -> BenchEntryRunner {
    if has_args {
        assert!(id < N_ARG_IDS, "entries with arguments need an identity below {N_ARG_IDS}");
        ARGS_RUNNER[id]()
    } else {
        BenchEntryRunner::Plain(PLAIN[id])
    }
}

/// Builds and registers everything; afterwards the global lists iterate in
/// the spec's order.
pub fn install(spec: Spec) {
    let mut opts = vec![('-', false); N_IDS];
    let mut owner = vec![usize::MAX; N_IDS];
    let mut owner_args: Vec<Option<Args>> = vec![None; N_IDS];
    for item in &spec.items {
        match item {
            Item::B(b) => {
                opts[b.meta.id] = (b.meta.opts, b.meta.threads_empty);
                owner[b.meta.id] = b.meta.id;
                owner_args[b.meta.id] = b.args.clone();
            }
            Item::G(g) => {
                opts[g.meta.id] = (g.meta.opts, g.meta.threads_empty);
                owner_args[g.meta.id] = g.args.clone();
                for row in g.generic.iter().flatten() {
                    for e in row {
                        owner[e.id] = g.meta.id;
                    }
                }
            }
        }
    }
    OPTS.set(opts).unwrap();
    OWNER.set(owner).unwrap();
    OWNER_ARGS.set(owner_args).unwrap();
    let spec = SPEC.get_or_init(|| spec);

    let mut bench_nodes = Vec::new();
    let mut group_nodes = Vec::new();
    for item in &spec.items {
        match item {
            Item::B(b) => {
                let entry: &'static BenchEntry =
                    Box::leak(Box::new(BenchEntry { meta: mk_meta(&b.meta), bench: runner(b.meta.id, b.args.is_some()) }));
                let node: &'static EntryList<BenchEntry> = Box::leak(Box::new(EntryList::new(entry)));
                bench_nodes.push(node);
            }
            Item::G(g) => {
                let gp: *mut GroupEntry = Box::into_raw(Box::new(GroupEntry { meta: mk_meta(&g.meta), generic_benches: None }));
                // SAFETY: leaked, never freed; the back-references are only read after the write below.
                let gref: &'static GroupEntry = unsafe { &*gp };
                if let Some(rows) = &g.generic {
                    let rows: Vec<&'static [GenericBenchEntry]> = rows
                        .iter()
                        .map(|row| {
                            let v: Vec<GenericBenchEntry> = row
                                .iter()
                                .map(|e| GenericBenchEntry {
                                    group: gref,
                                    bench: runner(e.id, g.args.is_some()),
                                    ty: e.ty.map(entry_type),
                                    const_value: e.konst.as_ref().map(|(k, v)| entry_const(*k, v)),
                                })
                                .collect();
                            &*Box::leak(v.into_boxed_slice())
                        })
                        .collect();
                    let rows: &'static [&'static [GenericBenchEntry]] = Box::leak(rows.into_boxed_slice());
                    unsafe { std::ptr::addr_of_mut!((*gp).generic_benches).write(Some(rows)) };
                }
                let node: &'static EntryList<GroupEntry> = Box::leak(Box::new(EntryList::new(gref)));
                group_nodes.push(node);
            }
        }
    }
    // `push` inserts at the front.
    for node in bench_nodes.into_iter().rev() {
        BENCH_ENTRIES.push(node);
    }
    for node in group_nodes.into_iter().rev() {
        GROUP_ENTRIES.push(node);
    }
}
