//! The case format shared with ocaml/tree.ml and tools/props/treelib.py.
//!
//! case  := item (' ' item)*
//! item  := C,<acts>,<ign>,<exact>,<pos>,<skip>,<sort>[,<threads>]
//!        | B,<id>,<modpath>,<raw>,<display>,<line>,<col>,<opts>,<rk>,<vals>
//!        | G,<id>,<modpath>,<raw>,<display>,<line>,<col>,<opts>,<rk>,<vals>,<generic>
//! Strings are percent-encoded (`%XX`; the empty string is `%_`); `-` is "none".
//! lists: `-` or elements joined by `/`.
//! opts: - (no options) | n (options, ignore unset) | t | f, then optionally `e` (threads = empty list), then optionally a sample count
//! rk:   p (plain) or the argument container kind (one letter); vals: the argument values
//! generic: - (None) | @ (Some(&[])) | rows joined by `/`; row := `.` (empty) | entry (';' entry)*
//!          entry := <id>~<type or ->~<const or ->   type := <menu index>:<raw type name>   const := <kind letter><value>

#[derive(Clone, Debug)]
pub struct Cfg {
    pub acts: String,
    pub ign: char,
    pub exact: bool,
    pub pos: Vec<String>,
    pub skip: Vec<String>,
    pub sort: char,
    /// `X,<path>`: run this executable (a real crate using the attribute macros) instead of the synthetic registry.
    pub exe: Option<String>,
    /// Optional 8th field of the C item: run-time thread counts (`--threads a,b` / `Divan::threads`).
    pub threads: Vec<usize>,
}

#[derive(Clone, Debug)]
pub struct Meta {
    pub id: usize,
    pub modpath: String,
    pub raw: String,
    pub display: String,
    pub line: u32,
    pub col: u32,
    pub opts: char,
    /// `e` after the options letter: `threads: Some(&[])` (present but empty).
    pub threads_empty: bool,
}

#[derive(Clone, Debug)]
pub struct Args {
    pub kind: u8,
    pub ints: Vec<i64>,
    pub strs: Vec<String>,
}

#[derive(Clone, Debug)]
pub struct Gen {
    pub id: usize,
    pub ty: Option<usize>,
    /// The raw `type_name` the case expects for `ty` (checked by the harness).
    pub ty_name: Option<String>,
    pub konst: Option<(u8, String)>,
}

#[derive(Clone, Debug)]
pub struct Bench {
    pub meta: Meta,
    pub args: Option<Args>,
}

#[derive(Clone, Debug)]
pub struct Group {
    pub meta: Meta,
    pub args: Option<Args>,
    pub generic: Option<Vec<Vec<Gen>>>,
}

#[derive(Clone, Debug)]
pub enum Item {
    B(Bench),
    G(Group),
}

#[derive(Clone, Debug)]
pub struct Spec {
    pub cfg: Cfg,
    /// In registry iteration order.
    pub items: Vec<Item>,
}

pub fn dec(s: &str) -> String {
    let b = s.as_bytes();
    let mut out = Vec::with_capacity(b.len());
    let mut i = 0;
    while i < b.len() {
        if b[i] == b'%' {
            if i + 1 < b.len() && b[i + 1] == b'_' {
                i += 2;
                continue;
            }
            let h = std::str::from_utf8(&b[i + 1..i + 3]).expect("hex");
            out.push(u8::from_str_radix(h, 16).expect("hex"));
            i += 3;
        } else {
            out.push(b[i]);
            i += 1;
        }
    }
    String::from_utf8(out).expect("utf8")
}

pub fn enc(s: &str) -> String {
    if s.is_empty() {
        return "%_".into();
    }
    let mut out = String::new();
    for &c in s.as_bytes() {
        let plain = c > 0x20 && c < 0x7f && !b",/;=~|%-[]!>&".contains(&c);
        if plain {
            out.push(c as char);
        } else {
            out.push_str(&format!("%{c:02X}"));
        }
    }
    out
}

fn list(s: &str) -> Vec<String> {
    if s == "-" {
        Vec::new()
    } else {
        s.split('/').map(dec).collect()
    }
}

fn args(rk: &str, vals: &str) -> Option<Args> {
    let kind = rk.as_bytes()[0];
    if kind == b'p' {
        return None;
    }
    let vals = list(vals);
    let is_int = matches!(kind, b'i' | b'r' | b'g' | b'u' | b'd' | b'e');
    Some(Args {
        kind,
        ints: if is_int { vals.iter().map(|v| v.parse().expect("int arg")).collect() } else { Vec::new() },
        strs: if is_int { Vec::new() } else { vals },
    })
}

fn meta(f: &[&str]) -> Meta {
    Meta {
        id: f[1].parse().expect("id"),
        modpath: dec(f[2]),
        raw: dec(f[3]),
        display: dec(f[4]),
        line: f[5].parse().expect("line"),
        col: f[6].parse().expect("col"),
        opts: f[7].chars().next().unwrap(),
        threads_empty: f[7].chars().nth(1) == Some('e'),
    }
}

pub fn parse(line: &str) -> Spec {
    let mut cfg = None;
    let mut exe = None;
    let mut items = Vec::new();
    for item in line.split(' ') {
        if item.is_empty() {
            continue;
        }
        let f: Vec<&str> = item.split(',').collect();
        match f[0] {
            "C" => {
                cfg = Some(Cfg {
                    acts: f[1].to_string(),
                    ign: f[2].chars().next().unwrap(),
                    exact: f[3] == "e",
                    pos: list(f[4]),
                    skip: list(f[5]),
                    sort: f[6].chars().next().unwrap(),
                    exe: None,
                    threads: f.get(7).map(|s| list(s).iter().map(|n| n.parse().expect("threads")).collect()).unwrap_or_default(),
                })
            }
            "B" => items.push(Item::B(Bench { meta: meta(&f), args: args(f[8], f[9]) })),
            "G" => {
                let generic = match f[10] {
                    "-" => None,
                    "@" => Some(Vec::new()),
                    rows => Some(
                        rows.split('/')
                            .map(|row| {
                                if row == "." {
                                    Vec::new()
                                } else {
                                    row.split(';')
                                        .map(|e| {
                                            let p: Vec<&str> = e.split('~').collect();
                                            Gen {
                                                id: p[0].parse().expect("gid"),
                                                ty: if p[1] == "-" {
                                                    None
                                                } else {
                                                    Some(p[1].split(':').next().unwrap().parse().expect("ty"))
                                                },
                                                ty_name: p[1].split_once(':').map(|(_, n)| dec(n)),
                                                konst: if p[2] == "-" {
                                                    None
                                                } else {
                                                    Some((p[2].as_bytes()[0], dec(&p[2][1..])))
                                                },
                                            }
                                        })
                                        .collect()
                                }
                            })
                            .collect(),
                    ),
                };
                items.push(Item::G(Group { meta: meta(&f), args: args(f[8], f[9]), generic }))
            }
            "X" => exe = Some(dec(f[1])),
            // the abstract program is for the model only
            "P" | "F" | "M" | "N" | "E" | "O" | "V" => {}
            other => panic!("bad item {other}"),
        }
    }
    let mut cfg = cfg.expect("cfg item");
    cfg.exe = exe;
    Spec { cfg, items }
}
