//! Harness driving the real crate (built from /repo's working tree with
//! `--cfg divan_verif`): one mode per stream of the correspondence check.
//!
//! * `tally`   — `__verif::tally_run`: the tally arithmetic on a fresh `ThreadAllocInfo`.
//! * `threads` — the real path: a `static AllocProfiler<Mock>` whose four
//!   `GlobalAlloc` methods are called directly on 1..8 threads at once; each
//!   thread's tally is read with `thread_alloc_info()`.
//! * `prof`    — C09: request sequences with scripted inner return values; the
//!   mock's call log and the values the profiler returned are printed.
//! * `record`  — C10, the recording step: a real `Bencher` run on 1..3 threads; per-round
//!   per-thread tallied operations and the dump of `alloc_info_by_sample`.
//! * `nest`    — C09 with a re-entrant wrapped allocator: `ReMock` issues scripted nested
//!   requests through a profiler (the same or a second instance) while serving a request.
//! * `churn`   — C09, run-time part: runs `hx-alloc-global` (src/bin) as a subprocess.
//!
//! `PROF` is *not* the global allocator of this process, and `Mock` never
//! touches memory: every pointer is a number that is only passed around.
use std::alloc::{GlobalAlloc, Layout};
use std::cell::{Cell, RefCell};
use std::collections::VecDeque;
use std::panic::{catch_unwind, AssertUnwindSafe};
use std::sync::{Arc, Barrier};

use divan::AllocProfiler;
use divan::__verif as v;

// ---------------------------------------------------------------------------
// The mock inner allocator
// ---------------------------------------------------------------------------

struct Mock;

thread_local! {
    /// Everything the mock received on this thread, in order.
    static LOG: RefCell<Vec<String>> = RefCell::new(Vec::new());
    /// Scripted return values (front first); when empty a fake pointer is made up.
    static SCRIPT: RefCell<VecDeque<usize>> = RefCell::new(VecDeque::new());
    static AUTO: Cell<usize> = Cell::new(0);
}

fn mock_ret() -> *mut u8 {
    let scripted = SCRIPT.with(|s| s.borrow_mut().pop_front());
    let p = match scripted {
        Some(p) => p,
        None => AUTO.with(|a| {
            let n = a.get() + 1;
            a.set(n);
            // every 7th call fails
            if n % 7 == 0 { 0 } else { 0x10000 + 64 * n }
        }),
    };
    p as *mut u8
}

unsafe impl GlobalAlloc for Mock {
    unsafe fn alloc(&self, l: Layout) -> *mut u8 {
        LOG.with(|g| g.borrow_mut().push(format!("a:{}:{}", l.size(), l.align())));
        mock_ret()
    }
    unsafe fn alloc_zeroed(&self, l: Layout) -> *mut u8 {
        LOG.with(|g| g.borrow_mut().push(format!("z:{}:{}", l.size(), l.align())));
        mock_ret()
    }
    unsafe fn realloc(&self, p: *mut u8, l: Layout, new_size: usize) -> *mut u8 {
        LOG.with(|g| g.borrow_mut().push(format!("r:{}:{}:{}:{}", p as usize, l.size(), l.align(), new_size)));
        mock_ret()
    }
    unsafe fn dealloc(&self, p: *mut u8, l: Layout) {
        LOG.with(|g| g.borrow_mut().push(format!("d:{}:{}:{}", p as usize, l.size(), l.align())));
    }
}

static PROF: AllocProfiler<Mock> = AllocProfiler::new(Mock);

// ---------------------------------------------------------------------------
// Helpers
// ---------------------------------------------------------------------------

fn num(s: &str) -> usize {
    s.parse::<u64>().unwrap_or_else(|_| panic!("bad number {s}")) as usize
}

fn fmt_info(i: &v::PlainAllocInfo) -> String {
    let t = &i.tallies;
    format!(
        "ok {} {} {} {} {} {} {} {} {} {} {} {}",
        t[0].0, t[0].1, t[1].0, t[1].1, t[2].0, t[2].1, t[3].0, t[3].1,
        i.current_count, i.max_count, i.current_size, i.max_size
    )
}

/// The case says which build it was generated for; a harness built with the
/// other profile must not silently answer.
fn build_ok(flag: &str) -> bool {
    match flag {
        "D" => cfg!(debug_assertions),
        "R" => !cfg!(debug_assertions),
        _ => panic!("bad build flag {flag}"),
    }
}

fn caught(f: impl FnOnce() -> String) -> String {
    match catch_unwind(AssertUnwindSafe(f)) {
        Ok(s) => s,
        Err(e) => format!("panic {}", hxlib::classify_panic(hxlib::panic_msg(&e))),
    }
}

// ---------------------------------------------------------------------------
// tally: pure arithmetic through the hook
// ---------------------------------------------------------------------------

fn tally(line: &str) -> String {
    let mut it = line.split(' ').filter(|t| !t.is_empty());
    if !build_ok(it.next().expect("flag")) {
        return "build-mismatch".into();
    }
    let ops: Vec<(u8, usize, usize)> = it
        .map(|t| {
            let (k, rest) = t.split_at(1);
            match k {
                "a" | "z" => (0, num(rest), 0),
                "d" => (1, num(rest), 0),
                "r" => {
                    let (a, b) = rest.split_once(',').expect("realloc token");
                    (2, num(a), num(b))
                }
                _ => panic!("bad token {t}"),
            }
        })
        .collect();
    fmt_info(&v::tally_run(&ops))
}

// ---------------------------------------------------------------------------
// threads: the real path, concurrently
// ---------------------------------------------------------------------------

fn align_for(size: usize) -> usize {
    if size < (1usize << 62) { 1usize << (size % 13) } else { 1 }
}

fn fake_ptr(n: usize) -> *mut u8 {
    (0x2000_0000usize + 4096 * n) as *mut u8
}

/// Runs one thread's events through `PROF` and returns its tally line.
fn run_events(toks: &[String]) -> String {
    // The slot exists from the thread's first access on this platform (const
    // thread_local without destructor); `thread_alloc_clear` goes through
    // `ThreadAllocInfo::current()`, which also creates it where it is lazy.
    v::thread_alloc_clear();
    match v::thread_alloc_info() {
        Some(i) if i == v::PlainAllocInfo::default() => {}
        Some(_) => return "not-cleared".into(),
        None => return "no-thread-info".into(),
    }
    LOG.with(|g| g.borrow_mut().clear());
    SCRIPT.with(|s| s.borrow_mut().clear());
    let mut expected_calls = 0usize;
    for (n, t) in toks.iter().enumerate() {
        let (k, rest) = t.split_at(1);
        unsafe {
            match k {
                "a" => {
                    let s = num(rest);
                    let _ = PROF.alloc(Layout::from_size_align(s, align_for(s)).expect("layout"));
                    expected_calls += 1;
                }
                "z" => {
                    let s = num(rest);
                    let _ = PROF.alloc_zeroed(Layout::from_size_align(s, align_for(s)).expect("layout"));
                    expected_calls += 1;
                }
                "d" => {
                    let s = num(rest);
                    PROF.dealloc(fake_ptr(n), Layout::from_size_align(s, align_for(s)).expect("layout"));
                    expected_calls += 1;
                }
                "r" => {
                    let (a, b) = rest.split_once(',').expect("realloc token");
                    let (a, b) = (num(a), num(b));
                    let _ = PROF.realloc(fake_ptr(n), Layout::from_size_align(a, align_for(a)).expect("layout"), b);
                    expected_calls += 1;
                }
                "c" => v::thread_alloc_clear(),
                _ => panic!("bad token {t}"),
            }
        }
    }
    let calls = LOG.with(|g| g.borrow().len());
    if calls != expected_calls {
        return format!("inner-calls {calls} expected {expected_calls}");
    }
    match v::thread_alloc_info() {
        Some(i) => fmt_info(&i),
        None => "no-thread-info".into(),
    }
}

fn threads(line: &str) -> String {
    let mut parts = line.split('|').map(|s| s.trim());
    if !build_ok(parts.next().expect("flag")) {
        return "build-mismatch".into();
    }
    let scripts: Vec<Vec<String>> =
        parts.map(|p| p.split(' ').filter(|t| !t.is_empty()).map(String::from).collect()).collect();
    let n = scripts.len();
    let barrier = Arc::new(Barrier::new(n.max(1)));
    let mut handles = Vec::new();
    // thread 0 runs on the calling (main) thread, which lives across cases
    for sc in scripts.iter().skip(1).cloned() {
        let b = barrier.clone();
        handles.push(std::thread::spawn(move || {
            b.wait();
            caught(|| run_events(&sc))
        }));
    }
    let mut out = Vec::new();
    if n > 0 {
        barrier.wait();
        out.push(caught(|| run_events(&scripts[0])));
    }
    for h in handles {
        out.push(h.join().unwrap_or_else(|_| "thread-died".into()));
    }
    out.join(" | ")
}

// ---------------------------------------------------------------------------
// prof: C09 — what reaches the inner allocator and what comes back
// ---------------------------------------------------------------------------

fn prof(line: &str) -> String {
    let mut it = line.split(' ').filter(|t| !t.is_empty());
    if !build_ok(it.next().expect("flag")) {
        return "build-mismatch".into();
    }
    let reqs: Vec<Vec<&str>> = it.map(|t| t.split(':').collect()).collect();
    v::thread_alloc_clear();
    LOG.with(|g| g.borrow_mut().clear());
    SCRIPT.with(|s| {
        let mut s = s.borrow_mut();
        s.clear();
        for r in &reqs {
            match r[0] {
                "a" | "z" => s.push_back(num(r[3])),
                "r" => s.push_back(num(r[5])),
                _ => {}
            }
        }
    });
    let mut rets: Vec<String> = Vec::new();
    let mut panicked: Option<String> = None;
    for r in &reqs {
        // A panic (the tally's overflow check in a debug build) ends the run;
        // what the mock received and answered before it is still reported.
        let one = catch_unwind(AssertUnwindSafe(|| unsafe {
            match r[0] {
                "a" => {
                    let l = Layout::from_size_align(num(r[1]), num(r[2])).expect("layout");
                    (PROF.alloc(l) as usize).to_string()
                }
                "z" => {
                    let l = Layout::from_size_align(num(r[1]), num(r[2])).expect("layout");
                    (PROF.alloc_zeroed(l) as usize).to_string()
                }
                "r" => {
                    let l = Layout::from_size_align(num(r[2]), num(r[3])).expect("layout");
                    (PROF.realloc(num(r[1]) as *mut u8, l, num(r[4])) as usize).to_string()
                }
                "d" => {
                    let l = Layout::from_size_align(num(r[2]), num(r[3])).expect("layout");
                    PROF.dealloc(num(r[1]) as *mut u8, l);
                    "-".to_string()
                }
                _ => panic!("bad request {:?}", r),
            }
        }));
        match one {
            Ok(v) => rets.push(v),
            Err(e) => {
                panicked = Some(hxlib::classify_panic(hxlib::panic_msg(&e)).to_string());
                break;
            }
        }
    }
    let log = LOG.with(|g| g.borrow().join(","));
    let left = SCRIPT.with(|s| s.borrow().len());
    let info = v::thread_alloc_info().map(|i| fmt_info(&i)).unwrap_or_else(|| "no-thread-info".into());
    match panicked {
        Some(k) => {
            // answers scripted for the panicking request and the ones after it stay unused
            format!("panic {} log={} ret={} unused={}", k, log, rets.join(","), left)
        }
        None => format!("log={} ret={} unused={} tally={}", log, rets.join(","), left, &info[3..]),
    }
}

// ---------------------------------------------------------------------------
// record: C10, the recording step — what becomes of each thread's snapshot
// ---------------------------------------------------------------------------
//
// A real `Bencher` run (hook `run_bencher`) on 1..3 threads under the virtual
// clock. The benched closure advances its thread's clock by `step` ticks and,
// as its thread's behaviour says, calls `PROF` with thread-identifying sizes
// (thread t: 16*(t+1) bytes). Every call is logged; together with the
// TALLY_CLEAR / TALLY_SNAPSHOT markers of the crate this gives, per round and
// thread, the operations that were tallied. The line printed is that history
// plus the dump of `time_samples.len()` and `alloc_info_by_sample`.

const EV_CALL: u8 = v::ev::USER;

#[derive(Clone, Debug)]
struct Behaviour {
    /// 0 never, 1 always, 2 first:A (call index < A), 3 after:A, 4 every:M
    kind: u8,
    arg: u64,
    /// a alloc, d alloc+dealloc, r alloc+realloc to twice the size, z alloc_zeroed, f dealloc only
    flavour: u8,
}

struct RecCfg {
    step: u64,
    beh: Vec<Behaviour>,
}

static REC_CFG: std::sync::Mutex<Option<RecCfg>> = std::sync::Mutex::new(None);
static REC_CASE: std::sync::atomic::AtomicU64 = std::sync::atomic::AtomicU64::new(0);

thread_local! {
    static REC_CALLS: Cell<(u64, u64)> = const { Cell::new((0, 0)) };
}

fn rec_call() {
    let t = v::thread_index() as usize;
    let case = REC_CASE.load(std::sync::atomic::Ordering::SeqCst);
    let c = REC_CALLS.with(|x| {
        let (id, n) = x.get();
        let n = if id == case { n } else { 0 };
        x.set((case, n + 1));
        n
    });
    let (step, b) = {
        let g = REC_CFG.lock().unwrap();
        let cfg = g.as_ref().expect("cfg");
        (cfg.step, cfg.beh[t].clone())
    };
    let active = match b.kind {
        0 => false,
        1 => true,
        2 => c < b.arg,
        3 => c >= b.arg,
        _ => c % b.arg.max(1) == 0,
    };
    if active {
        let bytes = 16 * (t + 1);
        let l = Layout::from_size_align(bytes, 8).expect("layout");
        unsafe {
            match b.flavour {
                b'a' => {
                    let _ = PROF.alloc(l);
                }
                b'd' => {
                    let _ = PROF.alloc(l);
                    PROF.dealloc(fake_ptr(1), l);
                }
                b'r' => {
                    let _ = PROF.alloc(l);
                    let _ = PROF.realloc(fake_ptr(1), l, 2 * bytes);
                }
                b'z' => {
                    let _ = PROF.alloc_zeroed(l);
                }
                _ => PROF.dealloc(fake_ptr(1), l),
            }
        }
        v::log_event(EV_CALL, b.flavour as u64, bytes as u64);
    } else {
        v::log_event(EV_CALL, 0, 0);
    }
    v::vclock_advance(step);
}

fn flavour_tokens(f: u64, bytes: u64) -> String {
    match f as u8 {
        b'a' => format!("a{bytes}"),
        b'd' => format!("a{bytes}+d{bytes}"),
        b'r' => format!("a{bytes}+r{bytes},{}", 2 * bytes),
        b'z' => format!("z{bytes}"),
        _ => format!("d{bytes}"),
    }
}

fn record(line: &str) -> String {
    let mut it = line.split(' ').filter(|t| !t.is_empty());
    if !build_ok(it.next().expect("flag")) {
        return "build-mismatch".into();
    }
    let (mut threads, mut n, mut size, mut step) = (1usize, 3u32, 0u32, 1000u64);
    let mut beh: Vec<Behaviour> = Vec::new();
    for kv in it {
        let (k, val) = kv.split_once('=').expect("k=v");
        match k {
            "t" => threads = val.parse().expect("t"),
            "n" => n = val.parse().expect("n"),
            "s" => size = val.parse().expect("s"),
            "step" => step = val.parse().expect("step"),
            "b" => {
                for b in val.split(',') {
                    let p: Vec<&str> = b.split(':').collect();
                    beh.push(match p[0] {
                        "never" => Behaviour { kind: 0, arg: 0, flavour: b'a' },
                        "always" => Behaviour { kind: 1, arg: 0, flavour: p[1].as_bytes()[0] },
                        "first" => Behaviour { kind: 2, arg: p[1].parse().expect("A"), flavour: p[2].as_bytes()[0] },
                        "after" => Behaviour { kind: 3, arg: p[1].parse().expect("A"), flavour: p[2].as_bytes()[0] },
                        "every" => Behaviour { kind: 4, arg: p[1].parse().expect("M"), flavour: p[2].as_bytes()[0] },
                        _ => panic!("bad behaviour {b}"),
                    });
                }
            }
            _ => panic!("unknown key {k}"),
        }
    }
    assert_eq!(beh.len(), threads, "one behaviour per thread");
    let mut options = divan::__private::BenchOptions::default();
    options.sample_count = Some(n);
    options.sample_size = if size == 0 { None } else { Some(size) };

    *REC_CFG.lock().unwrap() = Some(RecCfg { step, beh });
    REC_CASE.fetch_add(1, std::sync::atomic::Ordering::SeqCst);
    const FREQ: u64 = 1_000_000_000_000; // one tick = one picosecond
    v::set_precision_override(Some(1000));
    v::set_overhead_override(Some([0; 4]));
    v::log_take();
    v::log_reserve(1 << 16);
    v::thread_alloc_clear();
    v::vclock_set(0);
    v::vclock_enable(FREQ, 0);
    v::log_enable(true);
    let res = catch_unwind(AssertUnwindSafe(|| {
        v::run_bencher(
            &v::RunConfig { options: &options, threads, is_test: false, tsc_frequency: Some(FREQ), compute_stats: false },
            &|bencher| bencher.bench(rec_call),
        )
    }));
    v::log_enable(false);
    v::vclock_disable();
    v::set_precision_override(None);
    v::set_overhead_override(None);
    let log = v::log_take();
    let dump = match res {
        Ok(d) => d,
        Err(e) => return format!("panic {}", hxlib::classify_panic(hxlib::panic_msg(&e))),
    };

    // Per thread: the segments TALLY_CLEAR .. TALLY_SNAPSHOT with the calls in between.
    let mut segs: Vec<Vec<(u64, Vec<String>)>> = vec![Vec::new(); threads];
    let mut open: Vec<bool> = vec![false; threads];
    let mut stray = 0usize;
    for e in &log {
        let t = e.thread as usize;
        if t >= threads {
            stray += 1;
            continue;
        }
        match e.kind {
            v::ev::TALLY_CLEAR => {
                if open[t] {
                    stray += 1;
                }
                open[t] = true;
                segs[t].push((0, Vec::new()));
            }
            v::ev::TALLY_SNAPSHOT => {
                if !open[t] {
                    stray += 1;
                }
                open[t] = false;
            }
            EV_CALL => {
                if !open[t] {
                    stray += 1;
                    continue;
                }
                let seg = segs[t].last_mut().unwrap();
                seg.0 += 1;
                if e.a != 0 {
                    seg.1.push(flavour_tokens(e.a, e.b));
                }
            }
            _ => {}
        }
    }
    let rounds = segs[0].len();
    if stray != 0 || open.iter().any(|&o| o) || segs.iter().any(|s| s.len() != rounds) {
        return format!("ragged-history stray={stray}");
    }
    let mut rs: Vec<String> = Vec::new();
    for r in 0..rounds {
        let mut parts = vec![segs[0][r].0.to_string()];
        for t in 0..threads {
            if segs[t][r].0 != segs[0][r].0 {
                return "ragged-history sizes".into();
            }
            // run-length compression of equal consecutive call tokens
            let toks = &segs[t][r].1;
            let mut out: Vec<String> = Vec::new();
            let mut i = 0;
            while i < toks.len() {
                let mut j = i;
                while j < toks.len() && toks[j] == toks[i] {
                    j += 1;
                }
                out.push(format!("{}*{}", j - i, toks[i]));
                i = j;
            }
            parts.push(if out.is_empty() { "-".into() } else { out.join("&") });
        }
        rs.push(parts.join("/"));
    }
    let recs: Vec<String> = dump
        .alloc_infos
        .iter()
        .map(|(k, i)| format!("{}:{}", k, fmt_info(i)[3..].replace(' ', ",")))
        .collect();
    format!(
        "rounds={} len={} rec={}",
        if rs.is_empty() { "-".into() } else { rs.join(";") },
        dump.durations.len(),
        if recs.is_empty() { "-".into() } else { recs.join(";") }
    )
}

// ---------------------------------------------------------------------------
// nest: C09 with a re-entrant wrapped allocator
// ---------------------------------------------------------------------------
//
// `ReMock`, while serving a request, issues the nested requests its script
// prescribes through a profiler (`NEST_P` wrapping it, or the second instance
// `NEST_Q`), then answers. Case: pre-order list of `depth:via:request` with the
// request tokens of `prof`. Printed: everything `ReMock` received, in order;
// what every requester (the harness for depth 0, `ReMock` for nested requests)
// got back, in the order the requests were issued; the thread's tally.

struct ReMock;

struct NestNode {
    via: u8,
    req: Vec<String>,
    answer: usize,
    children: Vec<NestNode>,
}

thread_local! {
    /// Requests issued and not yet received by `ReMock` (innermost last).
    static PENDING: RefCell<Vec<*const NestNode>> = RefCell::new(Vec::new());
    static NEST_RETS: RefCell<Vec<(usize, String)>> = RefCell::new(Vec::new());
    static NEST_ID: Cell<usize> = Cell::new(0);
    static NEST_SERVED: Cell<usize> = Cell::new(0);
}

static NEST_P: AllocProfiler<ReMock> = AllocProfiler::new(ReMock);
static NEST_Q: AllocProfiler<ReMock> = AllocProfiler::new(ReMock);

unsafe fn nest_issue(node: &NestNode) {
    let id = NEST_ID.with(|c| {
        let i = c.get();
        c.set(i + 1);
        i
    });
    PENDING.with(|p| p.borrow_mut().push(node as *const NestNode));
    let prof: &AllocProfiler<ReMock> = if node.via == b'q' { &NEST_Q } else { &NEST_P };
    let r = &node.req;
    let ret = match r[0].as_str() {
        "a" => (prof.alloc(Layout::from_size_align(num(&r[1]), num(&r[2])).expect("layout")) as usize).to_string(),
        "z" => (prof.alloc_zeroed(Layout::from_size_align(num(&r[1]), num(&r[2])).expect("layout")) as usize).to_string(),
        "r" => (prof.realloc(num(&r[1]) as *mut u8, Layout::from_size_align(num(&r[2]), num(&r[3])).expect("layout"), num(&r[4]))
            as usize)
            .to_string(),
        "d" => {
            prof.dealloc(num(&r[1]) as *mut u8, Layout::from_size_align(num(&r[2]), num(&r[3])).expect("layout"));
            "-".to_string()
        }
        _ => panic!("bad request {:?}", r),
    };
    // a request that never reached ReMock is still pending: drop it
    PENDING.with(|p| {
        let mut p = p.borrow_mut();
        if p.last().copied() == Some(node as *const NestNode) {
            p.pop();
        }
    });
    NEST_RETS.with(|x| x.borrow_mut().push((id, ret)));
}

/// What `ReMock` does with a request it received: the nested requests, then the answer.
unsafe fn nest_serve() -> usize {
    let node = PENDING.with(|p| p.borrow_mut().pop());
    match node {
        Some(n) => {
            let n = &*n;
            NEST_SERVED.with(|c| c.set(c.get() + 1));
            for c in &n.children {
                nest_issue(c);
            }
            n.answer
        }
        None => 0,
    }
}

unsafe impl GlobalAlloc for ReMock {
    unsafe fn alloc(&self, l: Layout) -> *mut u8 {
        LOG.with(|g| g.borrow_mut().push(format!("a:{}:{}", l.size(), l.align())));
        nest_serve() as *mut u8
    }
    unsafe fn alloc_zeroed(&self, l: Layout) -> *mut u8 {
        LOG.with(|g| g.borrow_mut().push(format!("z:{}:{}", l.size(), l.align())));
        nest_serve() as *mut u8
    }
    unsafe fn realloc(&self, p: *mut u8, l: Layout, new_size: usize) -> *mut u8 {
        LOG.with(|g| g.borrow_mut().push(format!("r:{}:{}:{}:{}", p as usize, l.size(), l.align(), new_size)));
        nest_serve() as *mut u8
    }
    unsafe fn dealloc(&self, p: *mut u8, l: Layout) {
        LOG.with(|g| g.borrow_mut().push(format!("d:{}:{}:{}", p as usize, l.size(), l.align())));
        let _ = nest_serve();
    }
}

fn nest_parse(items: &[(usize, u8, Vec<String>)], pos: &mut usize, depth: usize) -> Vec<NestNode> {
    let mut out = Vec::new();
    while *pos < items.len() && items[*pos].0 == depth {
        let (_, via, f) = &items[*pos];
        *pos += 1;
        let (req, answer) = match f[0].as_str() {
            "a" | "z" => (f[..3].to_vec(), num(&f[3])),
            "r" => (f[..5].to_vec(), num(&f[5])),
            _ => (f.clone(), 0),
        };
        let children = nest_parse(items, pos, depth + 1);
        out.push(NestNode { via: *via, req, answer, children });
    }
    out
}

fn nest(line: &str) -> String {
    let mut it = line.split(' ').filter(|t| !t.is_empty());
    if !build_ok(it.next().expect("flag")) {
        return "build-mismatch".into();
    }
    let items: Vec<(usize, u8, Vec<String>)> = it
        .map(|t| {
            let f: Vec<&str> = t.split(':').collect();
            (f[0].parse().expect("depth"), f[1].as_bytes()[0], f[2..].iter().map(|x| x.to_string()).collect())
        })
        .collect();
    let mut pos = 0;
    let forest = nest_parse(&items, &mut pos, 0);
    assert_eq!(pos, items.len(), "malformed forest");
    v::thread_alloc_clear();
    LOG.with(|g| g.borrow_mut().clear());
    PENDING.with(|p| p.borrow_mut().clear());
    NEST_RETS.with(|x| x.borrow_mut().clear());
    NEST_ID.with(|c| c.set(0));
    NEST_SERVED.with(|c| c.set(0));
    for n in &forest {
        unsafe { nest_issue(n) };
    }
    let log = LOG.with(|g| g.borrow().join(","));
    let mut rets = NEST_RETS.with(|x| x.borrow().clone());
    rets.sort();
    let rets: Vec<String> = rets.into_iter().map(|(_, r)| r).collect();
    let served = NEST_SERVED.with(|c| c.get());
    let info = v::thread_alloc_info().map(|i| fmt_info(&i)).unwrap_or_else(|| "no-thread-info".into());
    format!("log={} ret={} unserved={} tally={}", log, rets.join(","), items.len() - served.min(items.len()), &info[3..])
}

/// `churn`: runs the sibling binary `hx-alloc-global <threads> <rounds> <seed>`
/// (its own process: it installs its own `#[global_allocator]`).
fn churn(line: &str) -> String {
    let exe = std::env::current_exe().expect("exe");
    let bin = exe.parent().expect("dir").join("hx-alloc-global");
    match std::process::Command::new(bin).args(line.split(' ').filter(|t| !t.is_empty())).output() {
        Ok(o) => {
            let out = String::from_utf8_lossy(&o.stdout);
            let first = out.lines().next().unwrap_or("no-output").to_string();
            if o.status.success() { first } else { format!("crash rc={:?} {}", o.status.code(), first) }
        }
        Err(e) => format!("cannot-run {e}"),
    }
}

fn dispatch(mode: &str, line: &str) -> String {
    match mode {
        "churn" => churn(line),
        "record" => record(line),
        "nest" => nest(line),
        "tally" => tally(line),
        "threads" => threads(line),
        "prof" => prof(line),
        _ => panic!("unknown mode {mode}"),
    }
}

fn main() {
    hxlib::run(dispatch);
}
