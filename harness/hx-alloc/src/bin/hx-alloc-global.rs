//! C09, the run-time part that no Gallina model can exhibit (tested, not proved):
//! `Outer<AllocProfiler<Inner>>` is the process' `#[global_allocator]`.  Both
//! layers append enter/exit events to one fixed ring (no allocation, no
//! thread-local storage: the thread is identified by its TCB address), from
//! the first allocation of the process (before `main`) on.  After a workload
//! of thread spawn/exit churn with allocation from TLS destructors the ring is
//! analysed per thread: it must be a sequence of groups
//!     Outer-enter(m, args)  Inner-enter(m, args)  Inner-exit(ret)  Outer-exit(ret)
//! with identical method, arguments and return value — i.e. exactly one inner
//! call per request, same arguments, same result, and no call of the global
//! allocator from inside the profiler (that would nest an Outer-enter).
//! Each worker also compares its tally (`thread_alloc_info()`) with what the
//! Outer layer saw on that thread since `thread_alloc_clear()`.
//!
//! usage: hx-alloc-global <threads> <rounds> <seed>     prints `equal` or `mismatch …`
//! After printing, allocating threads are left running while `main` returns,
//! so a crash in process tear-down shows as a non-zero exit status.
use std::alloc::{GlobalAlloc, Layout, System};
use std::arch::asm;
use std::collections::HashMap;
use std::sync::atomic::{AtomicBool, AtomicUsize, Ordering::SeqCst};

use divan::AllocProfiler;
use divan::__verif as v;

const CAP: usize = 1 << 20;
type Ev = [u64; 6]; // code, tid, x1..x4

static mut RING: [Ev; CAP] = [[0; 6]; CAP];
static NEXT: AtomicUsize = AtomicUsize::new(0);
static ON: AtomicBool = AtomicBool::new(true);
static DROPPED: AtomicUsize = AtomicUsize::new(0);

#[inline(always)]
fn tid() -> u64 {
    let t: u64;
    // x86_64 Linux: %fs:0 holds the address of the thread control block.
    unsafe { asm!("mov {}, fs:0", out(reg) t, options(nostack, readonly, preserves_flags)) };
    t
}

const OUTER: u64 = 0;
const INNER: u64 = 100;
const ENTER: u64 = 0;
const EXIT: u64 = 10;
const M_ALLOC: u64 = 1;
const M_ZEROED: u64 = 2;
const M_REALLOC: u64 = 3;
const M_DEALLOC: u64 = 4;

#[inline(always)]
fn log(code: u64, x: [u64; 4]) {
    if !ON.load(SeqCst) {
        return;
    }
    let i = NEXT.fetch_add(1, SeqCst);
    if i >= CAP {
        DROPPED.fetch_add(1, SeqCst);
        return;
    }
    // Each index is handed out once, so this write is not shared.
    unsafe { std::ptr::addr_of_mut!(RING[i]).write([code, tid(), x[0], x[1], x[2], x[3]]) };
}

struct Layer<A>(u64, A);

unsafe impl<A: GlobalAlloc> GlobalAlloc for Layer<A> {
    unsafe fn alloc(&self, l: Layout) -> *mut u8 {
        log(self.0 + ENTER + M_ALLOC, [0, l.size() as u64, l.align() as u64, 0]);
        let r = self.1.alloc(l);
        log(self.0 + EXIT + M_ALLOC, [r as u64, 0, 0, 0]);
        r
    }
    unsafe fn alloc_zeroed(&self, l: Layout) -> *mut u8 {
        log(self.0 + ENTER + M_ZEROED, [0, l.size() as u64, l.align() as u64, 0]);
        let r = self.1.alloc_zeroed(l);
        log(self.0 + EXIT + M_ZEROED, [r as u64, 0, 0, 0]);
        r
    }
    unsafe fn realloc(&self, p: *mut u8, l: Layout, n: usize) -> *mut u8 {
        log(self.0 + ENTER + M_REALLOC, [p as u64, l.size() as u64, l.align() as u64, n as u64]);
        let r = self.1.realloc(p, l, n);
        log(self.0 + EXIT + M_REALLOC, [r as u64, 0, 0, 0]);
        r
    }
    unsafe fn dealloc(&self, p: *mut u8, l: Layout) {
        log(self.0 + ENTER + M_DEALLOC, [p as u64, l.size() as u64, l.align() as u64, 0]);
        self.1.dealloc(p, l);
        log(self.0 + EXIT + M_DEALLOC, [0, 0, 0, 0]);
    }
}

#[global_allocator]
static GLOBAL: Layer<AllocProfiler<Layer<System>>> = Layer(OUTER, AllocProfiler::new(Layer(INNER, System)));

// ---------------------------------------------------------------------------
// Workload
// ---------------------------------------------------------------------------

struct Dropper(Vec<u64>);
impl Drop for Dropper {
    fn drop(&mut self) {
        // allocate, grow, shrink and free while the thread is shutting down
        let mut v: Vec<u8> = Vec::with_capacity(100);
        v.extend_from_slice(&[1; 100]);
        v.extend_from_slice(&[2; 1000]);
        v.truncate(10);
        v.shrink_to_fit();
        let z = vec![0u8; 257];
        let s = format!("{}-{}", v.len(), z.len());
        self.0.push(s.len() as u64);
        std::hint::black_box(&self.0);
    }
}

thread_local! {
    static D1: Dropper = Dropper(Vec::new());
    static D2: std::cell::RefCell<Dropper> = std::cell::RefCell::new(Dropper(vec![1, 2, 3]));
}

struct Rng(u64);
impl Rng {
    fn next(&mut self) -> u64 {
        self.0 = self.0.wrapping_add(0x9E3779B97F4A7C15);
        let mut z = self.0;
        z = (z ^ (z >> 30)).wrapping_mul(0xBF58476D1CE4E5B9);
        z = (z ^ (z >> 27)).wrapping_mul(0x94D049BB133111EB);
        z ^ (z >> 31)
    }
}

/// What one worker found when comparing its tally with the Outer log.
#[derive(Debug)]
struct Window {
    tid: u64,
    start: usize,
    end: usize,
    info: Option<v::PlainAllocInfo>,
}

fn work(seed: u64, touch_tls: bool) -> Window {
    let mut rng = Rng(seed);
    if touch_tls {
        D1.with(|d| std::hint::black_box(d.0.len()));
        D2.with(|d| d.borrow_mut().0.push(7));
    }
    v::thread_alloc_clear();
    let start = NEXT.load(SeqCst);
    {
        let mut keep: Vec<Vec<u8>> = Vec::new();
        let n = 20 + rng.next() % 200;
        for _ in 0..n {
            match rng.next() % 6 {
                0 => keep.push(Vec::with_capacity((rng.next() % 5000) as usize)),
                1 => keep.push(vec![0u8; (rng.next() % 70000) as usize]),
                2 => {
                    if let Some(v) = keep.last_mut() {
                        v.extend(std::iter::repeat(3u8).take((rng.next() % 3000) as usize));
                    }
                }
                3 => {
                    if let Some(v) = keep.last_mut() {
                        v.truncate((rng.next() % 8) as usize);
                        v.shrink_to_fit();
                    }
                }
                4 => {
                    let k = keep.len();
                    if k > 0 {
                        keep.swap_remove((rng.next() as usize) % k);
                    }
                }
                _ => {
                    let b = Box::new([rng.next(); 16]);
                    std::hint::black_box(&b);
                }
            }
        }
        std::hint::black_box(&keep);
    }
    let info = v::thread_alloc_info();
    let end = NEXT.load(SeqCst);
    Window { tid: tid(), start, end, info }
}

// ---------------------------------------------------------------------------
// Analysis (logging is off)
// ---------------------------------------------------------------------------

fn name(code: u64) -> String {
    let layer = if code >= INNER { "inner" } else { "outer" };
    let c = code % 100;
    let phase = if c >= EXIT { "exit" } else { "enter" };
    let m = match c % 10 { 1 => "alloc", 2 => "alloc_zeroed", 3 => "realloc", 4 => "dealloc", _ => "?" };
    format!("{layer}-{phase}-{m}")
}

fn analyse(n: usize, windows: &[Window]) -> Result<(usize, usize), String> {
    let ring: &[Ev] = unsafe { std::slice::from_raw_parts(std::ptr::addr_of!(RING) as *const Ev, n) };
    let mut per: HashMap<u64, Vec<usize>> = HashMap::new();
    for (i, e) in ring.iter().enumerate() {
        per.entry(e[1]).or_default().push(i);
    }
    let mut groups = 0usize;
    for (_, idx) in per.iter() {
        if idx.len() % 4 != 0 {
            return Err(format!("a thread has {} events, not a multiple of 4 (first {})", idx.len(), name(ring[idx[0]][0])));
        }
        for g in idx.chunks(4) {
            let (oe, ie, ix, ox) = (ring[g[0]], ring[g[1]], ring[g[2]], ring[g[3]]);
            let m = oe[0] % 10;
            let want = [OUTER + ENTER + m, INNER + ENTER + m, INNER + EXIT + m, OUTER + EXIT + m];
            let got = [oe[0], ie[0], ix[0], ox[0]];
            if oe[0] >= EXIT || got != want {
                return Err(format!(
                    "event order {} {} {} {} (expected outer-enter inner-enter inner-exit outer-exit of one method)",
                    name(got[0]), name(got[1]), name(got[2]), name(got[3])
                ));
            }
            if oe[2..6] != ie[2..6] {
                return Err(format!(
                    "{}: arguments differ: outer (size {}, align {}, new_size {}) inner (size {}, align {}, new_size {}){}",
                    name(oe[0]), oe[3], oe[4], oe[5], ie[3], ie[4], ie[5],
                    if oe[2] != ie[2] { " and pointer" } else { "" }
                ));
            }
            if ix[2] != ox[2] {
                return Err(format!("{}: returned value differs from the inner allocator's", name(oe[0])));
            }
            groups += 1;
        }
    }
    // Each worker's tally against the Outer events of its thread in its window.
    for w in windows {
        let Some(info) = &w.info else { return Err("a worker had no ThreadAllocInfo".into()) };
        let mut t = [(0u64, 0u64); 4]; // grow, shrink, alloc, dealloc
        let (mut cc, mut mc, mut cs, mut ms) = (0i64, 0i64, 0i64, 0i64);
        for e in &ring[w.start.min(n)..w.end.min(n)] {
            if e[1] != w.tid || e[0] >= EXIT {
                continue;
            }
            match e[0] {
                M_ALLOC | M_ZEROED => {
                    t[2].0 += 1;
                    t[2].1 += e[3];
                    cc += 1;
                    mc = mc.max(cc);
                    cs += e[3] as i64;
                    ms = ms.max(cs);
                }
                M_DEALLOC => {
                    t[3].0 += 1;
                    t[3].1 += e[3];
                    cc -= 1;
                    cs -= e[3] as i64;
                }
                M_REALLOC => {
                    let (old, new) = (e[3], e[5]);
                    if new < old {
                        t[1].0 += 1;
                        t[1].1 += old - new;
                    } else {
                        t[0].0 += 1;
                        t[0].1 += new - old;
                    }
                    cs += new as i64 - old as i64;
                    ms = ms.max(cs);
                }
                _ => {}
            }
        }
        let want = v::PlainAllocInfo { tallies: t, current_count: cc, max_count: mc, current_size: cs, max_size: ms };
        if &want != info {
            return Err(format!("a worker's tally {:?} differs from what the outer layer saw {:?}", info, want));
        }
    }
    Ok((groups, per.len()))
}

fn main() {
    let args: Vec<String> = std::env::args().collect();
    let threads: usize = args.get(1).and_then(|s| s.parse().ok()).unwrap_or(4);
    let rounds: usize = args.get(2).and_then(|s| s.parse().ok()).unwrap_or(10);
    let seed: u64 = args.get(3).and_then(|s| s.parse().ok()).unwrap_or(1);
    std::panic::set_hook(Box::new(|_| {}));

    let mut windows = Vec::new();
    windows.push(work(seed, true)); // the main thread too
    for r in 0..rounds {
        let hs: Vec<_> = (0..threads)
            .map(|t| {
                let s = seed ^ ((r as u64) << 32) ^ ((t as u64) << 16);
                std::thread::spawn(move || {
                    let w = work(s, (r + t) % 3 != 0);
                    if (r + t) % 5 == 4 {
                        // leave by unwinding
                        std::panic::resume_unwind(Box::new(w));
                    }
                    w
                })
            })
            .collect();
        for h in hs {
            match h.join() {
                Ok(w) => windows.push(w),
                Err(e) => {
                    if let Ok(w) = e.downcast::<Window>() {
                        windows.push(*w)
                    }
                }
            }
        }
    }
    ON.store(false, SeqCst);
    let n = NEXT.load(SeqCst).min(CAP);
    let dropped = DROPPED.load(SeqCst);
    let verdict = if dropped > 0 {
        Err(format!("ring overflow: {dropped} events dropped"))
    } else {
        analyse(n, &windows)
    };
    match verdict {
        Ok((groups, tids)) => {
            eprintln!("stats calls={} thread_ids={} windows={} events={}", groups, tids, windows.len(), n);
            println!("equal");
        }
        Err(m) => println!("mismatch {m}"),
    }
    // Tear-down: threads that are still allocating (and have TLS destructors
    // pending) while the process exits.
    for t in 0..3u64 {
        std::thread::spawn(move || {
            D1.with(|d| std::hint::black_box(d.0.len()));
            let mut rng = Rng(seed ^ t);
            loop {
                let v: Vec<u8> = Vec::with_capacity((rng.next() % 4096) as usize);
                std::hint::black_box(&v);
            }
        });
    }
    std::thread::sleep(std::time::Duration::from_millis(5));
}
