//! Real benchmark binary of group `stats` (C05), run by `hx-stats e2e` as a subprocess through
//! `Divan::from_args().main()` (the `run_bench_entry` path: one row per thread count) with the TSC
//! timer on the virtual clock (1 tick = 1 ps, one tick per clock read), timer precision 1 ns and
//! zero measured overheads, `AllocProfiler` installed.
//!
//! The one benchmark `job` is entered once per thread count ("run" r = 0, 1, ..).  Call number
//! `o` (per thread, per run) of thread `t` in run `r` advances the thread's clock by
//! `ticks(seed, r, t, o)`; a sample of `s` calls therefore lasts `1 + sum of its calls' ticks`
//! picoseconds, known to the caller from the configuration alone; so are the allocator operations
//! of every call (`HX_ALLOC`, see `alloc_op`).  `HX_COUNTER=1`: inputs come
//! from a generator and a per-input `ItemsCount` of `items(seed, r, t, o)` is attached.
use std::cell::Cell;
use std::sync::atomic::{AtomicU64, Ordering};

use divan::__verif as v;
use divan::Bencher;

#[global_allocator]
static ALLOC: divan::AllocProfiler = divan::AllocProfiler::system();

static RUN: AtomicU64 = AtomicU64::new(0);

thread_local! {
    /// (run the ordinal belongs to + 1, next call ordinal of this thread in that run)
    static ORD: Cell<(u64, u64)> = const { Cell::new((0, 0)) };
    static GEN_ORD: Cell<(u64, u64)> = const { Cell::new((0, 0)) };
}

fn next_ord(cell: &'static std::thread::LocalKey<Cell<(u64, u64)>>, run: u64) -> u64 {
    cell.with(|c| {
        let (r, o) = c.get();
        let o = if r == run + 1 { o } else { 0 };
        c.set((run + 1, o + 1));
        o
    })
}

pub fn mix(seed: u64, r: u64, t: u64, o: u64) -> u64 {
    let mut z = seed
        .wrapping_mul(0x9E3779B97F4A7C15)
        .wrapping_add(r.wrapping_mul(0xBF58476D1CE4E5B9))
        .wrapping_add(t.wrapping_mul(0x94D049BB133111EB))
        .wrapping_add(o.wrapping_mul(0xD6E8FEB86659FD93));
    z ^= z >> 29;
    z = z.wrapping_mul(0xBF58476D1CE4E5B9);
    z ^ (z >> 32)
}

/// Clock ticks (= picoseconds) of one call.
pub fn ticks(seed: u64, r: u64, t: u64, o: u64) -> u64 {
    // a few distinct values so that ties occur; run 0 is slower than the later runs on average,
    // so that statistics over a mixture of runs differ from those of one run
    let base = if r == 0 { 40_000 } else { 3_000 };
    base + 1_000 * (mix(seed, r, t, o) % 7)
}

/// Per-input item count of call (r, t, o) under `HX_COUNTER`: `1` independent of the call's time,
/// `2` anti-correlated with it (the faster the call, the larger the count), `3` correlated.
pub fn items(cmode: char, seed: u64, r: u64, t: u64, o: u64) -> u64 {
    let class = mix(seed, r, t, o) % 7;
    let noise = mix(seed ^ 0x5555, r, t, o);
    match cmode {
        '2' => 10 * (7 - class) + noise % 5,
        '3' => 10 * (1 + class) + noise % 5,
        _ => 1 + noise % 50,
    }
}

/// What call (r, t, o) does with the allocator under `HX_ALLOC`: `None` nothing, `Some(op)` with
/// op 0 = alloc 64 + free, 1 = alloc 64, grow to 128, free, 2 = alloc 64, shrink to 32, free.
/// `0` never; `a` always; `i` only the calls of the middle time classes (so that, typically, neither
/// the fastest nor the slowest sample allocates but interior ones do); `x` only the extreme classes;
/// `r` independently of the time.
pub fn alloc_op(mode: char, seed: u64, r: u64, t: u64, o: u64) -> Option<u64> {
    let class = mix(seed, r, t, o) % 7;
    let yes = match mode {
        'a' => true,
        'i' => (2..=4).contains(&class),
        'x' => class == 0 || class == 6,
        'r' => mix(seed ^ 0xA110C, r, t, o) % 3 == 0,
        _ => false,
    };
    if yes {
        Some((mix(seed ^ 0x0905, r, t, o) >> 8) % 3)
    } else {
        None
    }
}

fn do_alloc(op: u64) {
    unsafe {
        let l64 = std::alloc::Layout::from_size_align(64, 1).unwrap();
        let mut p = std::alloc::alloc(l64);
        assert!(!p.is_null());
        p = divan::black_box(p);
        match op {
            1 => {
                p = std::alloc::realloc(p, l64, 128);
                std::alloc::dealloc(divan::black_box(p), std::alloc::Layout::from_size_align(128, 1).unwrap());
            }
            2 => {
                p = std::alloc::realloc(p, l64, 32);
                std::alloc::dealloc(divan::black_box(p), std::alloc::Layout::from_size_align(32, 1).unwrap());
            }
            _ => std::alloc::dealloc(p, l64),
        }
    }
}

#[divan::bench]
fn job(b: Bencher) {
    let amode: char = std::env::var("HX_ALLOC").ok().and_then(|s| s.chars().next()).unwrap_or('0');
    let seed: u64 = std::env::var("HX_SEED").ok().and_then(|s| s.parse().ok()).unwrap_or(0);
    let cmode: char = std::env::var("HX_COUNTER").ok().and_then(|s| s.chars().next()).unwrap_or('0');
    let counter = cmode != '0';
    let run = RUN.fetch_add(1, Ordering::SeqCst);
    let work = move || {
        let t = v::thread_index() as u64;
        let o = next_ord(&ORD, run);
        v::vclock_advance(ticks(seed, run, t, o));
        if let Some(op) = alloc_op(amode, seed, run, t, o) {
            do_alloc(op);
        }
    };
    if counter {
        b.with_inputs(move || {
            let t = v::thread_index() as u64;
            let o = next_ord(&GEN_ORD, run);
            items(cmode, seed, run, t, o)
        })
        .input_counter(|n: &u64| divan::counter::ItemsCount::new(*n))
        .bench_values(move |n| {
            work();
            n
        })
    } else {
        b.bench(work)
    }
}

fn main() {
    v::set_precision_override(Some(1000));
    v::set_overhead_override(Some([0; 4]));
    v::vclock_set(0);
    v::vclock_enable(1_000_000_000_000, 1);
    divan::Divan::from_args().main();
}
