//! Harness driving the real crate (built from /repo's working tree with
//! `--cfg divan_verif`): one mode per stream of the correspondence check.
//!
//! Modes `stats` / `stats_rel` (same behaviour; the name tells the model driver
//! whether the build has overflow checks): one case per line
//!
//!     <sample_size> <d0,d1,..|-> <alloc entries|-> <k0>|<k1>|<k2>|<k3> <uuuu>
//!
//! alloc entry = `idx:max_count:max_size:gc:gs:sc:ss:ac:as:dc:ds` joined by `;`
//! (tallies in the order grow, shrink, alloc, dealloc), `k_i` = comma list of
//! counter values of kind i (may be empty), `uuuu` = uses_input_counts bits.
//!
//! Output: `ok sc=.. ic=.. t=f,s,m,mean mac=.. mas=.. g=c;s s=.. a=.. d=.. c=k0|k1|k2|k3`
//! with every f64 printed exactly as `<mantissa>:<exp2>` (value = m * 2^e),
//! `inf`, `-inf` or `nan`.
//!
//! Mode `run`: `<sample_count> <sample_size|t> <threads> <opt/pre/inp/post counter kinds> <alloc behaviour> <seed> [<shape>]`: a real `Bencher`
//! run (OS timer; this binary installs `AllocProfiler` as the global allocator so that
//! allocation info is recorded per sample), then `compute_stats` on what the run left
//! behind.  Prints `IN <the recorded samples as a stats case> EXP <counts of the inputs each
//! sample was given> TAL <allocator tally rows of each sample's timed section> OUT <stats line>`: the model is driven by the recording.
//!
//! Mode `e2e`: the real `Divan::main` path over several thread counts under the virtual clock (see `e2e`).
//!
//! Mode `periter`: `<sample_size> <c0,c1,..>`: runs a real `Bencher` with
//! `with_inputs` + `input_counter` over the given per-input counts (one sample)
//! and prints the counter value stored for that sample.
use divan::__verif as v;

#[global_allocator]
static ALLOC: divan::AllocProfiler = divan::AllocProfiler::system();

fn f64_exact(x: f64) -> String {
    if x.is_nan() {
        return "nan".into();
    }
    if x.is_infinite() {
        return if x > 0.0 { "inf".into() } else { "-inf".into() };
    }
    let bits = x.to_bits();
    let neg = bits >> 63 == 1;
    let ex = ((bits >> 52) & 0x7ff) as i64;
    let frac = bits & ((1u64 << 52) - 1);
    let (mut m, mut e) = if ex == 0 { (frac, -1074i64) } else { (frac | (1u64 << 52), ex - 1075) };
    if m == 0 {
        return if neg { "-0:0".into() } else { "0:0".into() };
    }
    while m & 1 == 0 {
        m >>= 1;
        e += 1;
    }
    format!("{}{}:{}", if neg { "-" } else { "" }, m, e)
}

fn set_f64(s: &v::PlainStatsSet<f64>) -> String {
    format!("{},{},{},{}", f64_exact(s.fastest), f64_exact(s.slowest), f64_exact(s.median), f64_exact(s.mean))
}

fn parse_list<T: std::str::FromStr>(s: &str) -> Vec<T>
where
    T::Err: std::fmt::Debug,
{
    if s.is_empty() || s == "-" {
        Vec::new()
    } else {
        s.split(',').map(|x| x.parse::<T>().expect("number")).collect()
    }
}

fn stats_line(st: &v::PlainStats) -> String {
    let mut out = format!(
        "ok sc={} ic={} t={},{},{},{} mac={} mas={}",
        st.sample_count,
        st.iter_count,
        st.time.fastest,
        st.time.slowest,
        st.time.median,
        st.time.mean,
        set_f64(&st.max_alloc_count),
        set_f64(&st.max_alloc_size)
    );
    for (i, name) in ["g", "s", "a", "d"].iter().enumerate() {
        out.push_str(&format!(" {}={};{}", name, set_f64(&st.alloc_tallies[i].0), set_f64(&st.alloc_tallies[i].1)));
    }
    let cs: Vec<String> = st
        .counts
        .iter()
        .map(|c| match c {
            None => "none".to_string(),
            Some(s) => format!("{},{},{},{}", s.fastest, s.slowest, s.median, s.mean),
        })
        .collect();
    out.push_str(&format!(" c={}", cs.join("|")));
    out
}

fn join<T: ToString>(v: &[T]) -> String {
    v.iter().map(|x| x.to_string()).collect::<Vec<_>>().join(",")
}

/// A raw heap block obtained from the global allocator (= `AllocProfiler`), so that the
/// allocator operations of a timed section are exactly known.
struct Buf {
    ptr: *mut u8,
    size: usize,
}
unsafe impl Send for Buf {}
unsafe impl Sync for Buf {}
impl Buf {
    fn new(size: usize) -> Buf {
        let ptr = unsafe { std::alloc::alloc(std::alloc::Layout::from_size_align(size, 1).unwrap()) };
        assert!(!ptr.is_null());
        Buf { ptr, size }
    }
    fn resize(&mut self, new_size: usize) {
        let ptr = unsafe {
            std::alloc::realloc(self.ptr, std::alloc::Layout::from_size_align(self.size, 1).unwrap(), new_size)
        };
        assert!(!ptr.is_null());
        self.ptr = ptr;
        self.size = new_size;
    }
}
impl Drop for Buf {
    fn drop(&mut self) {
        unsafe { std::alloc::dealloc(self.ptr, std::alloc::Layout::from_size_align(self.size, 1).unwrap()) }
    }
}

/// Input of the benchmarked function: the value `n` (what the input counters count) and, for
/// the behaviours that release or resize memory acquired outside the timed section, a block
/// allocated by the generator.
struct In {
    n: usize,
    buf: Option<Buf>,
}

/// What the benchmarked function does with the allocator for input value `n` under `mode`:
/// `0` nothing, `a` alloc+free, `o` alloc only (freed with the output, after the timed section),
/// `f` free only (block from the generator), `s` shrink only, `g` grow only, `m` one of these per
/// input, chosen by `n % 6`; `l` (handled in `run`): alloc+free in the first 1..3 calls of the run only.
fn behaviour(mode: char, n: usize) -> char {
    match mode {
        '1' => 'a',
        'm' => ['0', 'a', 'o', 'f', 's', 'g'][n % 6],
        c => c,
    }
}
fn block_size(n: usize) -> usize {
    8 * n + 16
}
/// Tally rows `[grow, shrink, alloc, dealloc]` x `(count, size)` of one call.
fn rows_of(mode: char, n: usize) -> [u64; 8] {
    let z = block_size(n) as u64;
    match behaviour(mode, n) {
        'a' => [0, 0, 0, 0, 1, z, 1, z],
        'o' => [0, 0, 0, 0, 1, z, 0, 0],
        'f' => [0, 0, 0, 0, 0, 0, 1, z],
        's' => [0, 0, 1, z - z / 2, 0, 0, 0, 0],
        'g' => [1, z, 0, 0, 0, 0, 0, 0],
        _ => [0; 8],
    }
}

/// Zero-sized input (shapes `z*`): what the input counters report for it comes from the ordinal of the
/// counter call, not from the value.
struct Tok;
/// Zero-sized output with drop glue.
struct DropTok;
impl Drop for DropTok {
    fn drop(&mut self) {
        std::hint::black_box(());
    }
}
static ZORD: [std::sync::atomic::AtomicU64; 4] = [
    std::sync::atomic::AtomicU64::new(0),
    std::sync::atomic::AtomicU64::new(0),
    std::sync::atomic::AtomicU64::new(0),
    std::sync::atomic::AtomicU64::new(0),
];
static ZSEED: std::sync::atomic::AtomicU64 = std::sync::atomic::AtomicU64::new(0);
static ZUNIFORM: std::sync::atomic::AtomicBool = std::sync::atomic::AtomicBool::new(false);
/// Count reported for the next zero-sized input under kind `k`: that of input value
/// `input_value(seed + ordinal)` (or of `input_value(seed)` for every input when `uniform`).
fn zcount(k: usize) -> u64 {
    use std::sync::atomic::Ordering::SeqCst;
    let o = ZORD[k].fetch_add(1, SeqCst);
    let seed = ZSEED.load(SeqCst);
    let v = if ZUNIFORM.load(SeqCst) { input_value(seed) } else { input_value(seed + o) };
    v as u64 * MULT[k]
}

const KINDS: [char; 4] = ['b', 'c', 'y', 'i'];
/// Count of an input value `n` for kind index `k` (what the `input_counter` closures return).
const MULT: [u64; 4] = [1, 2, 5, 3];

fn input_value(i: u64) -> usize {
    (i.wrapping_mul(0x9E3779B97F4A7C15) >> 56) as usize + 1
}

fn kinds_of(spec: &str) -> Vec<usize> {
    spec.chars().filter(|c| *c != '-').map(|c| KINDS.iter().position(|k| *k == c).expect("kind")).collect()
}

/// A real run; see the module documentation.  `spec` = `opt/pre/inp/post`, each a set of kind
/// letters (b bytes, c chars, y cycles, i items) or `-`: constant counters given through the
/// options, constant counters set with `Bencher::counter` before `with_inputs`, per-input
/// counters (`input_counter`), constant counters set with `Bencher::counter` after `input_counter`;
/// an optional fifth part: kinds attached with `count_inputs_as::<K>()` instead of `input_counter`.
fn run(line: &str) -> String {
    use divan::counter::{BytesCount, CharsCount, CyclesCount, ItemsCount};
    use std::sync::atomic::{AtomicU64, Ordering};
    let t = hxlib::toks(line);
    assert!(t.len() == 6 || t.len() == 7, "run: 6 or 7 tokens");
    // optional 7th token: the shape of input and output.  `-`: sized input (default);
    // `zu` / `zn` / `zd` / `zs`: zero-sized input with output `()` / `u64` / zero-sized with drop glue / `String`
    let shape: &str = if t.len() == 7 { t[6] } else { "-" };
    let zst = shape.starts_with('z');
    let sample_count: u32 = t[0].parse().unwrap();
    let sample_size: Option<u32> = if t[1] == "t" { None } else { Some(t[1].parse().unwrap()) };
    let threads: usize = t[2].parse().unwrap();
    let spec: Vec<&str> = t[3].split('/').collect();
    assert!(spec.len() == 4 || spec.len() == 5);
    let (opt, pre, inp, post) = (kinds_of(spec[0]), kinds_of(spec[1]), kinds_of(spec[2]), kinds_of(spec[3]));
    // optional 5th part: kinds attached with `count_inputs_as::<K>()` (the input is then the plain value `n`)
    let cia = if spec.len() == 5 { kinds_of(spec[4]) } else { Vec::new() };
    if !cia.is_empty() {
        assert!(inp.is_empty(), "count_inputs_as: no input_counter closures");
    }
    let mode: char = t[4].chars().next().unwrap();
    let seed: u64 = t[5].parse().unwrap();
    let konst = |base: u32, k: usize| -> u32 { base + 7 * k as u32 + (seed % 5) as u32 };

    let mut options = divan::__private::BenchOptions::default();
    options.sample_count = Some(sample_count);
    options.sample_size = sample_size;
    if sample_size.is_none() {
        options.max_time = Some(std::time::Duration::from_millis(200));
    }
    for &k in &opt {
        match k {
            0 => options.counters.insert(BytesCount::new(konst(1000, k))),
            1 => options.counters.insert(CharsCount::new(konst(1000, k))),
            2 => options.counters.insert(CyclesCount::new(konst(1000, k))),
            _ => options.counters.insert(ItemsCount::new(konst(1000, k))),
        };
    }
    let cfg = v::RunConfig { options: &options, threads, is_test: false, tsc_frequency: None, compute_stats: true };
    // Which inputs a sample gets is only known for one thread and an explicit sample size;
    // otherwise every input is the same value.
    let uniform = threads > 1 || sample_size.is_none();
    let next = AtomicU64::new(seed);
    let gen = || {
        let n = if uniform { input_value(seed) } else { input_value(next.fetch_add(1, Ordering::Relaxed)) };
        let buf = match behaviour(mode, n) {
            'f' | 's' | 'g' => Some(Buf::new(block_size(n))),
            _ => None,
        };
        In { n, buf }
    };
    // The output is dropped after the timed section.
    // `l` (lazy initialisation): only the first `lazy_k` calls of the whole run allocate (and free).
    let lazy_k = 1 + seed % 3;
    let calls = AtomicU64::new(0);
    let calls_ref = &calls;
    let work = move |mut input: In| -> (usize, Option<Buf>) {
        let n = input.n;
        let call = calls_ref.fetch_add(1, Ordering::Relaxed);
        if mode == 'l' {
            if call < lazy_k {
                drop(divan::black_box(Buf::new(block_size(n))));
            }
            return (n, None);
        }
        match behaviour(mode, n) {
            'a' => {
                drop(divan::black_box(Buf::new(block_size(n))));
                (n, None)
            }
            'o' => (n, Some(Buf::new(block_size(n)))),
            'f' => {
                drop(input.buf.take());
                (n, None)
            }
            's' => {
                let mut b = input.buf.take().unwrap();
                b.resize(block_size(n) / 2);
                (n, Some(b))
            }
            'g' => {
                let mut b = input.buf.take().unwrap();
                b.resize(2 * block_size(n));
                (n, Some(b))
            }
            _ => (n, None),
        }
    };
    if zst {
        assert!(cia.is_empty() && "0a1l".contains(mode), "zero-sized input: no value to count or to carry a block");
        for z in &ZORD {
            z.store(0, Ordering::SeqCst);
        }
        ZSEED.store(seed, Ordering::SeqCst);
        ZUNIFORM.store(uniform, Ordering::SeqCst);
    }
    let dump = v::run_bencher(&cfg, &|b: divan::Bencher| {
        let mut b = b;
        for &k in &pre {
            b = match k {
                0 => b.counter(BytesCount::new(konst(2000, k))),
                1 => b.counter(CharsCount::new(konst(2000, k))),
                2 => b.counter(CyclesCount::new(konst(2000, k))),
                _ => b.counter(ItemsCount::new(konst(2000, k))),
            };
        }
        if zst {
            let mut b = b.with_inputs(|| Tok);
            for &k in &inp {
                b = match k {
                    0 => b.input_counter(|_: &Tok| BytesCount::new(zcount(0))),
                    1 => b.input_counter(|_: &Tok| CharsCount::new(zcount(1))),
                    2 => b.input_counter(|_: &Tok| CyclesCount::new(zcount(2))),
                    _ => b.input_counter(|_: &Tok| ItemsCount::new(zcount(3))),
                };
            }
            for &k in &post {
                b = match k {
                    0 => b.counter(BytesCount::new(konst(3000, k))),
                    1 => b.counter(CharsCount::new(konst(3000, k))),
                    2 => b.counter(CyclesCount::new(konst(3000, k))),
                    _ => b.counter(ItemsCount::new(konst(3000, k))),
                };
            }
            // the allocator behaviour of a call (block size as for input value 1)
            let side = move || {
                let _ = work(In { n: 1, buf: None });
            };
            return match shape {
                "zu" => b.bench_values(move |_: Tok| side()),
                "zn" => b.bench_values(move |_: Tok| -> u64 {
                    side();
                    divan::black_box(7)
                }),
                "zd" => b.bench_values(move |_: Tok| -> DropTok {
                    side();
                    DropTok
                }),
                "zs" => b.bench_values(move |_: Tok| -> String {
                    side();
                    String::from(divan::black_box("abc"))
                }),
                other => panic!("unknown shape {other}"),
            };
        }
        if !cia.is_empty() {
            assert!("0a1ol".contains(mode), "count_inputs_as: the input is a plain number");
            let mut b = b.with_inputs(|| gen().n);
            for &k in &cia {
                b = match k {
                    0 => b.count_inputs_as::<BytesCount>(),
                    1 => b.count_inputs_as::<CharsCount>(),
                    2 => b.count_inputs_as::<CyclesCount>(),
                    _ => b.count_inputs_as::<ItemsCount>(),
                };
            }
            for &k in &post {
                b = match k {
                    0 => b.counter(BytesCount::new(konst(3000, k))),
                    1 => b.counter(CharsCount::new(konst(3000, k))),
                    2 => b.counter(CyclesCount::new(konst(3000, k))),
                    _ => b.counter(ItemsCount::new(konst(3000, k))),
                };
            }
            return b.bench_values(move |n: usize| work(In { n, buf: None }));
        }
        let mut b = b.with_inputs(gen);
        for &k in &inp {
            b = match k {
                0 => b.input_counter(|x: &In| BytesCount::new(x.n as u64 * MULT[0])),
                1 => b.input_counter(|x: &In| CharsCount::new(x.n as u64 * MULT[1])),
                2 => b.input_counter(|x: &In| CyclesCount::new(x.n as u64 * MULT[2])),
                _ => b.input_counter(|x: &In| ItemsCount::new(x.n as u64 * MULT[3])),
            };
        }
        for &k in &post {
            b = match k {
                0 => b.counter(BytesCount::new(konst(3000, k))),
                1 => b.counter(CharsCount::new(konst(3000, k))),
                2 => b.counter(CyclesCount::new(konst(3000, k))),
                _ => b.counter(ItemsCount::new(konst(3000, k))),
            };
        }
        b.bench_values(work)
    });
    let d = if dump.durations.is_empty() { "-".to_string() } else { join(&dump.durations) };
    let a = if dump.alloc_infos.is_empty() {
        "-".to_string()
    } else {
        dump.alloc_infos
            .iter()
            .map(|(i, info)| {
                let t = &info.tallies;
                format!(
                    "{}:{}:{}:{}:{}:{}:{}:{}:{}:{}:{}",
                    i, info.max_count, info.max_size, t[0].0, t[0].1, t[1].0, t[1].1, t[2].0, t[2].1, t[3].0, t[3].1
                )
            })
            .collect::<Vec<_>>()
            .join(";")
    };
    let c = dump.counts.iter().map(|k| join(k)).collect::<Vec<_>>().join("|");
    let u: String = dump.uses_input_counts.iter().map(|&b| if b { '1' } else { '0' }).collect();
    // What the run must have stored per kind: `=c` a constant counter c had the last word, `!` no counter,
    // otherwise (input counter) the counts of the inputs each recorded sample was given: `-` no samples, else
    // samples joined by `;`, a sample = comma list of counts, `v^k` = k inputs of count v.
    let n = dump.durations.len() as u64;
    let s = dump.sample_size as u64;
    // count of an input value under kind k: `count_inputs_as` counts the value itself
    let mult = |k: usize| -> u64 { if cia.contains(&k) { 1 } else { MULT[k] } };
    let exp: Vec<String> = (0..4)
        .map(|k| {
            if post.contains(&k) {
                // a constant set after the input counter replaces it
                format!("={}", konst(3000, k))
            } else if !inp.contains(&k) && !cia.contains(&k) {
                if pre.contains(&k) {
                    format!("={}", konst(2000, k))
                } else if opt.contains(&k) {
                    format!("={}", konst(1000, k))
                } else {
                    "!".to_string()
                }
            } else if n == 0 {
                "-".to_string()
            } else {
                (0..n)
                    .map(|j| {
                        if uniform {
                            format!("{}^{}", input_value(seed) as u64 * mult(k), s)
                        } else {
                            (0..s)
                                .map(|t| (input_value(seed + j * s + t) as u64 * mult(k)).to_string())
                                .collect::<Vec<_>>()
                                .join(",")
                        }
                    })
                    .collect::<Vec<_>>()
                    .join(";")
            }
        })
        .collect();
    // The tally rows each recorded sample's timed section must have produced (sum over its inputs).
    let total_calls = calls.load(Ordering::Relaxed);
    if mode == 'l' {
        assert!(threads == 1, "lazy mode: one thread");
        assert!(total_calls >= n * s);
    }
    let tal = if n == 0 {
        "-".to_string()
    } else {
        (0..n)
            .map(|j| {
                let mut rows = [0u64; 8];
                for t in 0..s {
                    let v = if zst {
                        1
                    } else if uniform {
                        input_value(seed)
                    } else {
                        input_value(seed + j * s + t)
                    };
                    if shape == "zs" {
                        // the returned `String` ("abc") is allocated in the timed section, freed after it
                        rows[4] += 1;
                        rows[5] += 3;
                    }
                    let r = if mode == 'l' {
                        // one thread: the recorded samples are the last n*s calls of the run
                        let call = total_calls - (n - j) * s + t;
                        if call < lazy_k { rows_of('a', v) } else { [0; 8] }
                    } else {
                        rows_of(mode, v)
                    };
                    for q in 0..8 {
                        rows[q] += r[q];
                    }
                }
                rows.iter().map(|x| x.to_string()).collect::<Vec<_>>().join(":")
            })
            .collect::<Vec<_>>()
            .join(";")
    };
    let out = match &dump.stats {
        Some(st) => stats_line(st),
        None => format!("nostats did_run={}", dump.did_run),
    };
    format!("IN {} {} {} {} {} EXP {} TAL {} OUT {}", dump.sample_size, d, a, c, u, exp.join("|"), tal, out)
}

fn stats(line: &str) -> String {
    let t = hxlib::toks(line);
    assert!(t.len() == 5, "stats: 5 tokens");
    let sample_size: u32 = t[0].parse().expect("sample size");
    let durations: Vec<u128> = parse_list(t[1]);
    let mut infos: Vec<(u32, v::PlainAllocInfo)> = Vec::new();
    if t[2] != "-" {
        for e in t[2].split(';') {
            let f: Vec<u64> = e.split(':').map(|x| x.parse().expect("alloc field")).collect();
            assert!(f.len() == 11);
            infos.push((
                f[0] as u32,
                v::PlainAllocInfo {
                    tallies: [(f[3], f[4]), (f[5], f[6]), (f[7], f[8]), (f[9], f[10])],
                    current_count: 0,
                    max_count: f[1] as i64,
                    current_size: 0,
                    max_size: f[2] as i64,
                },
            ));
        }
    }
    let ks: Vec<&str> = t[3].split('|').collect();
    assert!(ks.len() == 4);
    let counts: [Vec<u64>; 4] = [parse_list(ks[0]), parse_list(ks[1]), parse_list(ks[2]), parse_list(ks[3])];
    let ub: Vec<bool> = t[4].chars().map(|c| c == '1').collect();
    assert!(ub.len() == 4);
    let uses = [ub[0], ub[1], ub[2], ub[3]];

    let st = v::stats_from_samples(sample_size, &durations, &infos, &counts, uses);

    stats_line(&st)
}

/// One real sample through `Bencher::with_inputs(..).input_counter(..)`: the
/// generator hands out the given counts in order; prints what was stored.
fn periter(line: &str) -> String {
    use std::cell::Cell;
    let t = hxlib::toks(line);
    let sample_size: u32 = t[0].parse().expect("sample size");
    let counts: Vec<u64> = parse_list(t[1]);
    assert!(counts.len() as u64 == sample_size as u64);
    let mut options = divan::__private::BenchOptions::default();
    options.sample_count = Some(1);
    options.sample_size = Some(sample_size);
    let cfg = v::RunConfig { options: &options, threads: 1, is_test: false, tsc_frequency: None, compute_stats: true };
    let next = Cell::new(0usize);
    let dump = v::run_bencher(&cfg, &|b: divan::Bencher| {
        b.with_inputs(|| {
            let i = next.get();
            next.set(i + 1);
            counts[i % counts.len().max(1)]
        })
        .input_counter(|c: &u64| divan::counter::ItemsCount::new(*c))
        .bench_local_values(|c: u64| c)
    });
    let items = &dump.counts[3];
    let stat = match dump.stats.as_ref().and_then(|s| s.counts[3].as_ref()) {
        None => "none".to_string(),
        Some(s) => format!("{},{},{},{}", s.fastest, s.slowest, s.median, s.mean),
    };
    // Canonical: one sample, and the statistics of a single sample all show the stored value.
    if dump.durations.len() == 1 && items.len() == 1 && stat == format!("{0},{0},{0},{0}", items[0]) {
        format!("ok {}", items[0])
    } else {
        format!(
            "odd n={} stored={} stat={}",
            dump.durations.len(),
            items.iter().map(|c| c.to_string()).collect::<Vec<_>>().join(","),
            stat
        )
    }
}

/// Same functions as in src/e2e.rs (the child computes the clock advance of every call from them).
fn e2e_mix(seed: u64, r: u64, t: u64, o: u64) -> u64 {
    let mut z = seed
        .wrapping_mul(0x9E3779B97F4A7C15)
        .wrapping_add(r.wrapping_mul(0xBF58476D1CE4E5B9))
        .wrapping_add(t.wrapping_mul(0x94D049BB133111EB))
        .wrapping_add(o.wrapping_mul(0xD6E8FEB86659FD93));
    z ^= z >> 29;
    z = z.wrapping_mul(0xBF58476D1CE4E5B9);
    z ^ (z >> 32)
}
fn e2e_ticks(seed: u64, r: u64, t: u64, o: u64) -> u64 {
    let base = if r == 0 { 40_000 } else { 3_000 };
    base + 1_000 * (e2e_mix(seed, r, t, o) % 7)
}

/// Same as `alloc_op` in src/e2e.rs.
fn e2e_alloc_op(mode: char, seed: u64, r: u64, t: u64, o: u64) -> Option<u64> {
    let class = e2e_mix(seed, r, t, o) % 7;
    let yes = match mode {
        'a' => true,
        'i' => (2..=4).contains(&class),
        'x' => class == 0 || class == 6,
        'r' => e2e_mix(seed ^ 0xA110C, r, t, o) % 3 == 0,
        _ => false,
    };
    if yes {
        Some((e2e_mix(seed ^ 0x0905, r, t, o) >> 8) % 3)
    } else {
        None
    }
}

/// Same as `items` in src/e2e.rs.
fn e2e_items(cmode: char, seed: u64, r: u64, t: u64, o: u64) -> u64 {
    let class = e2e_mix(seed, r, t, o) % 7;
    let noise = e2e_mix(seed ^ 0x5555, r, t, o);
    match cmode {
        '2' => 10 * (7 - class) + noise % 5,
        '3' => 10 * (1 + class) + noise % 5,
        _ => 1 + noise % 50,
    }
}

/// `<sample_count> <sample_size> <t1,t2,..> <counter 0|1|2|3>[<alloc mode>] <seed>`: runs the real benchmark binary
/// `hx-stats-e2e` through `Divan::main` (one `BenchContext` per thread count) and prints, per
/// thread count, the samples that run recorded (known from the configuration) and the row the
/// table shows: `R <T> IN <s> <durations> <alloc infos> ROW fastest|slowest|median|mean|samples|iters
/// BLOCKS <labels of the allocation blocks printed under the row> TP <throughput rows, cells joined by |> ;; ..`
/// (the inputs in the `stats` case format: the per-sample item counts in the counters field).
fn e2e(line: &str) -> String {
    let t = hxlib::toks(line);
    assert!(t.len() == 5, "e2e: 5 tokens");
    let n: u64 = t[0].parse().unwrap();
    let s: u64 = t[1].parse().unwrap();
    // the runner sorts the requested thread counts and drops duplicates
    let mut threads: Vec<u64> = t[2].split(',').map(|x| x.parse().unwrap()).collect();
    threads.sort();
    threads.dedup();
    let seed: u64 = t[4].parse().unwrap();
    let amode: char = t[3].chars().nth(1).unwrap_or('0');
    let cmode: char = t[3].chars().next().unwrap();
    let exe = std::env::current_exe().expect("exe").with_file_name("hx-stats-e2e");
    let out = std::process::Command::new(exe)
        .args(["--bench", "--sample-count", t[0], "--sample-size", t[1], "--threads", t[2]])
        .args(["--timer", "tsc", "--color", "never"])
        .env("HX_SEED", t[4])
        .env("HX_COUNTER", &t[3][..1])
        .env("HX_ALLOC", amode.to_string())
        .output()
        .expect("spawn hx-stats-e2e");
    if !out.status.success() {
        return format!("crash status={:?}", out.status.code());
    }
    let stdout = String::from_utf8_lossy(&out.stdout);
    // rows: label (`job` or `t=N`), the six cells, and the labels of the allocation blocks printed below the row
    let mut rows: Vec<(String, Vec<String>, Vec<&str>, Vec<Vec<String>>)> = Vec::new();
    for l in stdout.lines() {
        if !l.contains('│') {
            continue;
        }
        // drop the tree glyphs in front (a `│` there is part of the tree, not a column separator)
        let l = l.trim_start_matches(|c: char| c.is_whitespace() || "╰├─│".contains(c));
        let cells: Vec<&str> = l.split('│').collect();
        let first: Vec<&str> = cells[0]
            .split(|c: char| c.is_whitespace() || "╰├─│".contains(c))
            .filter(|x| !x.is_empty())
            .collect();
        if first.is_empty() {
            continue;
        }
        if first[0].ends_with(':') || (first.len() > 1 && first[1].ends_with(':')) {
            let label = match (first[0], first.get(1).copied()) {
                ("max", Some("alloc:")) => "max_alloc",
                ("grow:", _) => "grow",
                ("shrink:", _) => "shrink",
                ("alloc:", _) => "alloc",
                ("dealloc:", _) => "dealloc",
                _ => "other",
            };
            if let Some(last) = rows.last_mut() {
                last.2.push(label);
            }
            continue;
        }
        if !(first[0] == "job" || first[0].starts_with("t=")) {
            // a throughput row (`629 Mitem/s │ ..`) belongs to the run row above it; other lines are the
            // value lines of an allocation block or the header
            if cells[0].contains("/s") || cells[0].contains("Hz") {
                let mut v = vec![first.join("_")];
                v.extend(cells[1..4.min(cells.len())].iter().map(|c| c.trim().replace(' ', "_")));
                if let Some(last) = rows.last_mut() {
                    last.3.push(v);
                }
            }
            continue;
        }
        let label = first[0].to_string();
        let fastest = first[1..].join("_");
        let mut v = vec![fastest];
        v.extend(cells[1..].iter().map(|c| c.trim().replace(' ', "_")));
        rows.push((label, v, Vec::new(), Vec::new()));
    }
    let mut parts = Vec::new();
    for (r, &tc) in threads.iter().enumerate() {
        let rounds = if n == 0 { 0 } else { (n + tc - 1) / tc };
        let mut durs = Vec::new();
        let mut allocs = Vec::new();
        let mut counts = Vec::new();
        for rho in 0..rounds {
            for tau in 0..tc {
                let mut d = 1u64;
                if cmode != '0' {
                    let total: u64 = (rho * s..(rho + 1) * s).map(|o| e2e_items(cmode, seed, r as u64, tau, o)).sum();
                    counts.push((total / s.max(1)).to_string());
                }
                // rows grow, shrink, alloc, dealloc x (count, size); peaks of the sample
                let mut rw = [0u64; 8];
                let (mut max_count, mut max_size) = (0u64, 0u64);
                for o in rho * s..(rho + 1) * s {
                    d += e2e_ticks(seed, r as u64, tau, o);
                    if let Some(op) = e2e_alloc_op(amode, seed, r as u64, tau, o) {
                        max_count = 1;
                        rw[4] += 1;
                        rw[5] += 64;
                        rw[6] += 1;
                        match op {
                            1 => {
                                rw[0] += 1;
                                rw[1] += 64;
                                rw[7] += 128;
                                max_size = max_size.max(128);
                            }
                            2 => {
                                rw[2] += 1;
                                rw[3] += 32;
                                rw[7] += 32;
                                max_size = max_size.max(64);
                            }
                            _ => {
                                rw[7] += 64;
                                max_size = max_size.max(64);
                            }
                        }
                    }
                }
                if rw.iter().any(|x| *x != 0) {
                    allocs.push(format!(
                        "{}:{}:{}:{}",
                        durs.len(),
                        max_count,
                        max_size,
                        rw.iter().map(|x| x.to_string()).collect::<Vec<_>>().join(":")
                    ));
                }
                durs.push(d.to_string());
            }
        }
        let label = if threads.len() > 1 { format!("t={tc}") } else { "job".to_string() };
        let found = rows.iter().find(|(l, c, _, _)| *l == label && c.len() == 6 && !c[0].is_empty());
        let row = found.map(|(_, c, _, _)| c.join("|")).unwrap_or_else(|| "missing".to_string());
        let tp = found
            .map(|(_, _, _, t)| {
                if t.is_empty() { "-".to_string() } else { t.iter().map(|r| r.join("|")).collect::<Vec<_>>().join("+") }
            })
            .unwrap_or_else(|| "missing".to_string());
        let blocks = found
            .map(|(_, _, b, _)| {
                let order = ["max_alloc", "grow", "shrink", "alloc", "dealloc", "other"];
                let mut b: Vec<&str> = b.clone();
                b.sort_by_key(|x| order.iter().position(|y| y == x));
                if b.is_empty() { "-".to_string() } else { b.join(",") }
            })
            .unwrap_or_else(|| "missing".to_string());
        parts.push(format!(
            "R {} IN {} {} {} |||{} {} ROW {} BLOCKS {} TP {}",
            tc,
            s,
            if durs.is_empty() { "-".to_string() } else { durs.join(",") },
            if allocs.is_empty() { "-".to_string() } else { allocs.join(";") },
            counts.join(","),
            if cmode != '0' { "0001" } else { "0000" },
            row,
            blocks,
            tp
        ));
    }
    parts.join(" ;; ")
}

fn dispatch(mode: &str, line: &str) -> String {
    match mode {
        "stats" | "stats_rel" => stats(line),
        "periter" | "periter_rel" => periter(line),
        "run" | "run_rel" => run(line),
        "e2e" | "e2e_rel" => e2e(line),
        _ => panic!("unknown mode {mode}"),
    }
}

fn main() {
    hxlib::run(dispatch);
}
