//! Harness of group `sample` (C01, C02): drives the six `Bencher` entry points of
//! the real crate (built from /repo's working tree with `--cfg divan_verif`) over
//! instrumented input/output types ({ZST, sized} x {Drop, no Drop}) and prints,
//! per thread, the sequence of events seen by the user closures, the destructors
//! and the hooks (clock reads, barrier waits, tally clear/snapshot), plus the
//! allocation figures attributed to each sample.
//!
//! Identifiers: a sized value carries `thread << 32 | ordinal` given at its
//! creation (generator ordinal / call ordinal of the creating thread). A ZST has
//! no identity: its events are numbered by the ordinal of that event kind on the
//! executing thread (a ZST input dropped inside a call is that call's input).

use std::cell::Cell;
use std::mem;
use std::sync::RwLock;

use divan::counter::{BytesCount, CharsCount, CyclesCount, ItemsCount};
use divan::__verif as v;

#[global_allocator]
static ALLOC: divan::AllocProfiler = divan::AllocProfiler::system();

// ---------------------------------------------------------------------------
// Event kinds
// ---------------------------------------------------------------------------

const GEN: u8 = v::ev::USER;
const COUNT: u8 = v::ev::USER + 1;
const CALL: u8 = v::ev::USER + 2;
const DROP_IN: u8 = v::ev::USER + 3;
const DROP_OUT: u8 = v::ev::USER + 4;
const CALL_PANIC: u8 = v::ev::USER + 5;
const GEN_PANIC: u8 = v::ev::USER + 6;

// ---------------------------------------------------------------------------
// Case configuration shared with closures and destructors
// ---------------------------------------------------------------------------

#[derive(Clone, Copy, Debug)]
enum Tok {
    A(usize),
    D,
    G(usize),
    S(usize),
    /// allocate N zero-initialised bytes (`vec![0u8; n]`: `GlobalAlloc::alloc_zeroed`)
    Z(usize),
    /// `GlobalAlloc::realloc` of the top buffer to its own size (raw call: no `Vec` policy in between)
    R,
    /// keep the top buffer for the call that gets this input (no allocator operation)
    K,
    /// take the oldest kept buffer (no allocator operation)
    T,
}

#[derive(Default)]
struct Cfg {
    /// (is_gen, thread, ordinal)
    panic: Option<(bool, u32, u64)>,
    udrop: bool,
    /// Virtual ticks one benchmarked call costs.
    cost: u64,
    /// The call script runs only for calls with per-thread ordinal below this.
    f_limit: Option<u64>,
    /// Watchdog: a thread making more calls than this panics.
    budget: u64,
    g: Vec<Tok>,
    k: Vec<Tok>,
    f: Vec<Tok>,
    o: Vec<Tok>,
    i: Vec<Tok>,
}

static CFG: RwLock<Cfg> = RwLock::new(Cfg {
    panic: None,
    udrop: false,
    cost: 0,
    f_limit: None,
    budget: u64::MAX,
    g: Vec::new(),
    k: Vec::new(),
    f: Vec::new(),
    o: Vec::new(),
    i: Vec::new(),
});

fn with_cfg<R>(f: impl FnOnce(&Cfg) -> R) -> R {
    let g = CFG.read().unwrap_or_else(|e| e.into_inner());
    f(&g)
}

/// Performs the scripted allocator operations: `aN` allocate N bytes (pushed),
/// `d` free the top, `gN` grow the top to N, `sN` shrink the top to N; what is
/// left at the end is leaked (no deallocation).
fn run_script(toks: &[Tok]) {
    if toks.is_empty() {
        return;
    }
    let mut stack: [Option<Vec<u8>>; 8] = [None, None, None, None, None, None, None, None];
    let mut sp = 0usize;
    for t in toks {
        match *t {
            Tok::A(n) => {
                let mut vec = Vec::<u8>::with_capacity(n);
                std::hint::black_box(vec.as_mut_ptr());
                stack[sp] = Some(vec);
                sp += 1;
            }
            Tok::Z(n) => {
                let mut vec = vec![0u8; std::hint::black_box(n)];
                std::hint::black_box(vec.as_mut_ptr());
                vec.clear(); // length 0, capacity n: resized and freed like the others
                stack[sp] = Some(vec);
                sp += 1;
            }
            Tok::D => {
                sp -= 1;
                let vec = stack[sp].take();
                std::hint::black_box(&vec);
                drop(vec);
            }
            Tok::G(n) => {
                let vec = stack[sp - 1].as_mut().unwrap();
                vec.reserve_exact(n);
                std::hint::black_box(vec.as_mut_ptr());
            }
            Tok::S(n) => {
                let vec = stack[sp - 1].as_mut().unwrap();
                vec.shrink_to(n);
                std::hint::black_box(vec.as_mut_ptr());
            }
            Tok::R => {
                let vec = stack[sp - 1].take().unwrap();
                let mut vec = mem::ManuallyDrop::new(vec);
                let cap = vec.capacity();
                let layout = std::alloc::Layout::array::<u8>(cap).unwrap();
                // SAFETY: the block was allocated with this layout by the global allocator.
                let p = unsafe { std::alloc::realloc(vec.as_mut_ptr(), layout, std::hint::black_box(cap)) };
                assert!(!p.is_null());
                std::hint::black_box(p);
                stack[sp - 1] = Some(unsafe { Vec::from_raw_parts(p, 0, cap) });
            }
            Tok::K => {
                sp -= 1;
                let vec = stack[sp].take().unwrap();
                KEPT.with(|q| q.borrow_mut().push_back(vec));
            }
            Tok::T => {
                // popping never allocates; the queue grew in the generator
                let vec = KEPT.with(|q| q.borrow_mut().pop_front()).expect("kept buffer");
                stack[sp] = Some(vec);
                sp += 1;
            }
        }
    }
    for s in stack {
        if let Some(vec) = s {
            mem::forget(vec);
        }
    }
}

fn parse_script(s: &str) -> Vec<Tok> {
    if s == "-" || s.is_empty() {
        return Vec::new();
    }
    s.split(',')
        .map(|t| {
            let (h, n) = t.split_at(1);
            match h {
                "a" => Tok::A(n.parse().expect("a")),
                "d" => Tok::D,
                "g" => Tok::G(n.parse().expect("g")),
                "s" => Tok::S(n.parse().expect("s")),
                "z" => Tok::Z(n.parse().expect("z")),
                "r" => Tok::R,
                "k" => Tok::K,
                "t" => Tok::T,
                _ => panic!("bad script token {t}"),
            }
        })
        .collect()
}

// ---------------------------------------------------------------------------
// Per-thread ordinals
// ---------------------------------------------------------------------------

thread_local! {
    static GEN_ORD: Cell<u64> = const { Cell::new(0) };
    static CALL_ORD: Cell<u64> = const { Cell::new(0) };
    static DROPIN_ORD: Cell<u64> = const { Cell::new(0) };
    static DROPOUT_ORD: Cell<u64> = const { Cell::new(0) };
    static COUNT_ORD: [Cell<u64>; 4] = const { [Cell::new(0), Cell::new(0), Cell::new(0), Cell::new(0)] };
    static IN_CALL: Cell<bool> = const { Cell::new(false) };
    /// Buffers the generator script keeps for the call script (FIFO).
    static KEPT: std::cell::RefCell<std::collections::VecDeque<Vec<u8>>> =
        const { std::cell::RefCell::new(std::collections::VecDeque::new()) };
    /// Identifier of the input of the call in progress.
    static CUR_IN: Cell<u64> = const { Cell::new(0) };
}

fn reset_thread() {
    GEN_ORD.with(|c| c.set(0));
    CALL_ORD.with(|c| c.set(0));
    DROPIN_ORD.with(|c| c.set(0));
    DROPOUT_ORD.with(|c| c.set(0));
    COUNT_ORD.with(|c| c.iter().for_each(|c| c.set(0)));
    IN_CALL.with(|c| c.set(false));
    KEPT.with(|q| q.borrow_mut().clear());
}

fn next(c: &'static std::thread::LocalKey<Cell<u64>>) -> u64 {
    c.with(|c| {
        let x = c.get();
        c.set(x + 1);
        x
    })
}

fn gid(ord: u64) -> u64 {
    ((v::thread_index() as u64) << 32) | ord
}

struct CallGuard;
impl Drop for CallGuard {
    fn drop(&mut self) {
        IN_CALL.with(|c| c.set(false));
    }
}
fn enter_call() -> CallGuard {
    IN_CALL.with(|c| c.set(true));
    CallGuard
}

// ---------------------------------------------------------------------------
// Instrumented types
// ---------------------------------------------------------------------------

trait Val: Sized + 'static {
    fn make(id: u64) -> Self;
    fn carried(&self) -> Option<u64>;
}

fn log_drop_in(carried: Option<u64>) {
    let in_call = IN_CALL.with(|c| c.get());
    // A ZST dropped inside a call is the call's own input (the only ZST input
    // the benchmarked function owns); outside a call it is numbered by ordinal.
    let id = carried.unwrap_or_else(|| if in_call { CUR_IN.with(|c| c.get()) } else { gid(next(&DROPIN_ORD)) });
    v::log_event(DROP_IN, id, in_call as u64);
    with_cfg(|c| run_script(&c.i));
}

fn log_drop_out(carried: Option<u64>) {
    let id = carried.unwrap_or_else(|| gid(next(&DROPOUT_ORD)));
    v::log_event(DROP_OUT, id, IN_CALL.with(|c| c.get()) as u64);
    with_cfg(|c| run_script(&c.o));
}

struct IZN;
struct IZD;
struct ISN(u64);
struct ISD(u64);
struct OZN;
struct OZD;
struct OSN(u64);
struct OSD(u64);

macro_rules! val_zst {
    ($t:ident) => {
        impl Val for $t {
            fn make(_: u64) -> Self {
                $t
            }
            fn carried(&self) -> Option<u64> {
                None
            }
        }
    };
}
macro_rules! val_sized {
    ($t:ident) => {
        impl Val for $t {
            fn make(id: u64) -> Self {
                $t(id)
            }
            fn carried(&self) -> Option<u64> {
                Some(self.0)
            }
        }
    };
}
val_zst!(IZN);
val_zst!(IZD);
val_sized!(ISN);
val_sized!(ISD);
val_zst!(OZN);
val_zst!(OZD);
val_sized!(OSN);
val_sized!(OSD);

impl Drop for IZD {
    fn drop(&mut self) {
        log_drop_in(None)
    }
}
impl Drop for ISD {
    fn drop(&mut self) {
        log_drop_in(Some(self.0))
    }
}
impl Drop for OZD {
    fn drop(&mut self) {
        log_drop_out(None)
    }
}
impl Drop for OSD {
    fn drop(&mut self) {
        log_drop_out(Some(self.0))
    }
}

// ---------------------------------------------------------------------------
// User closures
// ---------------------------------------------------------------------------

fn gen_input<I: Val>() -> I {
    let ord = GEN_ORD.with(|c| c.get());
    let tid = v::thread_index();
    if with_cfg(|c| c.panic == Some((true, tid, ord))) {
        v::log_event(GEN_PANIC, 0, 0);
        panic!("injected generator panic");
    }
    GEN_ORD.with(|c| c.set(ord + 1));
    let id = gid(ord);
    v::log_event(GEN, id, 0);
    with_cfg(|c| run_script(&c.g));
    I::make(id)
}

fn count_input<I: Val>(kind: usize, input: &I) -> u64 {
    let id = input
        .carried()
        .unwrap_or_else(|| gid(COUNT_ORD.with(|c| {
            let x = c[kind].get();
            c[kind].set(x + 1);
            x
        })));
    v::log_event(COUNT, id, kind as u64);
    with_cfg(|c| run_script(&c.k));
    1
}

/// Common part of the benchmarked function; returns the output's id.
fn call_common(carried_in: Option<u64>) -> u64 {
    let ord = CALL_ORD.with(|c| c.get());
    let tid = v::thread_index();
    let in_id = carried_in.unwrap_or_else(|| gid(ord));
    CUR_IN.with(|c| c.set(in_id));
    if with_cfg(|c| c.panic == Some((false, tid, ord))) {
        v::log_event(CALL_PANIC, in_id, 0);
        panic!("injected call panic");
    }
    let (cost, budget) = with_cfg(|c| (c.cost, c.budget));
    if ord >= budget {
        panic!("call budget exhausted");
    }
    CALL_ORD.with(|c| c.set(ord + 1));
    let out_id = gid(ord);
    v::log_event(CALL, in_id, out_id);
    with_cfg(|c| {
        if c.f_limit.map_or(true, |l| ord < l) {
            run_script(&c.f)
        }
    });
    v::vclock_advance(cost);
    out_id
}

fn call_value<I: Val, O: Val>(input: I) -> O {
    let _g = enter_call();
    let input = input; // dropped before `_g` when unwinding
    let out_id = call_common(input.carried());
    let out = O::make(out_id);
    if with_cfg(|c| c.udrop) {
        drop(input);
    } else {
        mem::forget(input);
    }
    out
}

fn call_ref<I: Val, O: Val>(input: &mut I) -> O {
    let _g = enter_call();
    let out_id = call_common(input.carried());
    O::make(out_id)
}

fn call_unit<O: Val>() -> O {
    let _g = enter_call();
    let out_id = call_common(None);
    O::make(out_id)
}

/// One call of the counter API on the bencher, in the order given by the case.
#[derive(Clone, Copy, Debug, PartialEq)]
enum CCall {
    /// `with_inputs(gen)`
    W,
    /// `input_counter(|input| Kind::new(..))`
    In(usize),
    /// `count_inputs_as::<Kind>()` (inputs of type `u64` only)
    As(usize),
    /// `counter(Kind::new(7))`
    Const(usize),
}

const CONST_COUNT: u64 = 7;

impl Val for u64 {
    /// Every input is the number 1 (so that `count_inputs_as` counts 1 per input);
    /// events are numbered by ordinals, as for ZSTs.
    fn make(_: u64) -> Self {
        1
    }
    fn carried(&self) -> Option<u64> {
        None
    }
}

macro_rules! as_call {
    (yes, $b:ident, $k:expr) => {
        match $k {
            0 => $b.count_inputs_as::<BytesCount>(),
            1 => $b.count_inputs_as::<CharsCount>(),
            2 => $b.count_inputs_as::<CyclesCount>(),
            _ => $b.count_inputs_as::<ItemsCount>(),
        }
    };
    (no, $b:ident, $k:expr) => {
        panic!("count_inputs_as needs it=u")
    };
}

macro_rules! const_call {
    ($b:ident, $k:expr) => {
        match $k {
            0 => $b.counter(BytesCount::new(CONST_COUNT)),
            1 => $b.counter(CharsCount::new(CONST_COUNT)),
            2 => $b.counter(CyclesCount::new(CONST_COUNT)),
            _ => $b.counter(ItemsCount::new(CONST_COUNT)),
        }
    };
}

macro_rules! drive_body {
    ($I:ty, $O:ty, $as_ok:tt, $bencher:ident, $entry:ident, $seq:ident) => {{
        let mut bencher = $bencher;
        let split = $seq.iter().position(|c| *c == CCall::W).unwrap_or($seq.len());
        for c in &$seq[..split] {
            bencher = match *c {
                CCall::Const(k) => const_call!(bencher, k),
                other => panic!("{other:?} before with_inputs"),
            };
        }
        match $entry {
            0 => return bencher.bench(|| call_unit::<$O>()),
            1 => return bencher.bench_local(|| call_unit::<$O>()),
            _ => {}
        }
        let mut b = bencher.with_inputs(gen_input::<$I>);
        for c in $seq.iter().skip(split + 1) {
            b = match *c {
                CCall::In(0) => b.input_counter(|x: &$I| BytesCount::new(count_input(0, x))),
                CCall::In(1) => b.input_counter(|x: &$I| CharsCount::new(count_input(1, x))),
                CCall::In(2) => b.input_counter(|x: &$I| CyclesCount::new(count_input(2, x))),
                CCall::In(_) => b.input_counter(|x: &$I| ItemsCount::new(count_input(3, x))),
                CCall::As(k) => as_call!($as_ok, b, k),
                CCall::Const(k) => const_call!(b, k),
                CCall::W => panic!("with_inputs twice"),
            };
        }
        match $entry {
            2 => b.bench_values(call_value::<$I, $O>),
            3 => b.bench_local_values(call_value::<$I, $O>),
            4 => b.bench_refs(call_ref::<$I, $O>),
            5 => b.bench_local_refs(call_ref::<$I, $O>),
            _ => panic!("bad entry {}", $entry),
        }
    }};
}

fn drive<I: Val, O: Val>(bencher: divan::Bencher, entry: u8, seq: &[CCall]) {
    drive_body!(I, O, no, bencher, entry, seq)
}

fn drive_u64<O: Val>(bencher: divan::Bencher, entry: u8, seq: &[CCall]) {
    drive_body!(u64, O, yes, bencher, entry, seq)
}

fn drive_shape(bencher: divan::Bencher, entry: u8, sh: [bool; 4], seq: &[CCall], input_u64: bool) {
    macro_rules! with_out {
        ($f:ident $(, $i:ty)?) => {
            match (sh[2], sh[3]) {
                (true, false) => $f::<$($i,)? OZN>(bencher, entry, seq),
                (true, true) => $f::<$($i,)? OZD>(bencher, entry, seq),
                (false, false) => $f::<$($i,)? OSN>(bencher, entry, seq),
                (false, true) => $f::<$($i,)? OSD>(bencher, entry, seq),
            }
        };
    }
    if input_u64 {
        assert!(!sh[0] && !sh[1], "it=u is a sized input without destructor");
        return with_out!(drive_u64);
    }
    match (sh[0], sh[1]) {
        (true, false) => with_out!(drive, IZN),
        (true, true) => with_out!(drive, IZD),
        (false, false) => with_out!(drive, ISN),
        (false, true) => with_out!(drive, ISD),
    }
}

fn parse_seq(s: &str) -> Vec<CCall> {
    s.split(',')
        .filter(|t| !t.is_empty())
        .map(|t| {
            if t == "w" {
                return CCall::W;
            }
            let k = match &t[1..] {
                "B" => 0,
                "C" => 1,
                "Y" => 2,
                "I" => 3,
                _ => panic!("bad kind in {t}"),
            };
            match &t[..1] {
                "i" => CCall::In(k),
                "a" => CCall::As(k),
                "c" => CCall::Const(k),
                _ => panic!("bad counter call {t}"),
            }
        })
        .collect()
}

// ---------------------------------------------------------------------------
// One case
// ---------------------------------------------------------------------------

fn bits4(s: &str) -> [bool; 4] {
    let b: Vec<bool> = s.chars().map(|c| c == '1').collect();
    assert!(b.len() == 4, "four bits expected");
    [b[0], b[1], b[2], b[3]]
}

fn fmt_id(id: u64) -> String {
    format!("{}.{}", id >> 32, id & 0xffff_ffff)
}

fn run_case(line: &str) -> String {
    let mut entry = 0u8;
    let mut sh = [false; 4];
    let mut cs = [false; 4];
    let mut cq: Option<Vec<CCall>> = None;
    let mut input_u64 = false;
    let mut ss = Some(1u32);
    let mut sc = 1u32;
    let mut prec = 1000u128;
    let mut max_ticks: Option<u64> = None;
    let mut threads = 1usize;
    let mut is_test = false;
    let mut cfg = Cfg::default();
    for tok in hxlib::toks(line) {
        let Some((k, val)) = tok.split_once('=') else { panic!("bad token {tok}") };
        match k {
            "e" => entry = val.parse().expect("e"),
            "sh" => sh = bits4(val),
            "cs" => cs = bits4(val),
            "cq" => cq = if val == "-" { None } else { Some(parse_seq(val)) },
            "it" => input_u64 = val == "u",
            "u" => cfg.udrop = val == "1",
            "ss" => ss = if val == "-" { None } else { Some(val.parse().expect("ss")) },
            "cost" => cfg.cost = val.parse().expect("cost"),
            "prec" => prec = val.parse().expect("prec"),
            // time ceiling in virtual ticks (1 tick = 1 ns at the virtual frequency of 1 GHz)
            "max" => max_ticks = if val == "-" { None } else { Some(val.parse::<u64>().expect("max")) },
            "FL" => cfg.f_limit = if val == "-" { None } else { Some(val.parse().expect("FL")) },
            "sc" => sc = val.parse().expect("sc"),
            "th" => threads = val.parse().expect("th"),
            "test" => is_test = val == "1",
            "p" => {
                if val != "-" {
                    let p: Vec<&str> = val.split(':').collect();
                    cfg.panic = Some((p[0] == "g", p[1].parse().expect("pt"), p[2].parse().expect("pk")));
                }
            }
            "G" => cfg.g = parse_script(val),
            "K" => cfg.k = parse_script(val),
            "F" => cfg.f = parse_script(val),
            "O" => cfg.o = parse_script(val),
            "I" => cfg.i = parse_script(val),
            _ => panic!("unknown key {k}"),
        }
    }
    // Tuned sample size: a call must cost at least one tick or tuning never ends;
    // the budget turns a runaway into a panic outcome.
    cfg.budget = if ss.is_none() { 20_000 } else { u64::MAX };
    *CFG.write().unwrap_or_else(|e| e.into_inner()) = cfg;
    reset_thread();

    // `cs=` alone is the sequence with_inputs, input_counter(kind) in kind order.
    let show_counts = cq.is_some();
    let seq: Vec<CCall> = cq.unwrap_or_else(|| {
        let mut v = vec![CCall::W];
        v.extend((0..4).filter(|k| cs[*k]).map(CCall::In));
        v
    });

    let mut options = divan::__private::BenchOptions::default();
    options.sample_size = ss;
    options.max_time = max_ticks.map(std::time::Duration::from_nanos);
    options.sample_count = Some(sc);

    let freq = 1_000_000_000u64;
    v::set_precision_override(Some(prec));
    v::set_overhead_override(Some([0; 4]));
    v::log_take();
    v::log_reserve(1 << 16);
    v::vclock_set(0);
    v::vclock_enable(freq, 1);
    v::log_enable(true);

    let res = std::panic::catch_unwind(std::panic::AssertUnwindSafe(|| {
        v::run_bencher(
            &v::RunConfig { options: &options, threads, is_test, tsc_frequency: Some(freq), compute_stats: false },
            &|bencher| drive_shape(bencher, entry, sh, &seq, input_u64),
        )
    }));

    v::log_enable(false);
    v::vclock_disable();
    v::set_precision_override(None);
    v::set_overhead_override(None);
    let log = v::log_take();

    let max_thread = log.iter().map(|e| e.thread as usize + 1).max().unwrap_or(0).max(threads);
    let mut per_thread: Vec<Vec<String>> = vec![Vec::new(); max_thread];
    for e in &log {
        let s = match e.kind {
            v::ev::CLOCK_START => "ts".to_string(),
            v::ev::CLOCK_END => "te".to_string(),
            v::ev::BARRIER_ARRIVE => format!("ba{}", e.a),
            v::ev::BARRIER_LEAVE => format!("bl{}", e.a),
            v::ev::TALLY_CLEAR => "clr".to_string(),
            v::ev::TALLY_SNAPSHOT => "snap".to_string(),
            GEN => format!("g{}", fmt_id(e.a)),
            COUNT => format!("n{}{}", ["B", "C", "Y", "I"][e.b as usize], fmt_id(e.a)),
            CALL => format!("c{}/{}", fmt_id(e.a), fmt_id(e.b)),
            DROP_IN => format!("{}{}", if e.b == 1 { "u" } else { "i" }, fmt_id(e.a)),
            DROP_OUT => format!("{}{}", if e.b == 1 { "x" } else { "o" }, fmt_id(e.a)),
            CALL_PANIC => format!("pc{}", fmt_id(e.a)),
            GEN_PANIC => "pg".to_string(),
            k => format!("?{k}"),
        };
        per_thread[e.thread as usize].push(s);
    }

    let mut out = String::new();
    match &res {
        Ok(_) => out.push_str("ok"),
        Err(_) => out.push_str("panic"),
    }
    for (t, evs) in per_thread.iter().enumerate() {
        out.push_str(&format!(" | T{t}"));
        for e in evs {
            out.push(' ');
            out.push_str(e);
        }
    }
    out.push_str(" | A");
    if let Ok(dump) = &res {
        for (idx, info) in &dump.alloc_infos {
            let t = &info.tallies;
            out.push_str(&format!(
                " {idx}:{},{},{},{},{},{},{},{},{},{},{},{}",
                t[0].0, t[0].1, t[1].0, t[1].1, t[2].0, t[2].1, t[3].0, t[3].1,
                info.current_count, info.max_count, info.current_size, info.max_size
            ));
        }
    }
    if show_counts {
        // Per kind: `i` computed from inputs / `c` constant / `-` none, then the recorded counts.
        out.push_str(" | C");
        if let Ok(dump) = &res {
            for k in 0..4 {
                let tag = if dump.uses_input_counts[k] {
                    "i"
                } else if dump.counts[k].is_empty() {
                    "-"
                } else {
                    "c"
                };
                let vals: Vec<String> = dump.counts[k].iter().map(|c| c.to_string()).collect();
                out.push_str(&format!(" {}:{}:{}", ["B", "C", "Y", "I"][k], tag, vals.join(",")));
            }
        }
    }
    out
}

/// Runs one `#[divan::bench]` function of the real-macro binary `hx-sample-e2e` (next to this
/// binary) through `Divan::from_args().main()`; returns its per-thread event log and the
/// allocation rows its table shows: `ok | T0 .. | T1 .. | M alloc,dealloc`.
fn run_e2e(line: &str) -> String {
    let mut bench = "";
    let (mut ss, mut sc, mut th, mut test) = ("1", "1", "1", false);
    for tok in hxlib::toks(line) {
        let Some((k, val)) = tok.split_once('=') else { panic!("bad token {tok}") };
        match k {
            "bench" => bench = val,
            "ss" => ss = val,
            "sc" => sc = val,
            "th" => th = val,
            "test" => test = val == "1",
            _ => panic!("unknown key {k}"),
        }
    }
    let exe = std::env::current_exe().expect("exe").with_file_name("hx-sample-e2e");
    let out = std::process::Command::new(exe)
        .arg(format!("hx_sample_e2e::{bench}"))
        .args(["--exact", if test { "--test" } else { "--bench" }])
        .args(["--sample-count", sc, "--sample-size", ss, "--threads", th])
        .args(["--timer", "tsc", "--color", "never"])
        .env("HX_THREADS", th)
        .output()
        .expect("spawn hx-sample-e2e");
    let stdout = String::from_utf8_lossy(&out.stdout);
    let Some(log) = stdout.lines().find_map(|l| l.strip_prefix("HXLOG ")) else {
        return format!("crash status={:?}", out.status.code());
    };
    let labels: Vec<&str> = ["grow", "shrink", "alloc", "dealloc"]
        .into_iter()
        .filter(|l| stdout.lines().any(|line| line.trim_start().starts_with(&format!("{l}:"))))
        .collect();
    format!("{log} | M {}", labels.join(","))
}

fn dispatch(mode: &str, line: &str) -> String {
    match mode {
        "e2e" => run_e2e(line),
        "run" | "alloc" | "panic" | "tuned" | "tuned-alloc" => run_case(line),
        _ => panic!("unknown mode {mode}"),
    }
}

fn main() {
    hxlib::run(dispatch);
}
