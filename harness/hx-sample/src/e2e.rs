//! Real-macro binary of group `sample`: `#[divan::bench]` functions covering the
//! arms of the attribute macro's wrapper generation (`make_bench_fn`): Rust ABI
//! `fn() -> O`, `extern "C"` / `extern "system"` `fn() -> O`, generic
//! `extern "C" fn<T>() -> O`, `fn(arg) -> O` with `args = [..]` (also with a `Copy` argument
//! type whose `Clone` is logging, allocating user code, and by reference), `fn(Bencher)`,
//! `extern "C" fn(Bencher)`, `fn(Bencher, arg)`.  Run by `hx-sample e2e` as a
//! subprocess, one benchmark per process, through the real `Divan::from_args().main()`
//! with the TSC timer on the virtual clock.
//!
//! Every body logs its call and returns an output that owns a `Box` and logs its
//! `Drop` (hook event log; identifiers `thread << 32 | per-thread call ordinal`).
//! After the run the per-thread event sequences are printed on one `HXLOG` line in
//! the token format of `hx-sample`; the table divan printed before it carries the
//! allocation rows of the benchmark.

use std::cell::Cell;

use divan::__verif as v;
use divan::Bencher;

#[global_allocator]
static ALLOC: divan::AllocProfiler = divan::AllocProfiler::system();

const CALL: u8 = v::ev::USER + 2;
const DROP_OUT: u8 = v::ev::USER + 4;
const CLONE: u8 = v::ev::USER + 7;

thread_local! {
    static CALL_ORD: Cell<u64> = const { Cell::new(0) };
    static IN_CALL: Cell<bool> = const { Cell::new(false) };
}

/// Output with drop glue and a heap allocation.
pub struct Out {
    id: u64,
    _b: Box<u64>,
}

impl Drop for Out {
    fn drop(&mut self) {
        v::log_event(DROP_OUT, self.id, IN_CALL.with(|c| c.get()) as u64);
    }
}

struct CallGuard;
impl Drop for CallGuard {
    fn drop(&mut self) {
        IN_CALL.with(|c| c.set(false));
    }
}

/// The benchmarked work: one allocation, kept in the returned value.
fn work() -> Out {
    IN_CALL.with(|c| c.set(true));
    let _g = CallGuard;
    let ord = CALL_ORD.with(|c| {
        let x = c.get();
        c.set(x + 1);
        x
    });
    let id = ((v::thread_index() as u64) << 32) | ord;
    v::log_event(CALL, id, id);
    v::vclock_advance(3);
    Out { id, _b: Box::new(std::hint::black_box(id)) }
}

#[divan::bench]
fn rust_abi() -> Out {
    work()
}

#[divan::bench]
extern "C" fn extern_c() -> Out {
    work()
}

#[divan::bench]
extern "system" fn extern_system() -> Out {
    work()
}

#[divan::bench(types = [u8, String])]
extern "C" fn generic_extern_c<T: 'static>() -> Out {
    work()
}

#[divan::bench(types = [u8])]
fn generic_rust<T: 'static>() -> Out {
    work()
}

#[divan::bench(args = [1, 2])]
fn with_arg(n: u64) -> Out {
    std::hint::black_box(n);
    work()
}

/// A `Copy` argument type whose hand-written `Clone` is user code: it logs itself and allocates.
/// The macro's glue must hand it to the function by bit copy, never through `clone`
/// (the conversion sits inside the closure given to `Bencher::bench`, i.e. in the timed section).
#[derive(Copy, Debug)]
pub struct Key(u64);

impl Clone for Key {
    fn clone(&self) -> Self {
        v::log_event(CLONE, ((v::thread_index() as u64) << 32) | self.0, 0);
        let mut scratch = Vec::<u8>::with_capacity(24);
        std::hint::black_box(scratch.as_mut_ptr());
        drop(scratch);
        Key(self.0)
    }
}

#[divan::bench(args = [Key(1), Key(2)])]
fn key_arg(k: Key) -> Out {
    std::hint::black_box(k.0);
    work()
}

#[divan::bench(args = [Key(1)])]
fn key_ref_arg(k: &Key) -> Out {
    std::hint::black_box(k.0);
    work()
}

#[divan::bench]
fn bencher_plain(b: Bencher) {
    b.bench(work)
}

#[divan::bench]
extern "C" fn bencher_extern_c(b: Bencher) {
    b.bench(work)
}

#[divan::bench(args = [1, 2])]
fn bencher_arg(b: Bencher, n: u64) {
    std::hint::black_box(n);
    b.bench(work)
}

fn fmt_id(id: u64) -> String {
    format!("{}.{}", id >> 32, id & 0xffff_ffff)
}

fn main() {
    let min_threads: usize = std::env::var("HX_THREADS").ok().and_then(|t| t.parse().ok()).unwrap_or(1);
    v::set_precision_override(Some(1000));
    v::set_overhead_override(Some([0; 4]));
    v::log_take();
    v::log_reserve(1 << 16);
    v::vclock_set(0);
    v::vclock_enable(1_000_000_000, 1);
    v::log_enable(true);

    divan::Divan::from_args().main();

    v::log_enable(false);
    let log = v::log_take();
    let n = log.iter().map(|e| e.thread as usize + 1).max().unwrap_or(0).max(min_threads);
    let mut per_thread: Vec<Vec<String>> = vec![Vec::new(); n];
    for e in &log {
        let s = match e.kind {
            v::ev::CLOCK_START => "ts".to_string(),
            v::ev::CLOCK_END => "te".to_string(),
            v::ev::BARRIER_ARRIVE => format!("ba{}", e.a),
            v::ev::BARRIER_LEAVE => format!("bl{}", e.a),
            v::ev::TALLY_CLEAR => "clr".to_string(),
            v::ev::TALLY_SNAPSHOT => "snap".to_string(),
            CALL => format!("c{}/{}", fmt_id(e.a), fmt_id(e.b)),
            DROP_OUT => format!("{}{}", if e.b == 1 { "x" } else { "o" }, fmt_id(e.a)),
            CLONE => format!("q{}", fmt_id(e.a)),
            k => format!("?{k}"),
        };
        per_thread[e.thread as usize].push(s);
    }
    let mut out = String::from("HXLOG ok");
    for (t, evs) in per_thread.iter().enumerate() {
        out.push_str(&format!(" | T{t}"));
        for e in evs {
            out.push(' ');
            out.push_str(e);
        }
    }
    println!("{out}");
}
