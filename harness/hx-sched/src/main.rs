//! hx-sched: divan's real thread pool (`src/util/thread/pool.rs`, compiled
//! verbatim by build.rs) under the deterministic scheduler shuttle, with every
//! protocol event recorded by the `sched_std` shim.
//!
//! stdin : one case per line,
//!         `script=2,1 panics=1.0,2.1 [bombs=1.0] sched=random|pct3|dfs seed=123 iters=500 [spur=K|inf]`
//!         (`bombs`: calls that panic with a payload whose own `Drop` panics)
//!         `rtype=usize|bool|char|ord|dur`: the result type T of the task handed
//!         to `par_extend` (`Vec<Option<T>>`): niche-optimised `Option<T>`s have
//!         no all-zero `None`
//!         `failspawn=k`: the k-th thread creation of every schedule is refused
//!         (`Builder::spawn` returns `Err`; the `expect` in pool.rs panics under
//!         the lock, the harness catches the unwind and goes on with the script)
//!         `state=plain|w3|a16|a64`: the captured state of the task closure: one
//!         pointer (default), three words, or ONE over-aligned value
//!         (`#[repr(align(16))]` / `align(64)`) carrying a position-dependent
//!         pattern, which every call verifies (`C.<t>.<i>.s` = the state seen
//!         by the call is not the captured one)
//!         `vec=fresh|clear|append|pre<k>.<c>`: the result vector handed to
//!         `par_extend`: a fresh one per broadcast (default), ONE vector
//!         cleared before every broadcast (what `bench_loop_threaded` does with
//!         its sample buffer), one vector appended to, or one vector that
//!         starts with k elements and capacity c and is appended to
//!         (`spur`: spurious park wake-ups allowed per schedule; default `inf`,
//!         for `dfs` 1)
//! stdout: one line per case, the distinct traces joined by ` ## `, each
//!         `<first_iter>*<count>:<events>[ !deadlock| !maxsteps| !panic]`.

mod sched_std;

mod util {
    use ::std::mem::ManuallyDrop;

    include!(concat!(env!("OUT_DIR"), "/defer.rs")); // pub(crate) fn defer

    pub mod sync {
        include!(concat!(env!("OUT_DIR"), "/sync.rs"));
    }

    pub mod thread {
        pub mod pool {
            include!(concat!(env!("OUT_DIR"), "/pool.rs"));
        }
    }
}

use std::collections::{HashMap, HashSet};
use std::panic::{catch_unwind, AssertUnwindSafe};
use std::sync::Arc;

use shuttle::scheduler::{DfsScheduler, PctScheduler, RandomScheduler, Schedule, Scheduler};
use shuttle::{Config, FailurePersistence, MaxSteps, Runner};
use shuttle_engine::runtime::task::{Task, TaskId};

use sched_std::{log, Finished};
use util::thread::pool::ThreadPool;

/// Per-broadcast data read by the task closure.  Leaked, so that a late call
/// of a mutant still reads live memory.
struct Ctx {
    b: usize,
    panics: Arc<HashSet<(usize, usize)>>,
    bombs: Arc<HashSet<(usize, usize)>>,
}

/// Panic payload whose destructor panics (without going through the panic
/// hook).  pool.rs keeps the caller's caught payload alive until all workers
/// are done precisely because of such payloads.
struct Bomb;

impl Drop for Bomb {
    fn drop(&mut self) {
        std::panic::resume_unwind(Box::new("bomb payload dropped"));
    }
}

/// Captured state of the task closure.  The WHOLE capture is one value, so the
/// closure (and the `TaskShared<F>` it is stored in) inherits its alignment:
/// the offset of the closure inside the task block then differs from the
/// offset in the type-erased `TaskShared<()>`.
const PAT: u64 = 0x5EED_0000_C0DE_0000;

trait TaskState: Copy + Send + Sync + 'static {
    fn new(ctx: &'static Ctx) -> Self;
    /// The context, if the position-dependent pattern is intact.
    fn check(&self) -> Option<&'static Ctx>;
}

macro_rules! task_state {
    ($name:ident, $align:literal, $n:literal) => {
        #[repr(C, align($align))]
        #[derive(Clone, Copy)]
        struct $name {
            ctx: &'static Ctx,
            pat: [u64; $n],
        }
        impl TaskState for $name {
            fn new(ctx: &'static Ctx) -> Self {
                let mut pat = [0u64; $n];
                for (k, w) in pat.iter_mut().enumerate() {
                    *w = PAT + k as u64;
                }
                Self { ctx, pat }
            }
            #[inline(never)]
            fn check(&self) -> Option<&'static Ctx> {
                // the pattern first: `ctx` is only trusted if it is intact
                for k in 0..$n {
                    let w = unsafe { std::ptr::addr_of!(self.pat[k]).read_volatile() };
                    if w != PAT + k as u64 {
                        return None;
                    }
                }
                Some(self.ctx)
            }
        }
    };
}
task_state!(StW3, 8, 2); // three words: the control
task_state!(StA16, 16, 5);
task_state!(StA64, 64, 7);

#[derive(Clone, Copy)]
struct StPlain(&'static Ctx);
impl TaskState for StPlain {
    fn new(ctx: &'static Ctx) -> Self {
        StPlain(ctx)
    }
    fn check(&self) -> Option<&'static Ctx> {
        Some(self.0)
    }
}

#[derive(Clone, Copy, PartialEq)]
enum StateMode {
    Plain,
    W3,
    A16,
    A64,
}

/// The task: verifies its captured state, then logs the call and returns /
/// panics as the case prescribes.
fn task_of<S: TaskState>(st: S) -> impl Fn(usize) -> usize + Sync + Send {
    move |i: usize| -> usize {
        // The state is read out of the task block (the closure lives there)
        // BEFORE the scheduling point; the window between a worker's `recv`
        // and its call is real.
        let Some(ctx) = st.check() else {
            // Not the state that was captured: the pool ran something else
            // than the task.  Nothing read through it can be trusted, and
            // returning would let `par_extend` write through a bogus pointer.
            log(format!("C.{}.{}.s", sched_std::tid(), i));
            sched_std::block_forever();
        };
        shuttle_engine::runtime::thread::switch();
        if !sched_std::block_alive(ctx.b) {
            // The task block of this broadcast is gone (only a broken pool
            // gets here): say so and stop before touching it again.
            log(format!("C.{}.{}.x", sched_std::tid(), i));
            sched_std::block_forever();
        }
        let bomb = ctx.bombs.contains(&(ctx.b, i));
        let p = bomb || ctx.panics.contains(&(ctx.b, i));
        log(format!("C.{}.{}.{}", sched_std::tid(), i, p as u8));
        if bomb {
            std::panic::resume_unwind(Box::new(Bomb));
        }
        if p {
            // No panic hook, no message.
            std::panic::resume_unwind(Box::new(()));
        }
        i
    }
}

/// Result type of the task.  `of(i)` is the result of call `i` (position
/// dependent where the type allows), `pre(j)` an element of a pre-filled vector.
trait RVal: Clone + PartialEq + Send + Sync + 'static {
    fn of(i: usize) -> Self;
    fn pre(j: usize) -> Self;
}
impl RVal for usize {
    fn of(i: usize) -> Self {
        i
    }
    fn pre(j: usize) -> Self {
        1000 + j
    }
}
impl RVal for bool {
    fn of(i: usize) -> Self {
        i % 2 == 1
    }
    fn pre(j: usize) -> Self {
        j % 2 == 0
    }
}
impl RVal for char {
    fn of(i: usize) -> Self {
        char::from_u32('a' as u32 + (i as u32 % 26)).unwrap()
    }
    fn pre(j: usize) -> Self {
        char::from_u32('A' as u32 + (j as u32 % 26)).unwrap()
    }
}
impl RVal for std::cmp::Ordering {
    fn of(i: usize) -> Self {
        [std::cmp::Ordering::Less, std::cmp::Ordering::Greater, std::cmp::Ordering::Equal][i % 3]
    }
    fn pre(j: usize) -> Self {
        [std::cmp::Ordering::Greater, std::cmp::Ordering::Less][j % 2]
    }
}
impl RVal for std::time::Duration {
    fn of(i: usize) -> Self {
        std::time::Duration::new(i as u64 + 1, 7 * i as u32)
    }
    fn pre(j: usize) -> Self {
        std::time::Duration::new(1000 + j as u64, 1)
    }
}

#[derive(Clone, Copy, PartialEq)]
enum RType {
    Usize,
    Bool,
    Char,
    Ord,
    Dur,
}

/// `par_extend` with the given task; true = left by an escaping panic.
fn extend<T: RVal, F: Sync + Fn(usize) -> usize>(pool: &ThreadPool, v: &mut Vec<Option<T>>, n: usize, f: F) -> bool {
    // the whole capture of the task is `f` (and with it its alignment)
    let f = move |i: usize| -> T { T::of(f(i)) };
    // `par_extend` stores `{ ptr, f }` behind the header of `TaskShared`
    // (padding included in the size).
    sched_std::set_closure_words(1 + (std::mem::size_of_val(&f) + 7) / 8);
    // A panic may escape `broadcast` (a caught payload whose destructor
    // panics): it is an outcome like any other, the trace goes on and the
    // workers run on.  `Z` = left by an escaping panic, `T` = returned.
    catch_unwind(AssertUnwindSafe(|| pool.par_extend(v, n, f))).is_err()
}

/// How the result vector is managed across the broadcasts of a script.
#[derive(Clone, Copy, PartialEq)]
enum VecMode {
    Fresh,
    Clear,
    Append,
    Pre(usize, usize),
}

/// One shuttle execution: a scripted sequence of broadcasts on one pool.
fn body<T: RVal>(
    script: &[usize],
    panics: &Arc<HashSet<(usize, usize)>>,
    bombs: &Arc<HashSet<(usize, usize)>>,
    vmode: VecMode,
    smode: StateMode,
    failspawn: Option<usize>,
) {
    sched_std::reset(); // registers the main task as thread 0
    sched_std::set_fail_spawn(failspawn);
    let pool = ThreadPool::new();
    let mut shared: Vec<Option<T>> = match vmode {
        VecMode::Pre(k, c) => {
            let mut v = Vec::with_capacity(c.max(k));
            v.extend((0..k).map(|j| Some(T::pre(j))));
            v
        }
        _ => Vec::new(),
    };

    for (b0, &n) in script.iter().enumerate() {
        let b = b0 + 1;
        log(format!("B.{n}"));

        // Fresh vector: spare capacity, so that an out-of-range index of a
        // broken pool does not write outside the buffer.
        let mut fresh: Vec<Option<T>> = Vec::new();
        let v: &mut Vec<Option<T>> = match vmode {
            VecMode::Fresh => {
                fresh = Vec::with_capacity(n + 16);
                &mut fresh
            }
            VecMode::Clear => {
                shared.clear();
                &mut shared
            }
            VecMode::Append | VecMode::Pre(..) => &mut shared,
        };
        let old: Vec<Option<T>> = v.clone();
        let old_len = old.len();

        let ctx: &'static Ctx = Box::leak(Box::new(Ctx { b, panics: Arc::clone(panics), bombs: Arc::clone(bombs) }));
        let escaped = match smode {
            StateMode::Plain => extend(&pool, &mut *v, n, task_of(StPlain::new(ctx))),
            StateMode::W3 => extend(&pool, &mut *v, n, task_of(StW3::new(ctx))),
            StateMode::A16 => extend(&pool, &mut *v, n, task_of(StA16::new(ctx))),
            StateMode::A64 => extend(&pool, &mut *v, n, task_of(StA64::new(ctx))),
        };

        // Vector discipline (G = guard events, only logged when violated):
        // len <= capacity, exactly n + 1 new slots, old elements untouched.
        // Nothing beyond the capacity is ever read.
        let readable = v.len().min(v.capacity());
        let broken = v.len() > v.capacity();
        if broken {
            log(format!("G.lencap.{}.{}", v.len(), v.capacity()));
        }
        if v.len() != old_len + n + 1 {
            log(format!("G.len.{}.{}", v.len(), old_len + n + 1));
        }
        let view: &[Option<T>] = unsafe { std::slice::from_raw_parts(v.as_ptr(), readable) };
        if view.len() < old_len || view[..old_len] != old[..] {
            log("G.old".to_string());
        }

        let slots: Vec<String> = view[old_len.min(readable)..]
            .iter()
            .enumerate()
            .map(|(i, s)| match s {
                None => "-".to_string(),
                // the result of call i is printed as i; any other value as `?`
                Some(x) if *x == T::of(i) => i.to_string(),
                Some(_) => "?".to_string(),
            })
            .collect();
        // T = returned, Z = left by an escaping panic, Y = left by the panic of
        // a refused thread creation (`F` logged by the shim).
        let refused = sched_std::take_spawn_failed();
        let tag = if escaped && refused { "Y" } else if escaped { "Z" } else { "T" };
        log(format!("{}.{}", tag, slots.join(",")));

        // A late write of a broken pool must hit live memory; a vector whose
        // length exceeds its capacity must not be used (or dropped) again.
        if vmode == VecMode::Fresh {
            std::mem::forget(fresh);
        } else if broken {
            std::mem::forget(std::mem::take(&mut shared));
        }
    }

    log("X".to_string());
    drop(pool);
    sched_std::join_all();
}

/// Scheduler wrapper that bounds the number of spurious wake-ups of parked
/// tasks per execution.  Shuttle offers a parked task to the scheduler as a
/// candidate (spurious wake-up); an exhaustive DFS would follow that branch
/// for ever (`while count > 0 { park() }`).  Once the budget of an execution
/// is used up, such candidates are hidden from the inner scheduler.  The
/// remaining budget is a function of the choices made so far, so replaying a
/// schedule prefix (DFS) sees the same candidate lists.
struct SpuriousBudget<S> {
    inner: S,
    budget: Option<usize>,
    left: usize,
}

impl<S> SpuriousBudget<S> {
    fn new(inner: S, budget: Option<usize>) -> Self {
        Self { inner, budget, left: 0 }
    }
}

impl<S: Scheduler> Scheduler for SpuriousBudget<S> {
    fn new_execution(&mut self) -> Option<Schedule> {
        self.left = self.budget.unwrap_or(0);
        self.inner.new_execution()
    }

    fn next_task(
        &mut self,
        runnable: &[&Task],
        current: Option<TaskId>,
        is_yielding: bool,
    ) -> Option<TaskId> {
        if self.budget.is_none() {
            return self.inner.next_task(runnable, current, is_yielding);
        }
        let left = self.left;
        let shown: Vec<&Task> = runnable
            .iter()
            .copied()
            .filter(|t| left > 0 || !t.can_spuriously_wakeup())
            .collect();
        let next = self.inner.next_task(&shown, current, is_yielding)?;
        if shown.iter().any(|t| t.id() == next && t.can_spuriously_wakeup()) {
            self.left -= 1;
        }
        Some(next)
    }

    fn next_u64(&mut self) -> u64 {
        self.inner.next_u64()
    }
}

#[derive(Clone, Copy, PartialEq)]
enum Sched {
    Random,
    Pct(usize),
    Dfs,
}

struct Case {
    script: Vec<usize>,
    panics: HashSet<(usize, usize)>,
    bombs: HashSet<(usize, usize)>,
    sched: Sched,
    vmode: VecMode,
    smode: StateMode,
    failspawn: Option<usize>,
    rtype: RType,
    seed: u64,
    iters: usize,
    /// Spurious wake-ups allowed per execution (None = unbounded).
    spur: Option<Option<usize>>,
}

fn parse(line: &str) -> Case {
    let mut c = Case {
        script: Vec::new(),
        panics: HashSet::new(),
        bombs: HashSet::new(),
        sched: Sched::Random,
        vmode: VecMode::Fresh,
        smode: StateMode::Plain,
        failspawn: None,
        rtype: RType::Usize,
        seed: 0,
        iters: 100,
        spur: None,
    };
    for tok in line.split(' ').filter(|t| !t.is_empty() && !t.starts_with('#')) {
        let (k, v) = tok.split_once('=').unwrap_or_else(|| panic!("bad token {tok}"));
        match k {
            "script" => {
                c.script = v
                    .split(',')
                    .filter(|s| !s.is_empty())
                    .map(|s| s.parse().expect("script"))
                    .collect()
            }
            "panics" | "bombs" => {
                let set: HashSet<(usize, usize)> = v
                    .split(',')
                    .filter(|s| !s.is_empty())
                    .map(|s| {
                        let (b, i) = s.split_once('.').expect("panics b.i");
                        (b.parse().expect("b"), i.parse().expect("i"))
                    })
                    .collect();
                if k == "bombs" {
                    c.bombs = set;
                } else {
                    c.panics = set;
                }
            }
            "sched" => {
                c.sched = if v == "random" {
                    Sched::Random
                } else if v == "dfs" {
                    Sched::Dfs
                } else if let Some(d) = v.strip_prefix("pct") {
                    Sched::Pct(if d.is_empty() { 3 } else { d.parse().expect("pct depth") })
                } else {
                    panic!("bad sched {v}")
                }
            }
            "vec" => {
                c.vmode = match v {
                    "fresh" => VecMode::Fresh,
                    "clear" => VecMode::Clear,
                    "append" => VecMode::Append,
                    _ => {
                        let (k, cap) = v.strip_prefix("pre").and_then(|r| r.split_once('.')).expect("vec=pre<k>.<c>");
                        VecMode::Pre(k.parse().expect("k"), cap.parse().expect("c"))
                    }
                }
            }
            "state" => {
                c.smode = match v {
                    "plain" => StateMode::Plain,
                    "w3" => StateMode::W3,
                    "a16" => StateMode::A16,
                    "a64" => StateMode::A64,
                    _ => panic!("bad state {v}"),
                }
            }
            "failspawn" => c.failspawn = Some(v.parse().expect("failspawn")),
            "rtype" => {
                c.rtype = match v {
                    "usize" => RType::Usize,
                    "bool" => RType::Bool,
                    "char" => RType::Char,
                    "ord" => RType::Ord,
                    "dur" => RType::Dur,
                    _ => panic!("bad rtype {v}"),
                }
            }
            "seed" => c.seed = v.parse().expect("seed"),
            "iters" => c.iters = v.parse().expect("iters"),
            "spur" => c.spur = Some(if v == "inf" { None } else { Some(v.parse().expect("spur")) }),
            _ => panic!("bad key {k}"),
        }
    }
    c
}

fn config() -> Config {
    let mut c = Config::new();
    c.failure_persistence = FailurePersistence::None;
    c.max_steps = MaxSteps::FailAfter(20_000);
    c.stack_size = 0x40000;
    c
}

fn payload_msg(e: Box<dyn std::any::Any + Send>) -> String {
    if let Some(s) = e.downcast_ref::<String>() {
        s.clone()
    } else if let Some(s) = e.downcast_ref::<&str>() {
        s.to_string()
    } else {
        "?".to_string()
    }
}

fn classify(msg: &str) -> &'static str {
    if msg.starts_with("deadlock!") {
        "deadlock"
    } else if msg.contains("exceeded max_steps") {
        "maxsteps"
    } else {
        "panic"
    }
}

/// Runs up to `iters` schedules on a fresh OS thread (a failed execution may
/// leave that thread's panic count raised).  `Err(msg)`: shuttle panicked.
fn run_chunk(
    sched: Sched,
    spur: Option<usize>,
    seed: u64,
    iters: usize,
    script: Arc<Vec<usize>>,
    panics: Arc<HashSet<(usize, usize)>>,
    bombs: Arc<HashSet<(usize, usize)>>,
    vmode: VecMode,
    smode: StateMode,
    failspawn: Option<usize>,
    rtype: RType,
) -> Result<usize, String> {
    let h = std::thread::Builder::new()
        .name("hx-sched-runner".into())
        .stack_size(64 << 20)
        .spawn(move || {
            catch_unwind(AssertUnwindSafe(|| {
                let f = move || {
                    // Shuttle installs (once per process) a panic hook that
                    // reports every failure on stderr; failures are outcomes
                    // here, so put the silent hook back on top of it.
                    static SILENCE: std::sync::Once = std::sync::Once::new();
                    SILENCE.call_once(|| {
                        std::panic::set_hook(Box::new(|info| {
                            // silent, except for std's non-unwinding precondition
                            // panics (the process aborts right after)
                            let s = info.to_string();
                            if s.contains("unsafe precondition") || s.contains("misaligned pointer") {
                                eprintln!("hx-sched: {}", s.replace('\n', " "));
                            }
                        }))
                    });
                    match rtype {
                        RType::Usize => body::<usize>(&script, &panics, &bombs, vmode, smode, failspawn),
                        RType::Bool => body::<bool>(&script, &panics, &bombs, vmode, smode, failspawn),
                        RType::Char => body::<char>(&script, &panics, &bombs, vmode, smode, failspawn),
                        RType::Ord => body::<std::cmp::Ordering>(&script, &panics, &bombs, vmode, smode, failspawn),
                        RType::Dur => body::<std::time::Duration>(&script, &panics, &bombs, vmode, smode, failspawn),
                    }
                };
                match sched {
                    Sched::Random => {
                        let s = RandomScheduler::new_from_seed(seed, iters);
                        Runner::new(SpuriousBudget::new(s, spur), config()).run(f)
                    }
                    Sched::Pct(d) => {
                        let s = PctScheduler::new_from_seed(seed, d, iters);
                        Runner::new(SpuriousBudget::new(s, spur), config()).run(f)
                    }
                    Sched::Dfs => {
                        let s = DfsScheduler::new(Some(iters), false);
                        Runner::new(SpuriousBudget::new(s, spur), config()).run(f)
                    }
                }
            }))
            .map_err(payload_msg)
        })
        .expect("spawn runner");
    match h.join() {
        Ok(r) => r,
        Err(e) => Err(payload_msg(e)),
    }
}

fn replay(line: &str) -> String {
    let case = parse(line);
    let script = Arc::new(case.script);
    let panics = Arc::new(case.panics);
    let bombs = Arc::new(case.bombs);

    // Default: unbounded spurious wake-ups for the sampling schedulers (as in
    // shuttle), one per execution for the exhaustive one.
    let spur = case.spur.unwrap_or(if case.sched == Sched::Dfs { Some(1) } else { None });

    sched_std::clear_all();
    let mut all: Vec<Finished> = Vec::new();
    loop {
        let remaining = case.iters - all.len();
        if remaining == 0 {
            break;
        }
        // After a failed execution the random exploration goes on with a seed
        // derived from the number of schedules already run.  DFS would replay
        // the same prefix and the first schedule of PCT hardly depends on the
        // seed, so those two stop at their first failure.
        let seed = case.seed.wrapping_add(all.len() as u64);
        let r = run_chunk(case.sched, spur, seed, remaining, Arc::clone(&script), Arc::clone(&panics), Arc::clone(&bombs), case.vmode, case.smode, case.failspawn, case.rtype);
        // PCT refuses to go on when an execution had no scheduling step at all
        // ("test closure did not exercise any concurrency"): that is the end of
        // the exploration of a trivial script, not a failure of the pool.
        let trivial = matches!(&r, Err(m) if m.contains("did not exercise any concurrency"));
        let r: Result<usize, String> = if trivial { Ok(0) } else { r };
        let failure = r.as_ref().err().map(|m| classify(m));
        sched_std::finish(failure);
        let mut new = sched_std::take_finished();
        if new.is_empty() && failure.is_some() {
            new.push(Finished { events: Vec::new(), failure });
        }
        let progressed = !new.is_empty();
        all.extend(new);
        if r.is_ok() || case.sched != Sched::Random || !progressed {
            break;
        }
    }

    // Distinct traces in order of first occurrence.
    let mut index: HashMap<String, usize> = HashMap::new();
    let mut distinct: Vec<(usize, usize, String)> = Vec::new();
    for (i, f) in all.iter().enumerate() {
        let mut t = f.events.join(" ");
        if let Some(tag) = f.failure {
            t.push_str(" !");
            t.push_str(tag);
        }
        match index.get(&t) {
            Some(&k) => distinct[k].1 += 1,
            None => {
                index.insert(t.clone(), distinct.len());
                distinct.push((i, 1, t));
            }
        }
    }
    distinct
        .iter()
        .map(|(first, count, t)| format!("{first}*{count}:{t}"))
        .collect::<Vec<_>>()
        .join(" ## ")
}

fn dispatch(mode: &str, line: &str) -> String {
    match mode {
        "replay" | "c06" | "c07" => replay(line),
        _ => panic!("unknown mode {mode}"),
    }
}

fn main() {
    hxlib::run(dispatch);
}
