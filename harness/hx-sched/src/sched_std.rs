//! Drop-in replacement for the subset of `std` used by divan's
//! `util/thread/pool.rs` and `util/sync.rs`, built on the deterministic
//! scheduler `shuttle`, that records every protocol event of the pool in a
//! global trace.  The real standard library is always spelled `::std` here.
//!
//! All shuttle tasks of one execution run interleaved on ONE OS thread, so the
//! shim keeps plain data in `static`s behind a real `::std::sync::Mutex` and
//! never holds that mutex across a call into shuttle.
//!
//! Event grammar (`<t>` = acting thread: 0 = caller, k = k-th spawned worker):
//!
//! ```text
//! N.<v>          AtomicUsize::new(v)
//! L.<t>.<v|x>    AtomicUsize::load        (x: the atomic is dead/garbage -> blocks forever)
//! D.<t>.<old|x>  AtomicUsize::fetch_sub   (likewise)
//! I.<t>.<old|x>  AtomicUsize::fetch_add   (mutants only)
//! V.<t>.<v|x>    AtomicUsize::store       (mutants only)
//! H.<t>.<1|0|x>  Thread::clone  through an original / a clone / a dead handle
//! U.<t>.<1|0|x>  Thread::unpark through an original / a clone / a dead handle
//! P.<t>          park() returned and consumed our token
//! W.<t>          park() returned without token (spurious / stale shuttle token)
//! S.<k>          thread k spawned          E.<k>   thread k's closure returned
//! Q.<c>          send on channel c returned
//! R.<t>.<c>.<1|0|x>  recv on channel c returned Ok / Err / Ok with a task whose
//!                `TaskShared` header no longer matches what was sent (blocks forever)
//! A.<t>          process::abort() (blocks forever)
//! ```

#![allow(dead_code)]

use ::std::collections::{HashMap, VecDeque};
use ::std::sync::{Mutex as StdMutex, MutexGuard as StdGuard, PoisonError as StdPoison};

// ---------------------------------------------------------------------------
// Global state
// ---------------------------------------------------------------------------

/// Identifiers are offset by large magic numbers so that stale or overwritten
/// memory (small integers, pointers) is never mistaken for a live identifier.
const HID_BASE: usize = 0xA11C_E000_0000_0000;
const AID_BASE: usize = 0xA70B_1C00_0000_0000;

#[derive(Clone, Copy)]
struct HandleInfo {
    alive: bool,
    original: bool,
    tid: usize,
}

pub struct Finished {
    pub events: Vec<String>,
    pub failure: Option<&'static str>,
}

struct State {
    /// Events of the iteration in progress (None before the first `reset`).
    cur: Option<Vec<String>>,
    /// Completed iterations, oldest first.
    done: Vec<Finished>,

    // ---- per-iteration tables, cleared by `reset` ----
    task_to_tid: HashMap<usize, usize>,
    shuttle_threads: Vec<Option<shuttle::thread::Thread>>, // indexed by tid
    tokens: Vec<bool>,                                     // indexed by tid
    next_tid: usize,
    next_chan: usize,
    next_hid: usize,
    next_aid: usize,
    handles: HashMap<usize, HandleInfo>,
    atomics: HashMap<usize, bool>,
    joins: Vec<shuttle::thread::JoinHandle<()>>,
    /// Per channel: header snapshots of the tasks in flight.
    in_flight: HashMap<usize, VecDeque<Option<Vec<usize>>>>,
    /// Number of words of the closure stored behind the `TaskShared` header.
    closure_words: usize,
    /// Fault injection: the k-th thread creation of the iteration is refused.
    fail_spawn: Option<usize>,
    spawn_attempts: usize,
    spawn_failed: bool,
    /// The channel created last and not yet bound to a thread (pool.rs creates
    /// a thread's channel right before the thread).
    last_chan: Option<::std::sync::Arc<::std::sync::atomic::AtomicUsize>>,
}

/// Identifier of a channel whose thread was never created.
pub const DEAD_CHAN: usize = usize::MAX;

fn chan_str(c: usize) -> String {
    if c == DEAD_CHAN {
        "d".to_string()
    } else {
        c.to_string()
    }
}

impl State {
    fn clear_tables(&mut self) {
        self.task_to_tid.clear();
        self.shuttle_threads.clear();
        self.tokens.clear();
        self.next_tid = 1;
        self.next_chan = 1;
        self.next_hid = 1;
        self.next_aid = 1;
        self.handles.clear();
        self.atomics.clear();
        self.joins.clear();
        self.in_flight.clear();
        self.closure_words = 0;
        self.fail_spawn = None;
        self.spawn_attempts = 0;
        self.spawn_failed = false;
        self.last_chan = None;
    }
}

// `HashMap::new` is not const: the state is created lazily.
static STATE: StdMutex<Option<State>> = StdMutex::new(None);

fn with<R>(f: impl FnOnce(&mut State) -> R) -> R {
    let mut g: StdGuard<'_, Option<State>> = STATE.lock().unwrap_or_else(StdPoison::into_inner);
    if g.is_none() {
        *g = Some(State::new());
    }
    f(g.as_mut().unwrap())
}

impl State {
    fn new() -> Self {
        Self {
            cur: None,
            done: Vec::new(),
            task_to_tid: HashMap::new(),
            shuttle_threads: Vec::new(),
            tokens: Vec::new(),
            next_tid: 1,
            next_chan: 1,
            next_hid: 1,
            next_aid: 1,
            handles: HashMap::new(),
            atomics: HashMap::new(),
            joins: Vec::new(),
            in_flight: HashMap::new(),
            closure_words: 0,
            fail_spawn: None,
            spawn_attempts: 0,
            spawn_failed: false,
            last_chan: None,
        }
    }
}

/// Appends an event to the trace of the running iteration.
pub fn log(ev: String) {
    with(|s| s.cur.get_or_insert_with(Vec::new).push(ev));
}

/// Starts a new iteration: archives the trace of the previous one, clears all
/// tables and registers the calling shuttle task as thread 0.
pub fn reset() {
    let me = shuttle::thread::current();
    let task = usize::from(me.id());
    // Stale join handles of a failed execution are plain data (no Drop impl).
    with(|s| {
        if let Some(events) = s.cur.take() {
            s.done.push(Finished { events, failure: None });
        }
        s.clear_tables();
        s.cur = Some(Vec::new());
        s.task_to_tid.insert(task, 0);
        s.shuttle_threads.push(Some(me));
        s.tokens.push(false);
    });
}

/// Archives the trace of the iteration in progress (if any) with a failure tag.
pub fn finish(failure: Option<&'static str>) {
    with(|s| {
        if let Some(events) = s.cur.take() {
            s.done.push(Finished { events, failure });
        }
        s.clear_tables();
    });
}

/// Takes all archived iterations.
pub fn take_finished() -> Vec<Finished> {
    with(|s| ::std::mem::take(&mut s.done))
}

/// Forgets everything (start of a case line).
pub fn clear_all() {
    with(|s| {
        s.cur = None;
        s.done.clear();
        s.clear_tables();
    });
}

/// Declares how many machine words of closure state follow the five header
/// words of `TaskShared` (validated by `Receiver::recv`).
pub fn set_closure_words(n: usize) {
    with(|s| s.closure_words = n);
}

/// Arms the fault "the k-th thread creation of this iteration is refused"
/// (call after `reset`).
pub fn set_fail_spawn(k: Option<usize>) {
    with(|s| s.fail_spawn = k);
}

/// Was a thread creation refused since the last call?
pub fn take_spawn_failed() -> bool {
    with(|s| ::std::mem::replace(&mut s.spawn_failed, false))
}

/// Is the counter of the `b`-th task block of this iteration still alive?
pub fn block_alive(b: usize) -> bool {
    with(|s| s.atomics.get(&(AID_BASE + b)).copied().unwrap_or(false))
}

/// Thread number of the acting shuttle task.
pub fn tid() -> usize {
    let task = usize::from(shuttle::thread::current().id());
    with(|s| s.task_to_tid.get(&task).copied()).unwrap_or(usize::MAX)
}

fn tid_str() -> String {
    let t = tid();
    if t == usize::MAX {
        "?".to_string()
    } else {
        t.to_string()
    }
}

/// Blocks the acting task for ever; the execution then ends in shuttle's
/// deadlock report.  Never unwinds.
pub fn block_forever() -> ! {
    loop {
        let (tx, rx) = shuttle::sync::mpsc::channel::<()>();
        ::std::mem::forget(tx);
        let _ = rx.recv();
        ::std::mem::forget(rx);
    }
}

/// Joins every thread spawned through `thread::Builder` in this iteration.
pub fn join_all() {
    loop {
        let hs = with(|s| ::std::mem::take(&mut s.joins));
        if hs.is_empty() {
            break;
        }
        for h in hs {
            let _ = h.join();
        }
    }
}

// ---------------------------------------------------------------------------
// Pass-through modules
// ---------------------------------------------------------------------------

pub mod num {
    pub use ::std::num::*;
}
pub mod ptr {
    pub use ::std::ptr::*;
}
pub mod mem {
    pub use ::std::mem::*;
}
pub mod ops {
    pub use ::std::ops::*;
}
pub mod panic {
    pub use ::std::panic::*;
}

pub mod process {
    /// Logs `A.<tid>` and blocks for ever; never really aborts.
    pub fn abort() -> ! {
        super::log(format!("A.{}", super::tid_str()));
        super::block_forever()
    }
}

// ---------------------------------------------------------------------------
// sync
// ---------------------------------------------------------------------------

pub mod sync {
    pub use ::std::sync::PoisonError;
    pub use shuttle::sync::{Mutex, MutexGuard};

    pub mod mpsc {
        use super::super::{block_forever, chan_str, log, tid_str, with};
        pub use ::std::sync::mpsc::{RecvError, SendError};

        use ::std::sync::atomic::{AtomicUsize as StdAtomicUsize, Ordering as StdOrdering};
        use ::std::sync::Arc;

        /// The identifier of a channel is the number of the thread that owns
        /// its receiving end; it is bound when that thread is created (pool.rs
        /// creates the channel right before the thread).  A channel whose
        /// thread creation was refused is `d` (dead).
        pub struct SyncSender<T> {
            inner: shuttle::sync::mpsc::SyncSender<T>,
            id: Arc<StdAtomicUsize>,
        }

        pub struct Receiver<T> {
            inner: shuttle::sync::mpsc::Receiver<T>,
            id: Arc<StdAtomicUsize>,
        }

        pub fn sync_channel<T>(bound: usize) -> (SyncSender<T>, Receiver<T>) {
            let (tx, rx) = shuttle::sync::mpsc::sync_channel::<T>(bound);
            let id = Arc::new(StdAtomicUsize::new(0));
            with(|s| {
                s.next_chan += 1;
                s.last_chan = Some(Arc::clone(&id));
            });
            (SyncSender { inner: tx, id: Arc::clone(&id) }, Receiver { inner: rx, id })
        }

        /// Header words of `TaskShared` that never change during a broadcast:
        /// `main_thread.{hid,tid}`, `ref_count.id`, `task_fn_ptr` (word 3 is
        /// the counter value).  Only applies to the pool's `Task` message.
        const HEADER: [usize; 4] = [0, 1, 2, 4];
        const HEADER_WORDS: usize = 5;

        fn task_ptr<T>(t: &T) -> Option<*const usize> {
            use ::std::mem::{align_of, size_of, transmute_copy};
            if size_of::<T>() != size_of::<usize>()
                || align_of::<T>() != align_of::<usize>()
                || !::std::any::type_name::<T>().ends_with("::Task")
            {
                return None;
            }
            // SAFETY: `T` is the pool's `Task { shared: NonNull<_> }`.
            let p: usize = unsafe { transmute_copy(t) };
            if p == 0 || p % align_of::<usize>() != 0 {
                return None;
            }
            Some(p as *const usize)
        }

        /// Reads the invariant words of the `TaskShared` at `p`.  The memory
        /// is a slot of the caller's coroutine stack, which stays mapped for
        /// the whole execution.
        fn snapshot(p: *const usize, closure_words: usize) -> Vec<usize> {
            let mut v = Vec::with_capacity(HEADER.len() + closure_words);
            for &w in HEADER.iter() {
                v.push(unsafe { p.add(w).read_volatile() });
            }
            for w in 0..closure_words {
                v.push(unsafe { p.add(HEADER_WORDS + w).read_volatile() });
            }
            v
        }

        impl<T> SyncSender<T> {
            pub fn send(&self, t: T) -> Result<(), SendError<T>> {
                let c = self.id.load(StdOrdering::Relaxed);
                let snap = task_ptr(&t).map(|p| {
                    let n = with(|s| s.closure_words);
                    snapshot(p, n)
                });
                with(|s| s.in_flight.entry(c).or_default().push_back(snap));
                let r = self.inner.send(t);
                // Shuttle's rendezvous send returns as soon as the message is
                // handed over, before the receiver runs.  A real `send` may
                // return arbitrarily later than the matching `recv`: let the
                // scheduler interleave here so that both orders of `Q` and `R`
                // are explored.
                shuttle_engine::runtime::thread::switch();
                if r.is_err() {
                    with(|s| {
                        s.in_flight.entry(c).or_default().pop_back();
                    });
                    // the receiving end is gone
                    log(format!("Q.{}.e", chan_str(c)));
                    return r;
                }
                log(format!("Q.{}", chan_str(c)));
                r
            }
        }

        impl<T> Receiver<T> {
            pub fn recv(&self) -> Result<T, RecvError> {
                let c = self.id.load(StdOrdering::Relaxed);
                let r = self.inner.recv();
                match &r {
                    Ok(t) => {
                        let sent = with(|s| s.in_flight.entry(c).or_default().pop_front()).flatten();
                        let intact = match (sent, task_ptr(t)) {
                            (Some(sent), Some(p)) => {
                                let n = sent.len() - HEADER.len();
                                snapshot(p, n) == sent
                            }
                            _ => true,
                        };
                        if !intact {
                            log(format!("R.{}.{c}.x", tid_str()));
                            block_forever();
                        }
                        log(format!("R.{}.{c}.1", tid_str()));
                    }
                    Err(_) => log(format!("R.{}.{c}.0", tid_str())),
                }
                r
            }
        }
    }

    pub mod atomic {
        use super::super::{block_forever, log, tid_str, with, AID_BASE};
        use ::std::cell::UnsafeCell;
        pub use ::std::sync::atomic::{
            AtomicBool, AtomicI16, AtomicI32, AtomicI64, AtomicI8, AtomicIsize, AtomicU16,
            AtomicU32, AtomicU64, AtomicU8, Ordering,
        };
        use shuttle_engine::runtime::thread::switch;

        /// Plain-old-data counter with a liveness entry in a global table.
        /// The memory orderings are ignored: every access is a scheduling
        /// point and all tasks share one OS thread.
        #[repr(C)]
        pub struct AtomicUsize {
            id: usize,
            val: UnsafeCell<usize>,
        }

        unsafe impl Sync for AtomicUsize {}
        unsafe impl Send for AtomicUsize {}

        impl AtomicUsize {
            pub fn new(v: usize) -> Self {
                let id = with(|s| {
                    let id = AID_BASE + s.next_aid;
                    s.next_aid += 1;
                    s.atomics.insert(id, true);
                    id
                });
                log(format!("N.{v}"));
                Self { id, val: UnsafeCell::new(v) }
            }

            #[inline(never)]
            fn alive(&self) -> bool {
                // The object may be dead memory: read it as raw words.
                let id = unsafe { (self as *const Self as *const usize).read_volatile() };
                with(|s| s.atomics.get(&id).copied().unwrap_or(false))
            }

            fn get(&self) -> usize {
                unsafe { self.val.get().read_volatile() }
            }

            fn set(&self, v: usize) {
                unsafe { self.val.get().write_volatile(v) }
            }

            fn dead(&self, tag: char) -> ! {
                log(format!("{tag}.{}.x", tid_str()));
                block_forever()
            }

            pub fn load(&self, _order: Ordering) -> usize {
                switch();
                if !self.alive() {
                    self.dead('L');
                }
                let v = self.get();
                log(format!("L.{}.{v}", tid_str()));
                v
            }

            pub fn store(&self, v: usize, _order: Ordering) {
                switch();
                if !self.alive() {
                    self.dead('V');
                }
                self.set(v);
                log(format!("V.{}.{v}", tid_str()));
            }

            pub fn fetch_sub(&self, n: usize, _order: Ordering) -> usize {
                switch();
                if !self.alive() {
                    self.dead('D');
                }
                let old = self.get();
                self.set(old.wrapping_sub(n));
                log(format!("D.{}.{old}", tid_str()));
                old
            }

            pub fn fetch_add(&self, n: usize, _order: Ordering) -> usize {
                switch();
                if !self.alive() {
                    self.dead('I');
                }
                let old = self.get();
                self.set(old.wrapping_add(n));
                log(format!("I.{}.{old}", tid_str()));
                old
            }
        }

        impl Drop for AtomicUsize {
            fn drop(&mut self) {
                let id = self.id;
                with(|s| {
                    if let Some(a) = s.atomics.get_mut(&id) {
                        *a = false;
                    }
                });
            }
        }
    }
}

// ---------------------------------------------------------------------------
// thread
// ---------------------------------------------------------------------------

pub mod thread {
    use super::{block_forever, log, tid, tid_str, with, HandleInfo, HID_BASE};

    /// Our own thread handle: plain-old-data, liveness and provenance
    /// (original = returned by `current()`, or clone) kept in a global table.
    #[repr(C)]
    pub struct Thread {
        hid: usize,
        tid: usize,
    }

    fn new_handle(tid: usize, original: bool) -> Thread {
        let hid = with(|s| {
            let hid = HID_BASE + s.next_hid;
            s.next_hid += 1;
            s.handles.insert(hid, HandleInfo { alive: true, original, tid });
            hid
        });
        Thread { hid, tid }
    }

    impl Thread {
        #[inline(never)]
        fn info(&self) -> Option<HandleInfo> {
            // The handle may be dead memory: read it as a raw word.
            let hid = unsafe { (self as *const Self as *const usize).read_volatile() };
            with(|s| s.handles.get(&hid).copied()).filter(|h| h.alive)
        }

        pub fn unpark(&self) {
            // Scheduling point before the handle is touched: the window
            // between the worker's `fetch_sub` and its `unpark` is real.
            shuttle_engine::runtime::thread::switch();
            let Some(info) = self.info() else {
                log(format!("U.{}.x", tid_str()));
                block_forever();
            };
            log(format!("U.{}.{}", tid_str(), info.original as u8));
            let target = with(|s| {
                if let Some(t) = s.tokens.get_mut(info.tid) {
                    *t = true;
                }
                s.shuttle_threads.get(info.tid).cloned().flatten()
            });
            if let Some(t) = target {
                t.unpark();
            }
        }
    }

    impl Clone for Thread {
        fn clone(&self) -> Self {
            // Scheduling point before the handle in the task block is read.
            shuttle_engine::runtime::thread::switch();
            let Some(info) = self.info() else {
                log(format!("H.{}.x", tid_str()));
                block_forever();
            };
            log(format!("H.{}.{}", tid_str(), info.original as u8));
            new_handle(info.tid, false)
        }
    }

    impl Drop for Thread {
        fn drop(&mut self) {
            let hid = self.hid;
            with(|s| {
                if let Some(h) = s.handles.get_mut(&hid) {
                    h.alive = false;
                }
            });
        }
    }

    pub fn current() -> Thread {
        new_handle(tid(), true)
    }

    pub fn park() {
        shuttle::thread::park();
        let me = tid();
        let had_token = with(|s| match s.tokens.get_mut(me) {
            Some(t) => ::std::mem::replace(t, false),
            None => false,
        });
        if had_token {
            log(format!("P.{}", tid_str()));
        } else {
            log(format!("W.{}", tid_str()));
        }
    }

    pub struct JoinHandle<T>(::std::marker::PhantomData<T>);

    pub struct Builder {
        name: Option<String>,
    }

    impl Builder {
        pub fn new() -> Self {
            Self { name: None }
        }

        pub fn name(mut self, name: String) -> Self {
            self.name = Some(name);
            self
        }

        pub fn spawn<F, T>(self, f: F) -> ::std::io::Result<JoinHandle<T>>
        where
            F: FnOnce() -> T + Send + 'static,
            T: Send + 'static,
        {
            // Fault injection: this creation is refused.  The closure (and with
            // it the receiving end of the thread's channel) is dropped.
            let refused = with(|s| {
                s.spawn_attempts += 1;
                if s.fail_spawn == Some(s.spawn_attempts) {
                    s.spawn_failed = true;
                    if let Some(id) = s.last_chan.take() {
                        id.store(super::DEAD_CHAN, ::std::sync::atomic::Ordering::Relaxed);
                    }
                    Some(s.spawn_attempts)
                } else {
                    None
                }
            });
            if let Some(a) = refused {
                log(format!("F.{a}"));
                drop(f);
                return Err(::std::io::Error::new(::std::io::ErrorKind::Other, "thread creation refused (injected)"));
            }
            let k = with(|s| {
                let k = s.next_tid;
                s.next_tid += 1;
                while s.tokens.len() <= k {
                    s.tokens.push(false);
                    s.shuttle_threads.push(None);
                }
                if let Some(id) = s.last_chan.take() {
                    id.store(k, ::std::sync::atomic::Ordering::Relaxed);
                }
                k
            });
            log(format!("S.{k}"));
            let mut b = shuttle::thread::Builder::new();
            if let Some(n) = self.name {
                b = b.name(n);
            }
            let body = move || {
                // Registered by the parent as well; whoever comes first.
                let me = shuttle::thread::current();
                let task = usize::from(me.id());
                with(|s| {
                    s.task_to_tid.insert(task, k);
                    s.shuttle_threads[k] = Some(me);
                });
                let _ = f();
                log(format!("E.{k}"));
            };
            let h = b.spawn(body)?;
            let th = h.thread().clone();
            let task = usize::from(th.id());
            with(|s| {
                s.task_to_tid.insert(task, k);
                s.shuttle_threads[k] = Some(th);
                s.joins.push(h);
            });
            Ok(JoinHandle(::std::marker::PhantomData))
        }
    }
}
