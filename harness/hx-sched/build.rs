//! Copies divan's real thread pool (and its two helpers) VERBATIM into OUT_DIR,
//! prefixed by `use crate::sched_std as std;`, so that `src/main.rs` can compile
//! them against the deterministic scheduler through the `sched_std` shim.

use std::{env, fs, path::PathBuf};

/// Identical copy of `defer` of `/repo/src/util/mod.rs`, used only if the
/// extraction from the repository fails.
const DEFER_FALLBACK: &str = r#"pub(crate) fn defer<F: FnOnce()>(f: F) -> impl Drop {
    struct Defer<F: FnOnce()>(ManuallyDrop<F>);

    impl<F: FnOnce()> Drop for Defer<F> {
        #[inline]
        fn drop(&mut self) {
            let f = unsafe { ManuallyDrop::take(&mut self.0) };

            f();
        }
    }

    Defer(ManuallyDrop::new(f))
}
"#;

const PRELUDE: &str = "use crate::sched_std as std;\n";

fn extract_defer(src: &str) -> Option<String> {
    let mut out = String::new();
    let mut inside = false;
    for line in src.lines() {
        if !inside && line.starts_with("pub(crate) fn defer") {
            inside = true;
        }
        if inside {
            out.push_str(line);
            out.push('\n');
            if line == "}" {
                return Some(out);
            }
        }
    }
    None
}

fn main() {
    let repo = env::var("VERIF_REPO").unwrap_or_else(|_| "/repo".to_string());
    let out = PathBuf::from(env::var("OUT_DIR").expect("OUT_DIR"));
    let pool = format!("{repo}/src/util/thread/pool.rs");
    let sync = format!("{repo}/src/util/sync.rs");
    let util = format!("{repo}/src/util/mod.rs");

    println!("cargo:rerun-if-env-changed=VERIF_REPO");
    println!("cargo:rerun-if-changed=build.rs");
    for p in [&pool, &sync, &util] {
        println!("cargo:rerun-if-changed={p}");
    }

    // pool.rs: verbatim, one prepended line.
    let pool_src = fs::read_to_string(&pool).unwrap_or_else(|e| panic!("{pool}: {e}"));
    fs::write(out.join("pool.rs"), format!("{PRELUDE}{pool_src}")).unwrap();

    // sync.rs: verbatim except the inner doc comments / inner attributes, which
    // may not follow an item.
    let sync_src = fs::read_to_string(&sync).unwrap_or_else(|e| panic!("{sync}: {e}"));
    let mut s = String::from(PRELUDE);
    for line in sync_src.lines() {
        let t = line.trim_start();
        if t.starts_with("//!") || t.starts_with("#![") {
            s.push('\n'); // keep the line numbers aligned (+1 for the prelude)
            continue;
        }
        s.push_str(line);
        s.push('\n');
    }
    fs::write(out.join("sync.rs"), s).unwrap();

    // defer: extracted text of the function, `ManuallyDrop` imported by the
    // enclosing `mod util` of main.rs.
    let defer = fs::read_to_string(&util)
        .ok()
        .and_then(|src| extract_defer(&src))
        .unwrap_or_else(|| {
            println!("cargo:warning=hx-sched: `defer` not found in {util}, using the embedded copy");
            DEFER_FALLBACK.to_string()
        });
    fs::write(out.join("defer.rs"), defer).unwrap();
}
