//! Shared boilerplate of the harness binaries: a line loop that reads one case
//! per line on stdin, calls `dispatch(mode, line)` under `catch_unwind` and
//! prints one canonical result line per case (`panic <Kind>` for a panic).

use std::io::{self, BufRead, Write};
use std::panic::{catch_unwind, AssertUnwindSafe};

pub fn run(dispatch: impl Fn(&str, &str) -> String) {
    let mode = std::env::args().nth(1).expect("mode");
    // Silence panic messages; panics are outcomes.
    std::panic::set_hook(Box::new(|_| {}));
    let stdin = io::stdin();
    let stdout = io::stdout();
    let mut out = io::BufWriter::new(stdout.lock());
    for line in stdin.lock().lines() {
        let line = line.expect("line");
        if line.is_empty() || line.starts_with('#') {
            continue;
        }
        let res = catch_unwind(AssertUnwindSafe(|| dispatch(&mode, &line)));
        match res {
            Ok(s) => writeln!(out, "{s}").unwrap(),
            Err(e) => writeln!(out, "panic {}", classify_panic(panic_msg(&e))).unwrap(),
        }
        out.flush().unwrap();
    }
}

pub fn panic_msg(e: &Box<dyn std::any::Any + Send>) -> &str {
    e.downcast_ref::<String>()
        .map(|s| s.as_str())
        .or_else(|| e.downcast_ref::<&str>().copied())
        .unwrap_or("?")
}

/// Maps a panic message to the model's `panic` enum (Base/Res.v).
pub fn classify_panic(msg: &str) -> &'static str {
    if msg.contains("divide by zero") {
        "DivByZero"
    } else if msg.contains("overflow") {
        "Overflow"
    } else if msg.contains("total order") {
        "NotTotalOrder"
    } else if msg.contains("None") {
        "UnwrapNone"
    } else if msg.contains("out of range") || msg.contains("out of bounds") {
        "OutOfBounds"
    } else {
        "Other"
    }
}

pub fn toks(line: &str) -> Vec<&str> {
    line.split(' ').collect()
}

/// Deterministic PRNG (splitmix64) for harness-side choices.
pub struct Rng(pub u64);
impl Rng {
    pub fn next(&mut self) -> u64 {
        self.0 = self.0.wrapping_add(0x9E3779B97F4A7C15);
        let mut z = self.0;
        z = (z ^ (z >> 30)).wrapping_mul(0xBF58476D1CE4E5B9);
        z = (z ^ (z >> 27)).wrapping_mul(0x94D049BB133111EB);
        z ^ (z >> 31)
    }
    pub fn below(&mut self, n: u64) -> u64 {
        if n == 0 { 0 } else { self.next() % n }
    }
}
