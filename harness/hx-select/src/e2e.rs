//! A small real benchmark binary for the end-to-end streams of C13 and C15:
//! every benchmarked function logs `RAN <full display path>` to stderr each
//! time it is called, so the set (C13) and number (C15) of calls is observable.
//! The paths written in the tags are what the property says the display path
//! of that case is (crate `hx_select_e2e`).
//!
//! The runner level can also be set by builder calls: `HX_BUILDER` holds
//! `;`-separated calls (`sample_count=3`, `sample_size=2`, `threads=1,2`,
//! `skip_exact=PATH`, `skip_regex=PAT`, `skip_regex_i|m|s|U=PAT` (pre-built
//! Regex with a RegexBuilder flag), `run_ignored`, `run_only_ignored`,
//! `items_count=N`, `bytes_count=N`, `skip_ext_time=true|false`,
//! `bytes_format=binary|decimal`) applied before (`pre:` prefix) or after
//! (`post:` prefix, the default) `config_with_args`.
use divan::Divan;

fn ran(tag: &str) {
    eprintln!("RAN {tag}");
}

// ---------------------------------------------------------------- C13 -------
mod sel {
    use super::ran;

    #[divan::bench]
    fn top() {
        ran("hx_select_e2e::sel::top")
    }

    #[divan::bench(name = "renamed")]
    fn orig() {
        ran("hx_select_e2e::sel::renamed")
    }

    #[divan::bench(args = [1, 2, 10])]
    fn with_args(n: u32) {
        ran(&format!("hx_select_e2e::sel::with_args::{n}"))
    }

    #[divan::bench(args = ["x", "y", "top"])]
    fn str_args(s: &str) {
        ran(&format!("hx_select_e2e::sel::str_args::{s}"))
    }

    #[divan::bench(args = [])]
    fn no_args(n: u32) {
        ran(&format!("hx_select_e2e::sel::no_args::{n}"))
    }

    #[divan::bench(types = [i32, String])]
    fn gen_ty<T: Default + 'static>() {
        let t = std::any::type_name::<T>().rsplit("::").next().unwrap();
        ran(&format!("hx_select_e2e::sel::gen_ty::{t}"))
    }

    #[divan::bench(consts = [1, 8, 10])]
    fn gen_const<const N: usize>() {
        ran(&format!("hx_select_e2e::sel::gen_const::{N}"))
    }

    #[divan::bench(types = [i32, u8], consts = [2, 4])]
    fn both<T: 'static, const N: usize>() {
        let t = std::any::type_name::<T>();
        ran(&format!("hx_select_e2e::sel::both::{t}::{N}"))
    }

    #[divan::bench(types = [i32, u8], args = [3, 4])]
    fn ty_args<T: 'static>(n: u32) {
        let t = std::any::type_name::<T>();
        ran(&format!("hx_select_e2e::sel::ty_args::{t}::{n}"))
    }

    // Names with commas (and spaces): a two-parameter generic type, tuple
    // arguments, a string argument and a custom name.
    pub struct Pair<A, B>(std::marker::PhantomData<(A, B)>);

    pub trait PairTag {
        const TAG: &'static str;
    }
    impl PairTag for Pair<u8, u8> {
        const TAG: &'static str = "Pair<u8, u8>";
    }
    impl PairTag for Pair<u8, i8> {
        const TAG: &'static str = "Pair<u8, i8>";
    }

    #[divan::bench(types = [Pair<u8, u8>, Pair<u8, i8>])]
    fn pair<T: PairTag + 'static>() {
        ran(&format!("hx_select_e2e::sel::pair::{}", T::TAG))
    }

    #[divan::bench(args = [(1, 2), (1, 3), (2, 2)])]
    fn tuple(t: (i32, i32)) {
        ran(&format!("hx_select_e2e::sel::tuple::({}, {})", t.0, t.1))
    }

    #[divan::bench(args = ["a,b", "a", "b", "a, b"])]
    fn comma_str(s: &str) {
        ran(&format!("hx_select_e2e::sel::comma_str::{s}"))
    }

    #[divan::bench(name = "x, y")]
    fn named_comma() {
        ran("hx_select_e2e::sel::x, y")
    }

    // Display names that are legitimate paths but not valid regexes (only
    // `--exact` can name them literally).
    #[divan::bench(name = "tok(")]
    fn tok_paren() {
        ran("hx_select_e2e::sel::tok(")
    }

    #[divan::bench(name = "[")]
    fn bracket() {
        ran("hx_select_e2e::sel::[")
    }

    #[divan::bench(name = "C:\\dir")]
    fn backslash() {
        ran("hx_select_e2e::sel::C:\\dir")
    }

    // A function and a sibling group module with the same identifier; the
    // module holds generic benchmarks only (they register after the plain
    // ones) and overrides its display name.
    #[divan::bench]
    fn fast() {
        ran("hx_select_e2e::sel::fast")
    }

    #[divan::bench_group(name = "quick")]
    pub mod fast {
        use super::ran;

        #[divan::bench(types = [i32, u8])]
        fn gen<T: 'static>() {
            let t = std::any::type_name::<T>();
            ran(&format!("hx_select_e2e::sel::quick::gen::{t}"))
        }
    }

    // Generic over a type AND a const, with non-primitive types: the type
    // level of the path is the type's display name (module path stripped up
    // to the first generic boundary).
    pub struct Square;

    pub trait ShapeTag {
        const TAG: &'static str;
    }
    impl ShapeTag for String {
        const TAG: &'static str = "String";
    }
    impl ShapeTag for Square {
        const TAG: &'static str = "Square";
    }
    impl ShapeTag for Vec<String> {
        const TAG: &'static str = "Vec<alloc::string::String>";
    }

    #[divan::bench(types = [String, Square, Vec<String>], consts = [1, 2])]
    fn shape<T: ShapeTag + 'static, const N: usize>() {
        ran(&format!("hx_select_e2e::sel::shape::{}::{N}", T::TAG))
    }

    // Argument lists with equal labels: the same value twice, and distinct
    // values whose Display is lossy. Every slot is a case of its own.
    #[divan::bench(args = [7, 8, 7])]
    fn dup_args(n: u32) {
        ran(&format!("hx_select_e2e::sel::dup_args::{n}"))
    }

    pub struct Lossy(pub u32);
    impl std::fmt::Display for Lossy {
        fn fmt(&self, f: &mut std::fmt::Formatter<'_>) -> std::fmt::Result {
            write!(f, "{}", self.0 / 10)
        }
    }

    #[divan::bench(args = [Lossy(10), Lossy(25), Lossy(11), Lossy(12)])]
    fn lossy(x: &Lossy) {
        ran(&format!("hx_select_e2e::sel::lossy::{x}"))
    }

    // Nested generic arguments and non-path types: the label strips the module
    // path in front of the OUTER type only; inner paths stay qualified, and a
    // type that is not a path (a reference) keeps its full name.
    pub trait NestTag {
        const TAG: &'static str;
    }
    impl NestTag for Option<u8> {
        const TAG: &'static str = "Option<u8>";
    }
    impl NestTag for Vec<Option<u8>> {
        const TAG: &'static str = "Vec<core::option::Option<u8>>";
    }
    impl NestTag for Vec<u8> {
        const TAG: &'static str = "Vec<u8>";
    }
    impl NestTag for std::collections::HashMap<u64, Vec<u8>> {
        const TAG: &'static str = "HashMap<u64, alloc::vec::Vec<u8>>";
    }
    impl NestTag for String {
        const TAG: &'static str = "String";
    }
    impl NestTag for &'static String {
        const TAG: &'static str = "&alloc::string::String";
    }

    #[divan::bench(types = [Option<u8>, Vec<Option<u8>>, Vec<u8>, std::collections::HashMap<u64, Vec<u8>>])]
    fn nest<T: NestTag + 'static>() {
        ran(&format!("hx_select_e2e::sel::nest::{}", T::TAG))
    }

    #[divan::bench(types = [Vec<Option<u8>>, Option<u8>], consts = [1, 2])]
    fn nestc<T: NestTag + 'static, const N: usize>() {
        ran(&format!("hx_select_e2e::sel::nestc::{}::{N}", T::TAG))
    }

    #[divan::bench(types = [String, &'static String])]
    fn refs<T: NestTag + 'static>() {
        ran(&format!("hx_select_e2e::sel::refs::{}", T::TAG))
    }

    // Renamed GENERIC functions: the `name = ".."` of a generic benchmark is
    // carried by the group entry the macro makes for it.
    #[divan::bench(types = [u8, u16], name = "renamed_ty")]
    fn original_ty<T: 'static>() {
        ran(&format!("hx_select_e2e::sel::renamed_ty::{}", std::any::type_name::<T>()))
    }

    #[divan::bench(consts = [3, 4], name = "renamed_const")]
    fn original_const<const N: usize>() {
        ran(&format!("hx_select_e2e::sel::renamed_const::{N}"))
    }

    #[divan::bench(types = [u8, i64], consts = [5, 6], name = "renamed_both")]
    fn original_both<T: 'static, const N: usize>() {
        ran(&format!("hx_select_e2e::sel::renamed_both::{}::{N}", std::any::type_name::<T>()))
    }

    pub mod alpha {
        use super::ran;

        #[divan::bench]
        fn a() {
            ran("hx_select_e2e::sel::alpha::a")
        }

        pub mod beta {
            use super::ran;

            #[divan::bench]
            fn a() {
                ran("hx_select_e2e::sel::alpha::beta::a")
            }

            #[divan::bench(args = [0, 5])]
            fn b(n: u32) {
                ran(&format!("hx_select_e2e::sel::alpha::beta::b::{n}"))
            }
        }
    }

    #[divan::bench_group(name = "Grp")]
    pub mod grp {
        use super::ran;

        #[divan::bench]
        fn inner() {
            ran("hx_select_e2e::sel::Grp::inner")
        }

        #[divan::bench_group]
        pub mod sub {
            use super::ran;

            #[divan::bench(name = "top")]
            fn x() {
                ran("hx_select_e2e::sel::Grp::sub::top")
            }
        }
    }

    pub mod r#type {
        use super::ran;

        #[divan::bench]
        fn r#loop() {
            ran("hx_select_e2e::sel::type::loop")
        }
    }
}

// ---------------------------------------------------------------- C15 -------
// Every level sets a different subset of the options; the tag of a case is its
// path, the harness counts the calls.
mod opt {
    use super::ran;

    /// nothing set at any level below the runner
    #[divan::bench]
    fn plain() {
        ran("hx_select_e2e::opt::plain")
    }

    #[divan::bench(sample_count = 2, sample_size = 3)]
    fn own() {
        ran("hx_select_e2e::opt::own")
    }

    #[divan::bench(threads = [1, 2])]
    fn thr() {
        ran("hx_select_e2e::opt::thr")
    }

    #[divan::bench(threads = [2, 1, 2, 1])]
    fn thr_dup() {
        ran("hx_select_e2e::opt::thr_dup")
    }

    #[divan::bench(threads = false)]
    fn thr_false() {
        ran("hx_select_e2e::opt::thr_false")
    }

    #[divan::bench]
    #[ignore]
    fn ign() {
        ran("hx_select_e2e::opt::ign")
    }

    #[divan::bench(ignore = false)]
    fn ign_false() {
        ran("hx_select_e2e::opt::ign_false")
    }

    /// time budget: set at the benchmark, overridable from the runner
    #[divan::bench(max_time = 100, sample_count = 2, sample_size = 2)]
    fn mx() {
        ran("hx_select_e2e::opt::mx")
    }

    #[divan::bench_group(max_time = 0)]
    pub mod g0 {
        use super::ran;

        /// inherits a zero budget: never called
        #[divan::bench(sample_count = 2, sample_size = 1)]
        fn inherit0() {
            ran("hx_select_e2e::opt::g0::inherit0")
        }

        /// the benchmark's own budget wins over the group's
        #[divan::bench(max_time = 50, sample_count = 2, sample_size = 1)]
        fn mx_over() {
            ran("hx_select_e2e::opt::g0::mx_over")
        }
    }

    #[divan::bench_group(counters = [divan::counter::ItemsCount::new(4u64)], sample_count = 1, sample_size = 1)]
    pub mod gc {
        use super::ran;

        #[divan::bench]
        fn inherit_items() {
            ran("hx_select_e2e::opt::gc::inherit_items")
        }

        /// another kind added at the benchmark: both kinds are in effect
        #[divan::bench(bytes_count = 2u64)]
        fn plus_bytes() {
            ran("hx_select_e2e::opt::gc::plus_bytes")
        }
    }

    // Groups on raw-identifier modules: the group's raw name keeps the `r#`
    // (that is what `insert_group` matches against the module path), the
    // display name drops it.
    #[divan::bench_group(sample_count = 3, sample_size = 2)]
    pub mod r#match {
        use super::ran;

        /// both from the group on `mod r#match`
        #[divan::bench]
        fn inherit() {
            ran("hx_select_e2e::opt::match::inherit")
        }

        #[divan::bench(sample_size = 4)]
        fn size4() {
            ran("hx_select_e2e::opt::match::size4")
        }
    }

    pub mod outer {
        #[divan::bench_group(sample_count = 2, sample_size = 3)]
        pub mod r#loop {
            use super::super::ran;

            #[divan::bench]
            fn inherit() {
                ran("hx_select_e2e::opt::outer::loop::inherit")
            }
        }
    }

    #[divan::bench_group(sample_count = 1, sample_size = 1)]
    #[ignore]
    pub mod r#where {
        use super::ran;

        #[divan::bench]
        fn inherit() {
            ran("hx_select_e2e::opt::where::inherit")
        }

        #[divan::bench(ignore = false)]
        fn unignored() {
            ran("hx_select_e2e::opt::where::unignored")
        }
    }

    /// name-value form of the attribute
    #[divan::bench(sample_count = 1, sample_size = 1)]
    #[ignore = "too slow for a default run"]
    fn ign_reason() {
        ran("hx_select_e2e::opt::ign_reason")
    }

    #[divan::bench_group(sample_count = 1, sample_size = 1)]
    #[ignore = "whole group needs hardware"]
    pub mod gi {
        use super::ran;

        #[divan::bench]
        fn inherit() {
            ran("hx_select_e2e::opt::gi::inherit")
        }

        #[divan::bench(ignore = false)]
        fn unignored() {
            ran("hx_select_e2e::opt::gi::unignored")
        }

        /// sets another option, not `ignore`: still ignored through the group
        #[divan::bench(sample_count = 2)]
        fn counted() {
            ran("hx_select_e2e::opt::gi::counted")
        }

        /// a nested group that sets other options only
        #[divan::bench_group(sample_size = 3, threads = 1)]
        pub mod inner {
            use super::ran;

            #[divan::bench]
            fn deep() {
                ran("hx_select_e2e::opt::gi::inner::deep")
            }

            #[divan::bench(sample_count = 1, ignore = false)]
            fn deep_unignored() {
                ran("hx_select_e2e::opt::gi::inner::deep_unignored")
            }
        }
    }

    // A group whose module chain holds no compiled benchmark (everything below
    // `platform::linux` is "cfg'ed out") stays out of the tree; it must not
    // lend its options to the unrelated `io` module next to `platform`.
    pub mod platform {
        pub mod linux {
            #[divan::bench_group(sample_count = 7, sample_size = 7, threads = [1, 2])]
            #[ignore]
            pub mod io {}
        }
    }

    pub mod io {
        use super::ran;

        /// nothing set at any enclosing level
        #[divan::bench]
        fn read() {
            ran("hx_select_e2e::opt::io::read")
        }
    }

    // A function and a same-named group module with several benchmarks, in
    // both declaration orders: every benchmark of the module is below the
    // module's group.
    #[divan::bench(sample_count = 1, sample_size = 1)]
    fn sort() {
        ran("hx_select_e2e::opt::sort")
    }

    #[divan::bench_group(sample_count = 5, sample_size = 2)]
    pub mod sort {
        use super::ran;

        #[divan::bench]
        fn a() {
            ran("hx_select_e2e::opt::sort::a")
        }

        #[divan::bench]
        fn b() {
            ran("hx_select_e2e::opt::sort::b")
        }

        #[divan::bench(sample_size = 3)]
        fn c() {
            ran("hx_select_e2e::opt::sort::c")
        }
    }

    #[divan::bench_group(sample_count = 6, sample_size = 1, threads = [1, 2])]
    pub mod tros {
        use super::ran;

        #[divan::bench]
        fn a() {
            ran("hx_select_e2e::opt::tros::a")
        }

        #[divan::bench]
        fn b() {
            ran("hx_select_e2e::opt::tros::b")
        }

        #[divan::bench(threads = 1)]
        fn c() {
            ran("hx_select_e2e::opt::tros::c")
        }
    }

    #[divan::bench(sample_count = 2, sample_size = 2)]
    fn tros() {
        ran("hx_select_e2e::opt::tros")
    }

    // More function + same-named group-module pairs: whether the function's
    // leaf is registered ahead of the module's benchmarks is the linker's
    // choice, so several pairs make "some pair has the leaf first" likely in
    // any build (HX_DUMP_ORDER prints the registration order).
    macro_rules! same_named_pair {
        ($name:ident, $count:literal, $path:literal) => {
            #[divan::bench(sample_count = 1, sample_size = 1)]
            fn $name() {
                ran(concat!("hx_select_e2e::opt::", $path))
            }

            #[divan::bench_group(sample_count = $count, sample_size = 2)]
            pub mod $name {
                use super::ran;

                #[divan::bench]
                fn a() {
                    ran(concat!("hx_select_e2e::opt::", $path, "::a"))
                }

                #[divan::bench]
                fn b() {
                    ran(concat!("hx_select_e2e::opt::", $path, "::b"))
                }

                #[divan::bench]
                fn c() {
                    ran(concat!("hx_select_e2e::opt::", $path, "::c"))
                }
            }
        };
    }
    same_named_pair!(pa, 3, "pa");
    same_named_pair!(pb, 4, "pb");
    same_named_pair!(pc, 5, "pc");
    same_named_pair!(pd, 6, "pd");
    same_named_pair!(pe, 7, "pe");
    same_named_pair!(pf, 8, "pf");

    #[divan::bench_group(sample_count = 4, sample_size = 2)]
    pub mod g1 {
        use super::ran;

        /// inherits both from g1
        #[divan::bench]
        fn inherit() {
            ran("hx_select_e2e::opt::g1::inherit")
        }

        /// overrides one field, inherits the other
        #[divan::bench(sample_size = 5)]
        fn size5() {
            ran("hx_select_e2e::opt::g1::size5")
        }

        #[divan::bench_group(sample_count = 3, threads = [1, 2])]
        pub mod g2 {
            use super::ran;

            /// count from g2, size from g1, threads from g2
            #[divan::bench]
            fn inherit() {
                ran("hx_select_e2e::opt::g1::g2::inherit")
            }

            /// threads overridden at the benchmark
            #[divan::bench(threads = 1)]
            fn one_thread() {
                ran("hx_select_e2e::opt::g1::g2::one_thread")
            }

            #[divan::bench_group(sample_size = 1)]
            #[ignore]
            pub mod g3 {
                use super::ran;

                /// count g2, size g3, threads g2, ignore g3
                #[divan::bench]
                fn inherit() {
                    ran("hx_select_e2e::opt::g1::g2::g3::inherit")
                }

                /// un-ignored at the benchmark
                #[divan::bench(ignore = false, threads = 1, sample_count = 1)]
                fn unignored() {
                    ran("hx_select_e2e::opt::g1::g2::g3::unignored")
                }
            }
        }

        /// a module without group attribute in between
        pub mod plainmod {
            use super::ran;

            #[divan::bench(sample_count = 1)]
            fn count1() {
                ran("hx_select_e2e::opt::g1::plainmod::count1")
            }
        }
    }
}

// ------------------------------------------------- C15, coarse timing -------
// `skip_ext_time` made visible without a clock: the input generator sleeps
// HX_SLEEP_MS (set to 50 by the stream that uses this module, 0 otherwise), the
// budget is 100 ms and 6 samples of one iteration are requested. If time
// external to the benchmarked function is skipped all 6 samples are taken;
// if it counts, the budget is used up after 2 (sleeps only overshoot: 1-3).
mod tim {
    use super::ran;
    use divan::Bencher;

    fn slow_input() -> u8 {
        let ms: u64 = std::env::var("HX_SLEEP_MS").ok().and_then(|s| s.parse().ok()).unwrap_or(0);
        if ms > 0 {
            std::thread::sleep(std::time::Duration::from_millis(ms));
        }
        0
    }

    #[divan::bench(skip_ext_time = true, max_time = 0.1, sample_count = 6, sample_size = 1)]
    fn ext(bencher: Bencher) {
        bencher.with_inputs(slow_input).bench_values(|x| {
            ran("hx_select_e2e::tim::ext");
            x
        })
    }

    /// unset at every level: the default (false) applies
    #[divan::bench(max_time = 0.1, sample_count = 6, sample_size = 1)]
    fn noext(bencher: Bencher) {
        bencher.with_inputs(slow_input).bench_values(|x| {
            ran("hx_select_e2e::tim::noext");
            x
        })
    }

    #[divan::bench_group(skip_ext_time = true, max_time = 0.1, sample_count = 6, sample_size = 1)]
    pub mod gse {
        use super::{ran, slow_input};
        use divan::Bencher;

        #[divan::bench]
        fn inherit(bencher: Bencher) {
            bencher.with_inputs(slow_input).bench_values(|x| {
                ran("hx_select_e2e::tim::gse::inherit");
                x
            })
        }

        #[divan::bench(skip_ext_time = false)]
        fn off(bencher: Bencher) {
            bencher.with_inputs(slow_input).bench_values(|x| {
                ran("hx_select_e2e::tim::gse::off");
                x
            })
        }
    }

    /// a bytes throughput row: `MB/s` (decimal) or `MiB/s` (binary)
    #[divan::bench(bytes_count = 4096u64, sample_count = 1, sample_size = 1)]
    fn bytes() {
        ran("hx_select_e2e::tim::bytes")
    }
}

// Floor and ceiling made visible by coarse timing (sleeps only when
// HX_SLEEP_MS is set): `floor` asks for one sample of a 2 ms call, so it is
// called again only if a time floor is in force (50 ms floor: about 25 calls);
// `ceil` asks for 40 samples of a 2 ms call (80 ms), so it records fewer than
// 40 only if a ceiling below that is in force.
mod lim {
    use super::ran;

    fn nap(ms: u64) {
        if std::env::var("HX_SLEEP_MS").map(|s| s != "0").unwrap_or(false) {
            std::thread::sleep(std::time::Duration::from_millis(ms));
        }
    }

    #[divan::bench(sample_count = 1, sample_size = 1)]
    fn floor() {
        ran("hx_select_e2e::lim::floor");
        nap(2)
    }

    #[divan::bench(sample_count = 40, sample_size = 1)]
    fn ceil() {
        ran("hx_select_e2e::lim::ceil");
        nap(2)
    }
}

fn apply(mut d: Divan, call: &str) -> Divan {
    let (name, val) = call.split_once('=').unwrap_or((call, ""));
    match name {
        "sample_count" => d.sample_count(val.parse().unwrap()),
        "sample_size" => d.sample_size(val.parse().unwrap()),
        "threads" => d.threads(val.split(',').filter(|s| !s.is_empty()).map(|s| s.parse::<usize>().unwrap())),
        "skip_exact" => d.skip_exact(val),
        "skip_regex" => d.skip_regex(val),
        // pre-built `Regex` values with `RegexBuilder` flags (not part of the pattern text)
        "skip_regex_i" => d.skip_regex(regex_lite::RegexBuilder::new(val).case_insensitive(true).build().unwrap()),
        "skip_regex_m" => d.skip_regex(regex_lite::RegexBuilder::new(val).multi_line(true).build().unwrap()),
        "skip_regex_s" => d.skip_regex(regex_lite::RegexBuilder::new(val).dot_matches_new_line(true).build().unwrap()),
        "skip_regex_U" => d.skip_regex(regex_lite::RegexBuilder::new(val).swap_greed(true).build().unwrap()),
        "color" => d.color(match val {
            "auto" => None,
            "always" => Some(true),
            _ => Some(false),
        }),
        "run_ignored" => d.run_ignored(),
        "run_only_ignored" => d.run_only_ignored(),
        "items_count" => d.items_count(val.parse::<u64>().unwrap()),
        "bytes_count" => d.bytes_count(val.parse::<u64>().unwrap()),
        "skip_ext_time" => d.skip_ext_time(val == "true"),
        "bytes_format" => d.bytes_format(if val == "binary" {
            divan::counter::BytesFormat::Binary
        } else {
            divan::counter::BytesFormat::Decimal
        }),
        "chars_count" => d.chars_count(val.parse::<u64>().unwrap()),
        "cycles_count" => d.cycles_count(val.parse::<u64>().unwrap()),
        "min_time_ns" => d.min_time(std::time::Duration::from_nanos(val.parse().unwrap())),
        "max_time_ns" => d.max_time(std::time::Duration::from_nanos(val.parse().unwrap())),
        "min_time" => d.min_time(std::time::Duration::from_secs_f64(val.parse().unwrap())),
        "max_time" => d.max_time(std::time::Duration::from_secs_f64(val.parse().unwrap())),
        "" => {
            d = d;
            d
        }
        other => panic!("unknown builder call {other}"),
    }
}

fn main() {
    if std::env::var_os("HX_DUMP_ORDER").is_some() {
        // registration order of the plain benchmarks (what `run_action` iterates)
        for e in divan::__private::BENCH_ENTRIES.iter() {
            println!("{}::{}", e.meta.module_path, e.meta.raw_name);
        }
        return;
    }
    let spec = std::env::var("HX_BUILDER").unwrap_or_default();
    let mut d = Divan::default();
    let calls: Vec<&str> = spec.split(';').filter(|s| !s.is_empty()).collect();
    for c in &calls {
        if let Some(c) = c.strip_prefix("pre:") {
            d = apply(d, c);
        }
    }
    d = d.config_with_args();
    for c in &calls {
        if !c.starts_with("pre:") {
            d = apply(d, c.strip_prefix("post:").unwrap_or(c));
        }
    }
    if std::env::var_os("HX_DUMP_RUNNER").is_some() {
        // The runner-level options as resolved from builder calls, flags and
        // DIVAN_* variables (hook `runner_options`), and the limits the loop reads.
        println!("{}", show_runner(&d));
        // The scalar settings (hook `runner_config`) and the runner's filter set
        // evaluated on the paths of HX_PATHS (`\u{1f}`-separated).
        println!("{}", divan::__verif::runner_config(&d));
        let paths = std::env::var("HX_PATHS").unwrap_or_default();
        let bits: String = paths
            .split('\u{1f}')
            .map(|p| if divan::__verif::runner_filter_is_match(&d, p) { '1' } else { '0' })
            .collect();
        println!("{bits}");
        return;
    }
    d.main();
}

fn show_runner(d: &Divan) -> String {
    use divan::__verif as v;
    fn opt<T: ToString>(k: &str, val: Option<T>) -> String {
        match val {
            Some(x) => format!("{k}={}", x.to_string()),
            None => format!("{k}=-"),
        }
    }
    let o = v::runner_options(d);
    let th = o.threads.as_deref().map(|l| l.iter().map(|n| n.to_string() + ".").collect::<String>());
    let (min_picos, max_picos) = v::options_time_limits(o);
    [
        opt("sc", o.sample_count),
        opt("ss", o.sample_size),
        opt("th", th),
        opt("mn", o.min_time.map(|d| d.as_nanos())),
        opt("mx", o.max_time.map(|d| d.as_nanos())),
        opt("se", o.skip_ext_time.map(|b| b as u8)),
        opt("ig", o.ignore.map(|b| b as u8)),
        opt("cb", v::options_counter(o, 0)),
        opt("cc", v::options_counter(o, 1)),
        opt("cy", v::options_counter(o, 2)),
        opt("ci", v::options_counter(o, 3)),
        format!("#N {min_picos} {max_picos}"),
    ]
    .join(" ")
}
