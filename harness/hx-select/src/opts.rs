//! C15 streams at the function level: `ovw` resolves a stack of option levels
//! with the crate's `BenchOptions::overwrite` (descent as in `run_tree`, runner
//! over entry as in `run_bench_entry`) and optionally runs a `Bencher` over
//! the result to see the counters it holds after a `Bencher::counter` call;
//! `into` runs `IntoThreads::into_threads`.
use std::borrow::Cow;
use std::time::Duration;

use divan::__private::{BenchOptions, IntoThreads};
use divan::__verif as v;
use divan::counter::{BytesCount, CharsCount, CyclesCount, ItemsCount};

use crate::{section, sections};

pub fn parse_level(spec: &str) -> Option<BenchOptions<'static>> {
    if spec == "-" {
        return None;
    }
    let mut o = BenchOptions::default();
    for kv in spec.split(',').filter(|s| !s.is_empty()) {
        let (k, val) = kv.split_once('=').expect("k=v");
        match k {
            "sc" => o.sample_count = Some(val.parse().unwrap()),
            "ss" => o.sample_size = Some(val.parse().unwrap()),
            "th" => {
                let l: Vec<usize> = val.split('.').filter(|s| !s.is_empty()).map(|s| s.parse().unwrap()).collect();
                o.threads = Some(Cow::Owned(l));
            }
            "mn" => o.min_time = Some(Duration::from_nanos(val.parse().unwrap())),
            "mx" => o.max_time = Some(Duration::from_nanos(val.parse().unwrap())),
            "se" => o.skip_ext_time = Some(val == "1"),
            "ig" => o.ignore = Some(val == "1"),
            "cb" => {
                o.counters.insert(BytesCount::new(val.parse::<u64>().unwrap()));
            }
            "cc" => {
                o.counters.insert(CharsCount::new(val.parse::<u64>().unwrap()));
            }
            "cy" => {
                o.counters.insert(CyclesCount::new(val.parse::<u64>().unwrap()));
            }
            "ci" => {
                o.counters.insert(ItemsCount::new(val.parse::<u64>().unwrap()));
            }
            other => panic!("bad field {other}"),
        }
    }
    Some(o)
}

fn show_opt<T: ToString>(k: &str, val: Option<T>) -> String {
    match val {
        Some(x) => format!("{k}={}", x.to_string()),
        None => format!("{k}=-"),
    }
}

pub fn show(o: &BenchOptions) -> String {
    let th = o.threads.as_deref().map(|l| l.iter().map(|n| n.to_string() + ".").collect::<String>());
    [
        show_opt("sc", o.sample_count),
        show_opt("ss", o.sample_size),
        show_opt("th", th),
        show_opt("mn", o.min_time.map(|d| d.as_nanos())),
        show_opt("mx", o.max_time.map(|d| d.as_nanos())),
        show_opt("se", o.skip_ext_time.map(|b| b as u8)),
        show_opt("ig", o.ignore.map(|b| b as u8)),
        show_opt("cb", v::options_counter(o, 0)),
        show_opt("cc", v::options_counter(o, 1)),
        show_opt("cy", v::options_counter(o, 2)),
        show_opt("ci", v::options_counter(o, 3)),
    ]
    .join(" ")
}

/// `#L G:.. G:.. B:.. R:.. [#C kind=value]` -> resolved options [`#K` counters held by the Bencher]
pub fn ovw(line: &str) -> String {
    let secs = sections(line);
    let mut groups: Vec<Option<BenchOptions<'static>>> = Vec::new();
    let mut bench = None;
    let mut runner = BenchOptions::default();
    for tok in section(&secs, "L") {
        let (kind, spec) = tok.split_once(':').expect("level");
        match kind {
            "G" => groups.push(parse_level(spec)),
            "B" => bench = parse_level(spec),
            "R" => runner = parse_level(spec).unwrap_or_default(),
            other => panic!("bad level {other}"),
        }
    }
    // `run_tree`: child over parent while descending; the benchmark is the last child.
    let levels: Vec<&Option<BenchOptions<'static>>> = groups.iter().chain(std::iter::once(&bench)).collect();
    let mut acc: Option<BenchOptions> = None;
    for child in levels {
        acc = match (acc, child.as_ref()) {
            (None, None) => None,
            (Some(p), None) => Some(p),
            (None, Some(c)) => Some(c.clone()),
            (Some(p), Some(c)) => {
                // The result borrows from both; detach it so the loop can go on.
                let r = v::options_overwrite(c, &p);
                Some(detach(&r))
            }
        };
    }
    // `run_bench_entry`: runner over entry.
    let resolved: BenchOptions = match &acc {
        None => runner.clone(),
        Some(e) => detach(&v::options_overwrite(&runner, e)),
    };
    let mut out = show(&resolved);
    let c = section(&secs, "C");
    if let Some(tok) = c.first() {
        let (k, val) = tok.split_once('=').expect("counter");
        let n: u64 = val.parse().unwrap();
        let kind = k.to_owned();
        let dump = v::run_bencher(
            &v::RunConfig { options: &resolved, threads: 1, is_test: true, tsc_frequency: None, compute_stats: false },
            &move |b| match kind.as_str() {
                "cb" => b.counter(BytesCount::new(n)).bench(|| ()),
                "cc" => b.counter(CharsCount::new(n)).bench(|| ()),
                "cy" => b.counter(CyclesCount::new(n)).bench(|| ()),
                "ci" => b.counter(ItemsCount::new(n)).bench(|| ()),
                other => panic!("bad counter {other}"),
            },
        );
        out.push_str(" #K");
        for (name, counts) in ["cb", "cc", "cy", "ci"].iter().zip(dump.counts.iter()) {
            out.push_str(&format!(" {name}={}", counts.iter().map(|c| c.to_string() + ".").collect::<String>()));
        }
    }
    out
}

/// A deep copy with an owned thread list.
pub fn detach(o: &BenchOptions) -> BenchOptions<'static> {
    BenchOptions {
        sample_count: o.sample_count,
        sample_size: o.sample_size,
        threads: o.threads.as_deref().map(|l| Cow::Owned(l.to_vec())),
        counters: o.counters.clone(),
        min_time: o.min_time,
        max_time: o.max_time,
        skip_ext_time: o.skip_ext_time,
        ignore: o.ignore,
    }
}

/// `v n n n` (iterable), `u n` (usize), `b 0|1` (bool) -> normalised list
pub fn into(line: &str) -> String {
    let t: Vec<&str> = line.split(' ').collect();
    let r: Cow<'static, [usize]> = match t[0] {
        "v" => IntoThreads::into_threads(t[1..].iter().map(|s| s.parse::<usize>().unwrap()).collect::<Vec<usize>>()),
        "u" => IntoThreads::into_threads(t[1].parse::<usize>().unwrap()),
        "b" => IntoThreads::into_threads(t[1] == "1"),
        other => panic!("bad kind {other}"),
    };
    r.iter().map(|n| n.to_string() + ".").collect::<String>() + "|"
}

/// `label text` (U+2423 = space; the text may be empty) -> `ok secs nanos` | `rejected`
pub fn psec(line: &str) -> String {
    let text = line.split_once(' ').map(|(_, t)| t).unwrap_or("").replace('\u{2423}', " ");
    match v::parse_seconds(&text) {
        Some(d) => format!("ok {} {}", d.as_secs(), d.subsec_nanos()),
        None => "rejected".to_owned(),
    }
}
