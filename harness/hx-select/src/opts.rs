//! C15 streams (filled in below).
pub fn ovw(_line: &str) -> String {
    unimplemented!()
}
