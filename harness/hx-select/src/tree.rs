//! C13 `retain` stream: hand-made `BenchEntry` / `GroupEntry` /
//! `GenericBenchEntry` values (built the way the attribute macros build them,
//! leaked to get `'static`), handed to `tree_dump`, which builds the tree
//! exactly as `Divan::run_action` does and applies `EntryTree::retain`.
use std::sync::Mutex;

use divan::__private::{
    BenchArgs, BenchEntry, BenchEntryRunner, EntryConst, EntryLocation, EntryMeta, EntryType,
    GenericBenchEntry, GroupEntry,
};
use divan::__verif as v;
use divan::Bencher;

use crate::{bits, parse_op, section, sections, truth_table};

// ---- argument-list runners -------------------------------------------------
// `BenchEntryRunner::Args` holds a plain `fn() -> BenchArgsRunner`, so the
// argument names of the case at hand are passed through per-slot globals.
const SLOTS: usize = 64;

struct Slot {
    bench_args: Option<&'static BenchArgs>,
    names: Vec<String>,
}

static SLOT_TABLE: Mutex<Vec<Slot>> = Mutex::new(Vec::new());

fn slot_runner<const I: usize>() -> BenchEntryRunner {
    BenchEntryRunner::Args(|| {
        let (bench_args, names) = {
            let table = SLOT_TABLE.lock().unwrap();
            (table[I].bench_args.expect("slot"), table[I].names.clone())
        };
        bench_args.runner(|| names, |s: &String| s.clone(), |_b: Bencher, _a: &String| {})
    })
}

macro_rules! slot_fns {
    ($($i:literal)*) => { [$(slot_runner::<$i> as fn() -> BenchEntryRunner),*] };
}

static SLOT_FNS: [fn() -> BenchEntryRunner; SLOTS] = slot_fns!(
    0 1 2 3 4 5 6 7 8 9 10 11 12 13 14 15 16 17 18 19 20 21 22 23 24 25 26 27 28 29 30 31
    32 33 34 35 36 37 38 39 40 41 42 43 44 45 46 47 48 49 50 51 52 53 54 55 56 57 58 59 60 61 62 63
);

struct SlotAlloc(usize);

impl SlotAlloc {
    fn runner(&mut self, names: &[&str]) -> BenchEntryRunner {
        let i = self.0;
        assert!(i < SLOTS, "too many argument lists in one case");
        self.0 += 1;
        let mut table = SLOT_TABLE.lock().unwrap();
        while table.len() <= i {
            table.push(Slot { bench_args: None, names: vec![] });
        }
        table[i] = Slot {
            bench_args: Some(Box::leak(Box::new(BenchArgs::new()))),
            names: names.iter().map(|s| s.to_string()).collect(),
        };
        SLOT_FNS[i]()
    }
}

fn plain(_: Bencher) {}

fn leak(s: &str) -> &'static str {
    Box::leak(s.to_owned().into_boxed_str())
}

fn meta(module_path: &str, raw: &str, disp: &str, line: u32) -> EntryMeta {
    EntryMeta {
        display_name: leak(disp),
        raw_name: leak(raw),
        module_path: leak(module_path),
        location: EntryLocation { file: "hx.rs", line, col: 1 },
        bench_options: None,
    }
}

// ---- generic types -----------------------------------------------------------
pub mod deep {
    pub mod er {
        pub struct Ty;
        pub struct Gen<T>(pub T);
    }
}

fn entry_type(i: usize) -> EntryType {
    match i {
        0 => EntryType::new::<i32>(),
        1 => EntryType::new::<String>(),
        2 => EntryType::new::<Vec<u8>>(),
        3 => EntryType::new::<&'static str>(),
        4 => EntryType::new::<Option<String>>(),
        5 => EntryType::new::<deep::er::Ty>(),
        6 => EntryType::new::<deep::er::Gen<deep::er::Ty>>(),
        _ => EntryType::new::<()>(),
    }
}

/// Builds the entries of section `E`.
fn build(tokens: &[&str]) -> (Vec<&'static BenchEntry>, Vec<&'static GroupEntry>) {
    let mut benches = Vec::new();
    let mut groups = Vec::new();
    let mut slots = SlotAlloc(0);
    for (n, tok) in tokens.iter().enumerate() {
        let f: Vec<&str> = tok.split('/').collect();
        let line = n as u32 + 1;
        match f[0] {
            "b" => {
                let bench = if f.len() > 4 {
                    assert_eq!(f[4], "A");
                    slots.runner(&f[5..])
                } else {
                    BenchEntryRunner::Plain(plain)
                };
                benches.push(&*Box::leak(Box::new(BenchEntry { meta: meta(f[1], f[2], f[3], line), bench })));
            }
            "g" => {
                if f.len() > 4 {
                    assert_eq!(f[4], "X");
                    // The group the generic entries point to and the group that
                    // lists them carry the same meta (the macro uses one item).
                    let inner: &'static GroupEntry =
                        Box::leak(Box::new(GroupEntry { meta: meta(f[1], f[2], f[3], line), generic_benches: None }));
                    let mut gens = Vec::new();
                    for g in &f[5..] {
                        let p: Vec<&str> = g.split('~').collect();
                        let ty = if p[0] == "-" { None } else { Some(entry_type(p[0].parse().unwrap())) };
                        let const_value = if p[1] == "-" {
                            None
                        } else {
                            let s: &'static String = Box::leak(Box::new(p[1][1..].to_owned()));
                            Some(EntryConst::new(s))
                        };
                        let bench = if p.len() > 2 {
                            assert_eq!(p[2], "A");
                            slots.runner(&p[3..])
                        } else {
                            BenchEntryRunner::Plain(plain)
                        };
                        gens.push(GenericBenchEntry { group: inner, bench, ty, const_value });
                    }
                    let gens: &'static [GenericBenchEntry] = Box::leak(gens.into_boxed_slice());
                    let outer: &'static [&'static [GenericBenchEntry]] = Box::leak(vec![gens].into_boxed_slice());
                    groups.push(&*Box::leak(Box::new(GroupEntry {
                        meta: meta(f[1], f[2], f[3], line),
                        generic_benches: Some(outer),
                    })));
                } else {
                    groups.push(&*Box::leak(Box::new(GroupEntry {
                        meta: meta(f[1], f[2], f[3], line),
                        generic_benches: None,
                    })));
                }
            }
            other => panic!("bad entry kind {other}"),
        }
    }
    (benches, groups)
}

/// `depth \t kind \t name [\t A \t arg..]` -> `depth/P|L/name[/A/arg..]`
fn tokens_of_dump(dump: &[String]) -> Vec<String> {
    dump.iter()
        .map(|l| {
            let mut f: Vec<&str> = l.split('\t').collect();
            if f[1] == "G" {
                f[1] = "P";
            }
            f.join("/")
        })
        .collect()
}

/// Every node path and every argument path of the dumped tree, built with the
/// documented rule (`parent::child`, no separator under an empty parent path).
fn candidate_paths(dump: &[String]) -> Vec<String> {
    let mut out = Vec::new();
    let mut stack: Vec<String> = Vec::new(); // stack[d] = path of the open node at depth d
    for l in dump {
        let f: Vec<&str> = l.split('\t').collect();
        let depth: usize = f[0].parse().unwrap();
        stack.truncate(depth);
        let parent = stack.last().map(|s| s.as_str()).unwrap_or("");
        let path = if parent.is_empty() { f[2].to_owned() } else { format!("{parent}::{}", f[2]) };
        out.push(path.clone());
        if f.len() > 3 {
            for a in &f[4..] {
                out.push(format!("{path}::{a}"));
            }
        }
        stack.push(path);
    }
    out.sort();
    out.dedup();
    out
}

/// `#E entries.. #F ops..` -> `K kept.. #U unfiltered.. #Q ?paths.. #T rows.. #M bits`
pub fn retain(line: &str) -> String {
    let secs = sections(line);
    let ops: Vec<_> = section(&secs, "F").into_iter().map(parse_op).collect();
    let (benches, groups) = build(&section(&secs, "E"));
    let unfiltered = v::tree_dump(&benches, &groups, None, None);
    let fs = v::VerifFilterSet::new(&ops);
    let mut filter = |p: &str| fs.is_match(p);
    let kept = v::tree_dump(&benches, &groups, Some(&mut filter), None);
    let paths = candidate_paths(&unfiltered);
    let mut s = String::from("K");
    for t in tokens_of_dump(&kept) {
        s.push(' ');
        s.push_str(&t);
    }
    s.push_str(" #U");
    for t in tokens_of_dump(&unfiltered) {
        s.push(' ');
        s.push_str(&t);
    }
    s.push_str(" #Q");
    for p in &paths {
        s.push_str(" ?");
        s.push_str(p);
    }
    s.push_str(" #T ");
    s.push_str(&truth_table(&ops, &paths));
    s.push_str(" #M ");
    s.push_str(&bits(paths.iter().map(|p| fs.is_match(p))));
    s
}

/// C15 `tb` stream: plain benchmarks and groups registered in the GIVEN order
/// (`#E b/<module path>/<raw>/<display>/<options|-> .. g/..` — benchmarks are
/// handed to the tree in their order, then the groups in theirs, as
/// `run_action` does), the tree built by the crate (`tree_dump`), and the
/// options every benchmark resolves to when the tree is walked: the groups
/// above it (as attached by the crate) through the crate's `overwrite`.
/// Display names are unique per case (they identify the entries in the dump).
pub fn tb(line: &str) -> String {
    use std::collections::HashMap;
    let secs = sections(line);
    let mut benches = Vec::new();
    let mut groups = Vec::new();
    let mut opts: HashMap<String, Option<divan::__private::BenchOptions<'static>>> = HashMap::new();
    for (n, tok) in section(&secs, "E").iter().enumerate() {
        let f: Vec<&str> = tok.split('/').collect();
        let line_no = n as u32 + 1;
        opts.insert(f[3].to_owned(), crate::opts::parse_level(f[4]));
        match f[0] {
            "b" => benches.push(&*Box::leak(Box::new(BenchEntry {
                meta: meta(f[1], f[2], f[3], line_no),
                bench: BenchEntryRunner::Plain(plain),
            }))),
            "g" => groups.push(&*Box::leak(Box::new(GroupEntry { meta: meta(f[1], f[2], f[3], line_no), generic_benches: None }))),
            other => panic!("bad entry kind {other}"),
        }
    }
    let runner = section(&secs, "R").first().and_then(|s| crate::opts::parse_level(s)).unwrap_or_default();
    let dump = v::tree_dump(&benches, &groups, None, None);
    let mut out = String::from("D");
    for l in &dump {
        out.push(' ');
        out.push_str(&l.split('\t').collect::<Vec<_>>().join("/"));
    }
    out.push_str(" #O");
    // walk the dump: stack of the options inherited at each depth
    let mut stack: Vec<Option<divan::__private::BenchOptions<'static>>> = Vec::new();
    for l in &dump {
        let f: Vec<&str> = l.split('\t').collect();
        let depth: usize = f[0].parse().unwrap();
        stack.truncate(depth);
        let parent = stack.last().cloned().flatten();
        let own = if f[1] == "P" { None } else { opts.get(f[2]).cloned().flatten() };
        let here = match (parent, own) {
            (None, None) => None,
            (Some(p), None) => Some(p),
            (None, Some(c)) => Some(c),
            (Some(p), Some(c)) => Some(crate::opts::detach(&v::options_overwrite(&c, &p))),
        };
        if f[1] == "L" {
            let resolved = match &here {
                None => runner.clone(),
                Some(e) => crate::opts::detach(&v::options_overwrite(&runner, e)),
            };
            out.push(' ');
            out.push_str(f[2]);
            out.push(':');
            out.push_str(&crate::opts::show(&resolved).replace(' ', ","));
        }
        stack.push(here);
    }
    out
}
