//! Harness driving the real crate (built from /repo's working tree with
//! `--cfg divan_verif`): one mode per stream of the correspondence check.
//!
//! C13: `ismatch` (FilterSet built by an arbitrary interleaving of
//! include/exclude, queried on paths), `retain` (EntryTree built exactly as
//! the runner does from hand-made entries, then `retain`ed with the real
//! filter set), `oracle` (regex truth table for the end-to-end stream).
//! C15: `ovw` (BenchOptions::overwrite chains), see `opts.rs`.
use divan::__verif as v;

mod opts;
mod tree;

/// `+r:PAT` include regex, `-e:PAT` exclude exact, ...
pub fn parse_op(tok: &str) -> (bool, bool, &str) {
    let b = tok.as_bytes();
    assert!(b.len() >= 3 && b[2] == b':', "bad op {tok}");
    let inclusive = match b[0] {
        b'+' => true,
        b'-' => false,
        _ => panic!("bad op {tok}"),
    };
    let exact = match b[1] {
        b'e' => true,
        b'r' => false,
        _ => panic!("bad op {tok}"),
    };
    (inclusive, exact, &tok[3..])
}

/// Splits a line into `#X`-introduced sections of space-separated tokens.
pub fn sections(line: &str) -> Vec<(&str, Vec<&str>)> {
    let mut out: Vec<(&str, Vec<&str>)> = vec![("", vec![])];
    for tok in line.split(' ') {
        if tok.is_empty() {
            continue;
        }
        if tok.len() == 2 && tok.starts_with('#') {
            out.push((&tok[1..], vec![]));
        } else {
            out.last_mut().unwrap().1.push(tok);
        }
    }
    out
}

pub fn section<'a>(secs: &[(&'a str, Vec<&'a str>)], name: &str) -> Vec<&'a str> {
    secs.iter().find(|(n, _)| *n == name).map(|(_, v)| v.clone()).unwrap_or_default()
}

pub fn bits(bs: impl IntoIterator<Item = bool>) -> String {
    let s: String = bs.into_iter().map(|b| if b { '1' } else { '0' }).collect();
    if s.is_empty() {
        "-".to_owned()
    } else {
        s
    }
}

/// One row per filter op: regex ops evaluated by the crate's engine on every
/// path, exact ops `x` (the model decides those by string equality itself).
pub fn truth_table(ops: &[(bool, bool, &str)], paths: &[String]) -> String {
    let mut rows = Vec::new();
    for &(_, exact, pat) in ops {
        if exact {
            rows.push("x".to_owned());
        } else {
            rows.push(bits(paths.iter().map(|p| v::regex_is_match(pat, p))));
        }
    }
    rows.join(" ")
}

/// `#F ops.. #Q ?path..` -> `r <bits> #T rows..`
fn ismatch(line: &str) -> String {
    let secs = sections(line);
    let ops: Vec<_> = section(&secs, "F").into_iter().map(parse_op).collect();
    let paths: Vec<String> = section(&secs, "Q").into_iter().map(|p| p[1..].to_owned()).collect();
    let fs = v::VerifFilterSet::new(&ops);
    let r = bits(paths.iter().map(|p| fs.is_match(p)));
    format!("r {r} #T {}", truth_table(&ops, &paths))
}

/// `#P k:pat.. #Q ?path..` -> `#T rows..`; `k` = `r` (plain `Regex::new`, through the crate's hook) or a
/// `RegexBuilder` flag: `i` case_insensitive, `m` multi_line, `s` dot_matches_new_line, `U` swap_greed.
fn oracle(line: &str) -> String {
    let secs = sections(line);
    // U+2423 stands for a space inside a pattern or path (names of the real
    // benchmark binary contain spaces: `Pair<u8, u8>`, `(1, 2)`).
    let unsp = |s: &str| s.replace('\u{2423}', " ");
    let paths: Vec<String> = section(&secs, "Q").into_iter().map(|p| unsp(&p[1..])).collect();
    let mut rows = Vec::new();
    for tok in section(&secs, "P") {
        let (kind, pat) = (&tok[..1], unsp(&tok[2..]));
        if kind == "r" {
            rows.push(bits(paths.iter().map(|p| v::regex_is_match(&pat, p))));
        } else {
            let mut b = regex_lite::RegexBuilder::new(&pat);
            match kind {
                "i" => b.case_insensitive(true),
                "m" => b.multi_line(true),
                "s" => b.dot_matches_new_line(true),
                "U" => b.swap_greed(true),
                other => panic!("bad regex kind {other}"),
            };
            let re = b.build().expect("regex");
            rows.push(bits(paths.iter().map(|p| re.is_match(p))));
        }
    }
    format!("#T {}", rows.join(" "))
}

fn dispatch(mode: &str, line: &str) -> String {
    match mode {
        "ismatch" => ismatch(line),
        "oracle" => oracle(line),
        // what std says this (possibly confined) process may use: the meaning of a thread count of 0
        "par" => std::thread::available_parallelism().map(|n| n.get()).unwrap_or(1).to_string(),
        "retain" => tree::retain(line),
        "tb" => tree::tb(line),
        "ovw" => opts::ovw(line),
        "into" => opts::into(line),
        "psec" => opts::psec(line),
        _ => panic!("unknown mode {mode}"),
    }
}

fn main() {
    hxlib::run(dispatch);
}
