use divan::__verif as v;
use std::time::Duration;

use crate::toks;

pub fn tsc(line: &str) -> String {
    let t = toks(line);
    let a: u64 = t[0].parse().unwrap();
    let b: u64 = t[1].parse().unwrap();
    let f: u64 = t[2].parse().unwrap();
    // duration from `a` (earlier) to `b` (later)
    format!("ok {}", v::tsc_duration_since(b, a, f))
}

pub fn dur(line: &str) -> String {
    let t = toks(line);
    let secs: u64 = t[0].parse().unwrap();
    let nanos: u32 = t[1].parse().unwrap();
    format!("ok {}", v::fine_duration_from(Duration::new(secs, nanos)))
}

/// `freq step`: precision measured under a virtual clock advancing `step`
/// ticks per read; prints the precision and the number of samples taken.
pub fn prec(line: &str) -> String {
    let t = toks(line);
    let f: u64 = t[0].parse().unwrap();
    let step: u64 = t[1].parse().unwrap();
    v::vclock_set(0);
    v::vclock_enable(f, step);
    let p = v::measure_precision_tsc(f);
    let reads = v::vclock_now() / step;
    v::vclock_disable();
    format!("some {} {}", p, reads / 2)
}
