use divan::__verif as v;
use std::time::Duration;

use crate::toks;

pub fn tsc(line: &str) -> String {
    let t = toks(line);
    let a: u64 = t[0].parse().unwrap();
    let b: u64 = t[1].parse().unwrap();
    let f: u64 = t[2].parse().unwrap();
    // duration from `a` (earlier) to `b` (later)
    format!("ok {}", v::tsc_duration_since(b, a, f))
}

pub fn dur(line: &str) -> String {
    let t = toks(line);
    let secs: u64 = t[0].parse().unwrap();
    let nanos: u32 = t[1].parse().unwrap();
    format!("ok {}", v::fine_duration_from(Duration::new(secs, nanos)))
}

/// `freq step`: precision measured under a virtual clock advancing `step`
/// ticks per read; prints the precision and the number of samples taken.
pub fn prec(line: &str) -> String {
    let t = toks(line);
    let f: u64 = t[0].parse().unwrap();
    let step: u64 = t[1].parse().unwrap();
    v::vclock_set(0);
    v::vclock_enable(f, step);
    let p = v::measure_precision_tsc(f);
    let reads = v::vclock_now() / step;
    v::vclock_disable();
    format!("some {} {}", p, reads / 2)
}

/// `K K K | freq step` (K = `T` TSC timer at `freq` under a virtual clock stepping `step`
/// ticks per read, `O` OS timer): the value `Timer::precision()` — the cached, reported
/// one — returns for each query, in order, in THIS process (run one process per case).
pub fn precq(line: &str) -> String {
    let (kinds, rest) = line.split_once('|').expect("precq");
    let t = toks(rest.trim());
    let f: u64 = t[0].parse().unwrap();
    let step: u64 = t[1].parse().unwrap();
    v::set_precision_override(None);
    v::vclock_set(0);
    v::vclock_enable(f, step);
    let mut out = String::from("ok");
    for k in kinds.split(' ').filter(|k| !k.is_empty()) {
        let p = if k == "T" { v::timer_precision(Some(f)) } else { v::timer_precision(None) };
        out.push_str(&format!(" {p}"));
    }
    v::vclock_disable();
    out
}

/// `a b f` through `Timestamp::duration_since` (the dispatcher).
pub fn tscd(line: &str) -> String {
    let t = toks(line);
    let a: u64 = t[0].parse().unwrap();
    let b: u64 = t[1].parse().unwrap();
    let f: u64 = t[2].parse().unwrap();
    format!("ok {}", v::timestamp_duration_since(b, a, f))
}

/// `a b f` through `RawSample::duration` (start = a, end = b).
pub fn tscs(line: &str) -> String {
    let t = toks(line);
    let a: u64 = t[0].parse().unwrap();
    let b: u64 = t[1].parse().unwrap();
    let f: u64 = t[2].parse().unwrap();
    format!("ok {}", v::raw_sample_duration(a, b, f))
}

fn dur_of_nanos(n: u128) -> std::time::Duration {
    std::time::Duration::new((n / 1_000_000_000) as u64, (n % 1_000_000_000) as u32)
}

/// `earlier later` (nanoseconds after a common base instant) through the OS arm
/// of `Timestamp::duration_since`.
pub fn osd(line: &str) -> String {
    let t = toks(line);
    let a: u128 = t[0].parse().unwrap();
    let b: u128 = t[1].parse().unwrap();
    match v::os_timestamp_duration_since(dur_of_nanos(b), dur_of_nanos(a)) {
        Some(p) => format!("ok {p}"),
        None => "unrepresentable".to_string(),
    }
}

/// `start end` through `RawSample::duration` on the OS timer.
pub fn oss(line: &str) -> String {
    let t = toks(line);
    let a: u128 = t[0].parse().unwrap();
    let b: u128 = t[1].parse().unwrap();
    match v::os_raw_sample_duration(dur_of_nanos(a), dur_of_nanos(b)) {
        Some(p) => format!("ok {p}"),
        None => "unrepresentable".to_string(),
    }
}

/// `secs nanos` as a `min_time`/`max_time` option read back through the
/// accessors the sampling loop uses (`BenchOptions::min_time()`/`max_time()`),
/// directly and after `overwrite` onto an empty layer (inheritance).
pub fn durl(line: &str) -> String {
    let t = toks(line);
    let d = std::time::Duration::new(t[0].parse().unwrap(), t[1].parse().unwrap());
    let mut o = divan::__private::BenchOptions::default();
    o.min_time = Some(d);
    o.max_time = Some(d);
    let (lo, hi) = v::options_time_limits(&o);
    let parent = divan::__private::BenchOptions::default();
    let merged = v::options_overwrite(&o, &parent);
    let (lo2, hi2) = v::options_time_limits(&merged);
    if lo == hi && lo == lo2 && lo == hi2 {
        format!("ok {lo}")
    } else {
        format!("differ min={lo} max={hi} inherited-min={lo2} inherited-max={hi2}")
    }
}

/// Unset limits: floor 0, ceiling unbounded.
pub fn durl_unset() -> String {
    let o = divan::__private::BenchOptions::default();
    let (lo, hi) = v::options_time_limits(&o);
    format!("{lo} {}", if hi == u128::MAX { "max".to_string() } else { hi.to_string() })
}
