//! Harness driving the real crate (built from /repo's working tree with
//! `--cfg divan_verif`). One mode per stream of the correspondence check:
//! reads one case per line on stdin, prints one canonical result line per case.

use std::io::{self, BufRead, Write};
use std::panic::{catch_unwind, AssertUnwindSafe};

use divan::__verif as v;

mod pure;

fn main() {
    let mode = std::env::args().nth(1).expect("mode");
    // Silence panic messages; panics are outcomes.
    std::panic::set_hook(Box::new(|_| {}));
    let stdin = io::stdin();
    let stdout = io::stdout();
    let mut out = io::BufWriter::new(stdout.lock());
    for line in stdin.lock().lines() {
        let line = line.expect("line");
        if line.is_empty() || line.starts_with('#') {
            continue;
        }
        let res = catch_unwind(AssertUnwindSafe(|| dispatch(&mode, &line)));
        match res {
            Ok(s) => writeln!(out, "{s}").unwrap(),
            Err(e) => {
                let msg = e
                    .downcast_ref::<String>()
                    .map(|s| s.as_str())
                    .or_else(|| e.downcast_ref::<&str>().copied())
                    .unwrap_or("?");
                writeln!(out, "panic {}", classify_panic(msg)).unwrap()
            }
        }
    }
}

fn classify_panic(msg: &str) -> &'static str {
    if msg.contains("divide by zero") {
        "DivByZero"
    } else if msg.contains("overflow") {
        "Overflow"
    } else if msg.contains("total order") {
        "NotTotalOrder"
    } else if msg.contains("None") {
        "UnwrapNone"
    } else if msg.contains("out of range") || msg.contains("out of bounds") {
        "OutOfBounds"
    } else {
        "Other"
    }
}

fn dispatch(mode: &str, line: &str) -> String {
    match mode {
        "tsc" => pure::tsc(line),
        "tscd" => pure::tscd(line),
        "tscs" => pure::tscs(line),
        "osd" => pure::osd(line),
        "durl" => pure::durl(line),
        "oss" => pure::oss(line),
        "dur" => pure::dur(line),
        "prec" => pure::prec(line),
        "precq" => pure::precq(line),
        _ => panic!("unknown mode {mode}"),
    }
}

pub fn toks(line: &str) -> Vec<&str> {
    line.split(' ').collect()
}

pub fn _unused() {
    let _ = v::thread_index();
}
