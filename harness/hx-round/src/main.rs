//! Harness for C08 (group `round`): runs real multi-threaded benchmarks of the
//! crate built from /repo's working tree with `--cfg divan_verif`, records the
//! global event log (barrier waits, tally clear/snapshot, virtual-clock reads,
//! user events from generator / benchmarked function / Drop impls), injects
//! schedule jitter and panics, and prints one canonical line per case:
//!
//!   <outcome> | <global log: thread.code ...> | <alloc info per sample>
//!
//! outcome: `ok`, `panic k` ("Divan benchmarking thread k panicked" reached the
//! caller), `panic-other ..`, or `hang` (watchdog; the run is abandoned).
use std::cell::Cell;
use std::sync::mpsc;
use std::sync::Arc;
use std::time::Duration;

use divan::__verif as v;

#[global_allocator]
static ALLOC: divan::AllocProfiler = divan::AllocProfiler::system();

const EV_GEN: u8 = v::ev::USER;
const EV_CALL: u8 = v::ev::USER + 1;
const EV_DROP_OUT: u8 = v::ev::USER + 2;
const EV_DROP_IN: u8 = v::ev::USER + 3;
const EV_PANIC: u8 = v::ev::USER + 4;

/// Bytes allocated (and leaked) by call k of thread t in round r; the same
/// formula is in ocaml/round.ml.
fn asize(t: u64, r: u64, k: u64) -> usize {
    (64 * (t + 1) + 8 * r + k + 1) as usize
}

#[derive(Clone, Debug)]
struct Case {
    threads: usize,
    sample_count: u32,
    n: u32,
    dout: bool,
    din: bool,
    path: char, // z: zero-sized types, v: by value, r: by reference
    seed: u64,
    jit: u32,
    slow: u64,
    skipext: bool,
    /// (thread, round, phase, k); phase g/c/o/i
    faults: Vec<(u64, u64, char, u64)>,
    hang_ms: u64,
    /// `Action::Test` instead of `Action::Bench` (one round of one call)
    test: bool,
    /// per round (cycling): one character per thread - what it does in each call of its timed
    /// section: '1' allocate (leak), 'b' allocate and free, 'f' free a block allocated before the
    /// run, 's' shrink a vector grown before the run, '0' nothing
    mask: Vec<Vec<u8>>,
    /// no explicit sample_size: the sampling loop tunes it (1, 2, 4, ...) until one sample
    /// outlasts 100 x the timer precision; every call costs `cost` virtual ticks
    tune: bool,
    cost: u64,
}

fn parse_case(line: &str) -> Case {
    let mut c = Case {
        threads: 2,
        sample_count: 2,
        n: 1,
        dout: false,
        din: false,
        path: 'v',
        seed: 1,
        jit: 0,
        slow: 0,
        skipext: false,
        faults: vec![],
        hang_ms: 4000,
        test: false,
        mask: vec![],
        tune: false,
        cost: 0,
    };
    for tok in line.split(' ') {
        let Some((k, val)) = tok.split_once('=') else { continue };
        match k {
            "T" => c.threads = val.parse().unwrap(),
            "S" => c.sample_count = val.parse().unwrap(),
            "n" => c.n = val.parse().unwrap(),
            "sh" => {
                c.dout = val.as_bytes()[0] == b'1';
                c.din = val.as_bytes()[1] == b'1';
            }
            "path" => c.path = val.chars().next().unwrap(),
            "seed" => c.seed = val.parse().unwrap(),
            "jit" => c.jit = val.parse().unwrap(),
            "slow" => c.slow = val.parse().unwrap(),
            "skipext" => c.skipext = val == "1",
            "hang_ms" => c.hang_ms = val.parse().unwrap(),
            "test" => c.test = val == "1",
            "tune" => c.tune = val == "1",
            "cost" => c.cost = val.parse().unwrap(),
            "mask" => c.mask = val.split(',').filter(|m| !m.is_empty()).map(|m| m.as_bytes().to_vec()).collect(),
            "fault" => {
                if val != "none" {
                    for f in val.split(',') {
                        let p: Vec<&str> = f.split(':').collect();
                        c.faults.push((
                            p[0].parse().unwrap(),
                            p[1].parse().unwrap(),
                            p[2].chars().next().unwrap(),
                            p[3].parse().unwrap(),
                        ));
                    }
                }
            }
            _ => {}
        }
    }
    c
}

thread_local! {
    static GEN_CNT: Cell<u64> = const { Cell::new(0) };
    static CALL_CNT: Cell<u64> = const { Cell::new(0) };
    static DOUT_CNT: Cell<u64> = const { Cell::new(0) };
    static DIN_CNT: Cell<u64> = const { Cell::new(0) };
}

fn bump(c: &'static std::thread::LocalKey<Cell<u64>>) -> u64 {
    c.with(|x| {
        let v = x.get();
        x.set(v + 1);
        v
    })
}

fn mix(mut z: u64) -> u64 {
    z = z.wrapping_add(0x9E3779B97F4A7C15);
    z = (z ^ (z >> 30)).wrapping_mul(0xBF58476D1CE4E5B9);
    z = (z ^ (z >> 27)).wrapping_mul(0x94D049BB133111EB);
    z ^ (z >> 31)
}

/// Shared by all user closures of a case.
struct Ctx {
    case: Case,
}

impl Ctx {
    /// Schedule perturbation at an instrumented point.
    fn jitter(&self, t: u64, phase: char, idx: u64) {
        let c = &self.case;
        if c.jit == 0 {
            return;
        }
        let h = mix(c.seed ^ mix(t * 1_000_003 + idx * 7919 + phase as u64));
        // designated slow thread: long sleep in one phase (chosen by jit)
        //   jit 2: in the generator, jit 3: in the benchmarked function, jit 4: in drops
        let slow_phase = match c.jit {
            2 => 'g',
            3 => 'c',
            4 => 'd',
            _ => '-',
        };
        let ph = if phase == 'o' || phase == 'i' { 'd' } else { phase };
        if t == c.slow && ph == slow_phase {
            std::thread::sleep(Duration::from_micros(1200 + h % 800));
            return;
        }
        match h % 8 {
            0 => std::thread::yield_now(),
            1 => std::thread::sleep(Duration::from_micros(20 + (h >> 8) % 200)),
            2 => {
                for _ in 0..((h >> 8) % 2000) {
                    std::hint::spin_loop();
                }
            }
            _ => {}
        }
    }

    fn maybe_panic(&self, t: u64, phase: char, idx: u64) -> bool {
        let n = self.case.n as u64;
        let (r, k) = (idx / n, idx % n);
        self.case.faults.iter().any(|&(ft, fr, fp, fk)| ft == t && fr == r && fp == phase && fk == k)
    }

    /// An instrumented point of user code: logs the event (or the injected
    /// panic in its place) and perturbs the schedule before and after.
    fn point(&self, kind: u8, phase: char, cnt: &'static std::thread::LocalKey<Cell<u64>>) -> (u64, u64) {
        let t = v::thread_index() as u64;
        let idx = bump(cnt);
        self.jitter(t, phase, idx);
        if self.maybe_panic(t, phase, idx) {
            v::log_event(EV_PANIC, idx, 0);
            panic!("injected panic thread {t} phase {phase} index {idx}");
        }
        v::log_event(kind, idx, 0);
        self.jitter(t, phase, idx + 1_000_000);
        (t, idx)
    }

    /// (round, index within the round) of a thread's idx-th generator call / benchmarked call.
    /// Tuned runs: sizes 1, 2, 4, ... doubling while size * cost + 1 ticks <= 100 x precision (1 tick).
    fn round_of(&self, idx: u64) -> (u64, u64) {
        if !self.case.tune {
            let n = self.case.n as u64;
            return (idx / n, idx % n);
        }
        let (mut r, mut size, mut start) = (0u64, 1u64, 0u64);
        loop {
            if idx < start + size {
                return (r, idx - start);
            }
            start += size;
            r += 1;
            if size * self.case.cost + 1 <= 100 {
                size *= 2;
            }
        }
    }

    /// What thread t does in the calls of round r.
    fn behaviour(&self, t: u64, r: u64) -> u8 {
        match self.case.mask.len() {
            0 => b'1',
            l => self.case.mask[(r as usize) % l].get(t as usize).copied().unwrap_or(b'0'),
        }
    }

    /// Untimed noise (must not show up in any sample).  A thread whose timed
    /// section only frees or shrinks stays free of allocations outside it too,
    /// so that nothing but `clear` resets its tally between two rounds.
    fn noise(&self, t: u64, r: u64, bytes: usize) {
        if !matches!(self.behaviour(t, r), b'f' | b's') {
            let b = vec![1u8; bytes];
            std::hint::black_box(&b);
        }
    }

    fn gen(&self) {
        let (t, idx) = self.point(EV_GEN, 'g', &GEN_CNT);
        self.noise(t, self.round_of(idx).0, 7777);
    }

    fn call(&self) {
        let (t, idx) = self.point(EV_CALL, 'c', &CALL_CNT);
        let (r, k) = self.round_of(idx);
        if self.case.tune {
            // the call budget is the watchdog of a tuning that does not end
            assert!(idx < 4096, "call budget exhausted: tuning does not end");
            v::vclock_advance(self.case.cost);
        }
        match self.behaviour(t, r) {
            b'1' => {
                let v = Vec::<u8>::with_capacity(asize(t, r, k));
                std::hint::black_box(&v);
                std::mem::forget(v);
            }
            b'b' => {
                let v = Vec::<u8>::with_capacity(asize(t, r, k));
                std::hint::black_box(&v);
                drop(v);
            }
            b'f' => {
                // free-only: a block the harness allocated on another thread before the run
                let b = FREE_POOL.lock().unwrap_or_else(|e| e.into_inner())[t as usize].pop();
                let b = b.expect("free pool exhausted");
                std::hint::black_box(&b);
                drop(b);
            }
            b's' => {
                // shrink-only: a vector grown before the run; realloc to half its capacity
                let v = SHRINK_POOL.lock().unwrap_or_else(|e| e.into_inner())[t as usize].pop();
                let mut v = v.expect("shrink pool exhausted");
                v.shrink_to_fit();
                std::hint::black_box(&v);
                std::mem::forget(v);
            }
            _ => {}
        }
    }

    fn drop_out(&self) {
        let (t, idx) = self.point(EV_DROP_OUT, 'o', &DOUT_CNT);
        self.noise(t, idx / self.case.n as u64, 3333);
    }

    fn drop_in(&self) {
        let (t, idx) = self.point(EV_DROP_IN, 'i', &DIN_CNT);
        self.noise(t, idx / self.case.n as u64, 3333);
    }
}

/// Bytes of the blocks freed by a free-only thread / shrunk off by a shrink-only thread
/// (same formulas in ocaml/round.ml).
fn fsize(t: u64) -> usize {
    (32 * (t + 1) + 5) as usize
}
fn ssize(t: u64) -> usize {
    (16 * (t + 1) + 3) as usize
}

static FREE_POOL: std::sync::Mutex<Vec<Vec<Box<[u8]>>>> = std::sync::Mutex::new(Vec::new());
static SHRINK_POOL: std::sync::Mutex<Vec<Vec<Vec<u8>>>> = std::sync::Mutex::new(Vec::new());

/// Pre-fills the per-thread pools on the harness thread (not a benchmark thread).
fn fill_pools(case: &Case) {
    let rounds = (case.sample_count as usize + case.threads - 1) / case.threads.max(1);
    let per_thread = (rounds + 1) * case.n as usize + 2;
    let uses = |c: u8| case.mask.iter().any(|m| m.contains(&c));
    let mut fp = Vec::new();
    let mut sp = Vec::new();
    for t in 0..case.threads as u64 {
        let mut f: Vec<Box<[u8]>> = Vec::new();
        let mut s: Vec<Vec<u8>> = Vec::new();
        if uses(b'f') {
            f.reserve(per_thread);
            for _ in 0..per_thread {
                f.push(vec![7u8; fsize(t)].into_boxed_slice());
            }
        }
        if uses(b's') {
            s.reserve(per_thread);
            for _ in 0..per_thread {
                let mut v = Vec::<u8>::with_capacity(2 * ssize(t));
                v.resize(ssize(t), 3);
                s.push(v);
            }
        }
        fp.push(f);
        sp.push(s);
    }
    *FREE_POOL.lock().unwrap_or_else(|e| e.into_inner()) = fp;
    *SHRINK_POOL.lock().unwrap_or_else(|e| e.into_inner()) = sp;
}

thread_local! {
    /// The context of the case running on this thread's pool (set through a
    /// process-wide slot because zero-sized values cannot carry a reference).
    static _UNUSED: Cell<u8> = const { Cell::new(0) };
}

static CTX: std::sync::RwLock<Option<Arc<Ctx>>> = std::sync::RwLock::new(None);

fn ctx() -> Arc<Ctx> {
    CTX.read().unwrap_or_else(|e| e.into_inner()).as_ref().expect("ctx").clone()
}

// Type shapes.  Zero-sized ones find the context through the global slot.
struct ZOut;
impl Drop for ZOut {
    fn drop(&mut self) {
        ctx_static().drop_out();
    }
}
struct ZIn;
impl Drop for ZIn {
    fn drop(&mut self) {
        ctx_static().drop_in();
    }
}
struct Out(u64);
impl Drop for Out {
    fn drop(&mut self) {
        std::hint::black_box(self.0);
        ctx_static().drop_out();
    }
}
struct In(u64);
impl Drop for In {
    fn drop(&mut self) {
        std::hint::black_box(self.0);
        ctx_static().drop_in();
    }
}

thread_local! {
    static CTX_TL: std::cell::RefCell<Option<Arc<Ctx>>> = const { std::cell::RefCell::new(None) };
}

/// Per-thread cached context (no lock, no allocation on the hot path).
fn ctx_static() -> Arc<Ctx> {
    CTX_TL.with(|c| {
        let mut c = c.borrow_mut();
        if c.is_none() {
            *c = Some(ctx());
        }
        c.as_ref().unwrap().clone()
    })
}

fn run_bench(case: &Case) -> v::RunDump {
    let mut options = divan::__private::BenchOptions::default();
    options.sample_count = Some(case.sample_count);
    // under Action::Test the options must be ignored: one call per thread (the case line says n=1)
    options.sample_size = if case.tune { None } else { Some(if case.test { 3 } else { case.n }) };
    options.skip_ext_time = Some(case.skipext);
    let cfg = v::RunConfig {
        options: &options,
        threads: case.threads,
        is_test: case.test,
        tsc_frequency: Some(1_000_000_000),
        compute_stats: false,
    };
    let g = || ctx_static().gen();
    let f = || ctx_static().call();
    match (case.path, case.dout, case.din) {
        // zero-sized input and output: the range-based loop
        ('z', false, false) => v::run_bencher(&cfg, &|b| b.with_inputs(|| g()).bench_values(|_: ()| f())),
        ('z', true, false) => v::run_bencher(&cfg, &|b| {
            b.with_inputs(|| g()).bench_values(|_: ()| {
                f();
                ZOut
            })
        }),
        ('z', false, true) => v::run_bencher(&cfg, &|b| {
            b.with_inputs(|| {
                g();
                ZIn
            })
            .bench_refs(|_: &mut ZIn| f())
        }),
        ('z', true, true) => v::run_bencher(&cfg, &|b| {
            b.with_inputs(|| {
                g();
                ZIn
            })
            .bench_refs(|_: &mut ZIn| {
                f();
                ZOut
            })
        }),
        // sized types
        (_, false, false) => v::run_bencher(&cfg, &|b| {
            b.with_inputs(|| {
                g();
                7u64
            })
            .bench_values(|x: u64| {
                f();
                x + 1
            })
        }),
        (_, true, false) => v::run_bencher(&cfg, &|b| {
            b.with_inputs(|| {
                g();
                7u64
            })
            .bench_values(|x: u64| {
                f();
                Out(x)
            })
        }),
        (_, false, true) => v::run_bencher(&cfg, &|b| {
            b.with_inputs(|| {
                g();
                In(7)
            })
            .bench_refs(|x: &mut In| {
                f();
                x.0 + 1
            })
        }),
        (_, true, true) => v::run_bencher(&cfg, &|b| {
            b.with_inputs(|| {
                g();
                In(7)
            })
            .bench_refs(|x: &mut In| {
                f();
                Out(x.0)
            })
        }),
    }
}

fn code(e: &v::Event) -> String {
    let w = |a: u64| match a {
        1 => 1,
        2 => 2,
        _ => 3,
    };
    match e.kind {
        v::ev::CLOCK_START => "s".into(),
        v::ev::CLOCK_END => "e".into(),
        // a = 3: a wait performed by the SampleBarrier guard while unwinding (hook H5)
        v::ev::BARRIER_ARRIVE if e.a == 3 => "ga".into(),
        v::ev::BARRIER_LEAVE if e.a == 3 => "gl".into(),
        v::ev::BARRIER_ARRIVE => format!("a{}", w(e.a)),
        v::ev::BARRIER_LEAVE => format!("l{}", w(e.a)),
        v::ev::TALLY_CLEAR => "C".into(),
        v::ev::TALLY_SNAPSHOT => "S".into(),
        EV_GEN => "g".into(),
        EV_CALL => "c".into(),
        EV_DROP_OUT => "o".into(),
        EV_DROP_IN => "i".into(),
        EV_PANIC => "P".into(),
        k => format!("?{k}"),
    }
}

fn run(line: &str) -> String {
    let case = parse_case(line);
    *CTX.write().unwrap_or_else(|e| e.into_inner()) = Some(Arc::new(Ctx { case: case.clone() }));
    fill_pools(&case);
    v::set_overhead_override(Some([0; 4]));
    v::set_precision_override(Some(1000));
    v::vclock_enable(1_000_000_000, 1);
    let _ = v::log_take();
    v::log_reserve(1 << 16);
    v::log_enable(true);

    let (tx, rx) = mpsc::channel();
    let c2 = case.clone();
    // The caller of the benchmark is a fresh thread, so that a hang can be
    // abandoned and thread-local counters start at zero.
    let _ = std::thread::Builder::new().name("caller".into()).spawn(move || {
        let res = std::panic::catch_unwind(std::panic::AssertUnwindSafe(|| run_bench(&c2)));
        let _ = tx.send(res.map_err(|e| hxlib::panic_msg(&e).to_string()));
    });
    // Watchdog.  After several hangs in this process (only a broken barrier
    // protocol gets there) later cases are given less time.
    static HANGS: std::sync::atomic::AtomicU32 = std::sync::atomic::AtomicU32::new(0);
    let budget = if HANGS.load(std::sync::atomic::Ordering::Relaxed) >= 5 { case.hang_ms.min(800) } else { case.hang_ms };
    let res = rx.recv_timeout(Duration::from_millis(budget));
    if res.is_err() {
        HANGS.fetch_add(1, std::sync::atomic::Ordering::Relaxed);
    }
    v::log_enable(false);
    let mut log = v::log_take();
    log.sort_by_key(|e| e.seq);
    if !case.skipext {
        // `initial_start` of bench_loop_threaded: one clock read on the caller before the first round
        if let Some(first) = log.first() {
            if first.thread == 0 && first.kind == v::ev::CLOCK_START {
                log.remove(0);
            }
        }
    }
    let logs: Vec<String> = log.iter().map(|e| format!("{}.{}", e.thread, code(e))).collect();
    let (outcome, allocs) = match res {
        Err(_) => ("hang".to_string(), String::new()),
        Ok(Err(msg)) => {
            let o = match msg.strip_prefix("Divan benchmarking thread ").and_then(|s| s.strip_suffix(" panicked")) {
                Some(k) => format!("panic {k}"),
                None => format!("panic-other {}", msg.replace(['|', '\t', '\n'], " ")),
            };
            (o, String::new())
        }
        Ok(Ok(dump)) => {
            let t = case.threads as u32;
            let a: Vec<String> = dump
                .alloc_infos
                .iter()
                .map(|(i, info)| {
                    let tl = &info.tallies; // [grow, shrink, alloc, dealloc]
                    format!(
                        "{}.{}:{},{},{},{},{},{},{},{}",
                        i / t,
                        i % t,
                        tl[2].0,
                        tl[2].1,
                        tl[3].0,
                        tl[3].1,
                        tl[0].0,
                        tl[0].1,
                        tl[1].0,
                        tl[1].1
                    )
                })
                .collect();
            ("ok".to_string(), a.join(" "))
        }
    };
    format!("{} | {} | {}", outcome, logs.join(" "), allocs)
}

/// Runs one `#[divan::bench]` function of the real-macro binary `hx-round-e2e` (next to this
/// executable) in a subprocess: `bench=<name> T=<threads> S=<sample count> n=<sample size> slow=<thread>`.
/// Prints `<outcome> | <global log> |` (the first clock read of the caller, `initial_start`, removed).
fn run_e2e(line: &str) -> String {
    let mut bench = "extern_c";
    let (mut t, mut s, mut n, mut slow, mut hang_ms) = ("2", "2", "1", "-1", 20000u64);
    for tok in line.split(' ') {
        let Some((k, val)) = tok.split_once('=') else { continue };
        match k {
            "bench" => bench = val,
            "T" => t = val,
            "S" => s = val,
            "n" => n = val,
            "slow" => slow = val,
            "hang_ms" => hang_ms = val.parse().unwrap(),
            _ => {}
        }
    }
    let exe = std::env::current_exe().expect("exe").with_file_name("hx-round-e2e");
    let mut child = std::process::Command::new(exe)
        .arg(format!("hx_round_e2e::{bench}"))
        .args(["--exact", "--bench"])
        .args(["--sample-count", s, "--sample-size", n, "--threads", t])
        .args(["--timer", "tsc", "--color", "never"])
        .env("HX_SLOW", slow)
        .stdin(std::process::Stdio::null())
        .stdout(std::process::Stdio::piped())
        .stderr(std::process::Stdio::null())
        .spawn()
        .expect("spawn hx-round-e2e");
    // watchdog
    let start = std::time::Instant::now();
    loop {
        match child.try_wait() {
            Ok(Some(_)) => break,
            Ok(None) if start.elapsed() > Duration::from_millis(hang_ms) => {
                let _ = child.kill();
                let _ = child.wait();
                return "hang |  | ".to_string();
            }
            Ok(None) => std::thread::sleep(Duration::from_millis(5)),
            Err(e) => return format!("panic-other wait {e} |  | "),
        }
    }
    let out = child.wait_with_output().expect("output");
    let text = String::from_utf8_lossy(&out.stdout);
    let Some(logline) = text.lines().find_map(|l| l.strip_prefix("HXLOG")) else {
        return format!("panic-other exit {:?} |  | ", out.status.code());
    };
    let mut toks: Vec<&str> = logline.split(' ').filter(|x| !x.is_empty()).collect();
    if toks.first() == Some(&"0.s") {
        toks.remove(0);
    }
    format!("ok | {} | ", toks.join(" "))
}

fn dispatch(mode: &str, line: &str) -> String {
    match mode {
        "run" => run(line),
        "e2e" => run_e2e(line),
        _ => panic!("unknown mode {mode}"),
    }
}

fn main() {
    hxlib::run(dispatch);
}
