//! Real-macro binary of group `round` (C08): `#[divan::bench]` functions whose
//! outputs have drop glue, declared with the Rust ABI and with `extern "C"` /
//! `extern "system"` (the attribute macro wraps those in a Rust-ABI closure),
//! run with several threads through the real `Divan::from_args().main()` under
//! the TSC timer on the virtual clock.  One benchmark per process (spawned by
//! `hx-round e2e`).  Every call and every drop of an output is written to the
//! hook event log; after the run the global log is printed on one `HXLOG`
//! line in the token format of `hx-round` (`thread.code`).
use std::time::Duration;

use divan::__verif as v;

#[global_allocator]
static ALLOC: divan::AllocProfiler = divan::AllocProfiler::system();

const EV_CALL: u8 = v::ev::USER + 1;
const EV_DROP_OUT: u8 = v::ev::USER + 2;

/// Output with drop glue (and a heap allocation, so that it is not zero-sized).
pub struct Out(Box<u64>);

impl Drop for Out {
    fn drop(&mut self) {
        std::hint::black_box(&self.0);
        v::log_event(EV_DROP_OUT, 0, 0);
    }
}

/// Zero-sized output with drop glue.
pub struct ZOut;

impl Drop for ZOut {
    fn drop(&mut self) {
        v::log_event(EV_DROP_OUT, 0, 0);
    }
}

/// The benchmarked work; the thread named by HX_SLOW takes about a millisecond per call,
/// so that the other threads are done with their calls while it is still being timed.
fn work() {
    v::log_event(EV_CALL, 0, 0);
    v::vclock_advance(3);
    let slow: i64 = std::env::var("HX_SLOW").ok().and_then(|s| s.parse().ok()).unwrap_or(-1);
    if slow == v::thread_index() as i64 {
        std::thread::sleep(Duration::from_micros(900));
    }
}

#[divan::bench]
fn rust_abi() -> Out {
    work();
    Out(Box::new(1))
}

#[divan::bench]
extern "C" fn extern_c() -> Out {
    work();
    Out(Box::new(2))
}

#[divan::bench]
extern "system" fn extern_system() -> Out {
    work();
    Out(Box::new(3))
}

#[divan::bench]
extern "C" fn extern_c_zst() -> ZOut {
    work();
    ZOut
}

#[divan::bench]
fn rust_abi_zst() -> ZOut {
    work();
    ZOut
}

fn code(e: &v::Event) -> String {
    let w = |a: u64| match a {
        1 => 1,
        2 => 2,
        _ => 3,
    };
    match e.kind {
        v::ev::CLOCK_START => "s".into(),
        v::ev::CLOCK_END => "e".into(),
        v::ev::BARRIER_ARRIVE if e.a == 3 => "ga".into(),
        v::ev::BARRIER_LEAVE if e.a == 3 => "gl".into(),
        v::ev::BARRIER_ARRIVE => format!("a{}", w(e.a)),
        v::ev::BARRIER_LEAVE => format!("l{}", w(e.a)),
        v::ev::TALLY_CLEAR => "C".into(),
        v::ev::TALLY_SNAPSHOT => "S".into(),
        EV_CALL => "c".into(),
        EV_DROP_OUT => "o".into(),
        k => format!("?{k}"),
    }
}

fn main() {
    v::set_precision_override(Some(1000));
    v::set_overhead_override(Some([0; 4]));
    v::log_take();
    v::log_reserve(1 << 16);
    v::vclock_set(0);
    v::vclock_enable(1_000_000_000, 1);
    v::log_enable(true);

    divan::Divan::from_args().main();

    v::log_enable(false);
    let mut log = v::log_take();
    log.sort_by_key(|e| e.seq);
    let toks: Vec<String> = log.iter().map(|e| format!("{}.{}", e.thread, code(e))).collect();
    println!("HXLOG {}", toks.join(" "));
}
