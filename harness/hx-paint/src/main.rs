//! Harness for C20 (the printed tree).  Built from /repo's working tree with
//! `--cfg divan_verif`.
//!
//! `hx-paint tree` reads one case per line, runs every case in its own child
//! process (this same binary with `HX_PAINT_SPEC` set and divan's CLI
//! arguments as argv), captures the child's stdout and prints one line per
//! case:  `ok <E(stdout)> @@ <E(run records)>`  (or `crash ...` / `timeout`).
//!
//! The child builds a synthetic registry from the case (the `BenchEntry` /
//! `GroupEntry` values the attribute macros would generate), pushes it into
//! `divan::__private::{BENCH_ENTRIES, GROUP_ENTRIES}`, switches the virtual
//! clock on and calls `divan::main()`.  After `main` returns it prints, for
//! every call of a benchmark function in order, the statistics cells it
//! expects from its own record of the run (`stats_from_samples` + the crate's
//! formatters).
use std::alloc::{GlobalAlloc, Layout, System};
use std::io::{BufRead, Read, Write};
use std::sync::atomic::{AtomicBool, AtomicU64, Ordering};
use std::sync::{LazyLock, Mutex, OnceLock};

use divan::__private as dp;
use divan::__verif as v;

mod mac;
mod tables;

// ---------------------------------------------------------------------------
// Switchable allocation profiler
// ---------------------------------------------------------------------------

static PROFILE: AtomicBool = AtomicBool::new(false);
static PROFILER: divan::AllocProfiler = divan::AllocProfiler::system();

struct Switch;

unsafe impl GlobalAlloc for Switch {
    unsafe fn alloc(&self, l: Layout) -> *mut u8 {
        if PROFILE.load(Ordering::Relaxed) { PROFILER.alloc(l) } else { System.alloc(l) }
    }
    unsafe fn dealloc(&self, p: *mut u8, l: Layout) {
        if PROFILE.load(Ordering::Relaxed) { PROFILER.dealloc(p, l) } else { System.dealloc(p, l) }
    }
    unsafe fn alloc_zeroed(&self, l: Layout) -> *mut u8 {
        if PROFILE.load(Ordering::Relaxed) { PROFILER.alloc_zeroed(l) } else { System.alloc_zeroed(l) }
    }
    unsafe fn realloc(&self, p: *mut u8, l: Layout, n: usize) -> *mut u8 {
        if PROFILE.load(Ordering::Relaxed) { PROFILER.realloc(p, l, n) } else { System.realloc(p, l, n) }
    }
}

#[global_allocator]
static GLOBAL: Switch = Switch;

// ---------------------------------------------------------------------------
// Case syntax
// ---------------------------------------------------------------------------

fn pct_decode(tok: &str) -> String {
    let b = tok.as_bytes();
    assert!(b[0] == b'~', "name token {tok}");
    let mut out = Vec::new();
    let mut i = 1;
    while i < b.len() {
        if b[i] == b'%' {
            out.push(u8::from_str_radix(&tok[i + 1..i + 3], 16).unwrap());
            i += 3;
        } else {
            out.push(b[i]);
            i += 1;
        }
    }
    String::from_utf8(out).unwrap()
}

/// Escapes a text so that it has no space, newline or tab.
fn esc(s: &str) -> String {
    let mut o = String::with_capacity(s.len() + 8);
    for c in s.chars() {
        match c {
            '\\' => o.push_str("\\\\"),
            '\n' => o.push_str("\\n"),
            '\t' => o.push_str("\\t"),
            '\r' => o.push_str("\\r"),
            ' ' => o.push_str("\\s"),
            ',' => o.push_str("\\c"),
            ';' => o.push_str("\\m"),
            ':' => o.push_str("\\o"),
            '/' => o.push_str("\\f"),
            '|' => o.push_str("\\p"),
            '@' => o.push_str("\\a"),
            c => o.push(c),
        }
    }
    o
}

#[derive(Clone, Debug, Default)]
struct BenchSpec {
    id: u64,
    name: String,
    sc: String,
    ign: bool,
    /// `ignore = false` set explicitly (opting back in below an ignored group).
    ign_false: bool,
    args: Option<Vec<String>>,
    threads: Option<Vec<usize>>,
    did_run: bool,
    seed: u64,
    lo: u64,
    span: u64,
    counters: [Option<u64>; 3], // bytes, chars, items
    alloc: usize,
    /// `Some(t)`: only the calls whose cost offset is `t` allocate (so that any subset of the
    /// fastest / slowest / median samples can be the allocating ones); `None`: every call does.
    alloc_only: Option<u64>,
    /// `Some((kind, base))`: an input counter (kind 0 bytes, 1 chars, 2 items) whose count differs
    /// between samples: `base + 3 * cost offset` for the call's input.
    vary: Option<(usize, u64)>,
    module_path: String,
    line: u32,
}

#[derive(Clone, Debug, Default)]
struct GroupSpec {
    name: String,
    raw: String,
    sc: String,
    /// the group sets `ignore = true`
    ign: bool,
    module_path: String,
    line: u32,
}

#[derive(Default)]
struct Spec {
    action: String,
    profile: bool,
    benches: Vec<BenchSpec>,
    groups: Vec<GroupSpec>,
    /// The registry is the macro-generated fixture of `mac.rs` (the tree in the case describes it);
    /// nothing synthetic is registered.
    mac: bool,
    /// `Some(cfg)`: the explicit entry point for the action (`run_benches` / `test_benches` /
    /// `list_benches`) is called on a `Divan` configured by `--bench` (b), `--test` (t),
    /// `--list` (l) or no action flag (n); `None`: `main()` with the action's own flag.
    entry: Option<char>,
    /// How the order is requested: `None` = `--sort location`; `r` = `--sortr location`;
    /// `R` = `DIVAN_SORTR=location`; `e` = `DIVAN_SORT=location` (no flag).
    sort: Option<char>,
    /// Bytes format set by `--bytes-format`, by `DIVAN_BYTES_FORMAT`, by the builder before
    /// `config_with_args()` and by the builder after it: `Some(true)` = binary.
    fmt: [Option<bool>; 4],
    /// `--threads`
    cli_threads: Option<Vec<usize>>,
    /// `--exact`?
    exact: bool,
    /// (inclusive?, filter text): positional filters and `--skip` filters.
    filters: Vec<(bool, String)>,
}

struct Toks<'a> {
    t: Vec<&'a str>,
    i: usize,
}
impl Spec {
    /// The format that should be in force: builder after parsing > flag > environment >
    /// builder before parsing > decimal.
    fn binary(&self) -> bool {
        self.fmt[3].or(self.fmt[0]).or(self.fmt[1]).or(self.fmt[2]).unwrap_or(false)
    }
}

impl<'a> Toks<'a> {
    fn next(&mut self) -> &'a str {
        let x = self.t[self.i];
        self.i += 1;
        x
    }
}

fn parse_node(t: &mut Toks, path: &str, spec: &mut Spec, line: &mut u32) {
    let kind = t.next();
    *line += 1;
    match kind {
        "G" => {
            let name = pct_decode(t.next());
            let sc_tok = t.next();
            let g_ign = sc_tok.ends_with('!');
            let sc = sc_tok.trim_end_matches('!').to_string();
            let n: usize = t.next().parse().unwrap();
            // Without a GroupEntry the path component is the display name
            // itself; with one, a unique raw name.
            let raw = if sc == "-" { name.clone() } else { format!("g{}", *line) };
            let my_line = *line;
            let sub = if path.is_empty() { raw.clone() } else { format!("{path}::{raw}") };
            if sc != "-" {
                spec.groups.push(GroupSpec { name, raw, sc, ign: g_ign, module_path: path.to_string(), line: my_line });
            }
            for _ in 0..n {
                parse_node(t, &sub, spec, line);
            }
        }
        "B" => {
            let id: u64 = t.next().parse().unwrap();
            let name = pct_decode(t.next());
            let sc = t.next().to_string();
            let ign_tok = t.next();
            let ign = ign_tok == "1";
            let ign_false = ign_tok == "f";
            let a = t.next();
            let args = if a == "P" {
                None
            } else {
                let k: usize = a[1..].parse().unwrap();
                Some((0..k).map(|_| pct_decode(t.next())).collect())
            };
            let th = t.next();
            let threads = if th == "-" { None } else { Some(parse_threads(th)) };
            let beh: Vec<&str> = t.next().split(':').collect();
            let mut counters = [None; 3];
            if beh[4] != "-" {
                for c in beh[4].split('+') {
                    let k = match &c[..1] { "b" => 0, "c" => 1, "i" => 2, _ => panic!("counter") };
                    counters[k] = Some(c[1..].parse().unwrap());
                }
            }
            spec.benches.push(BenchSpec {
                id, name, sc, ign, ign_false, args, threads,
                did_run: beh[0] == "1",
                seed: beh[1].parse().unwrap(),
                lo: beh[2].parse().unwrap(),
                span: beh[3].parse().unwrap(),
                counters,
                alloc: beh[5].parse().unwrap(),
                alloc_only: beh.iter().skip(6).find(|x| x.starts_with('o')).map(|x| x[1..].parse().unwrap()),
                vary: beh.iter().skip(6).find(|x| x.starts_with('v')).map(|x| {
                    (match &x[1..2] { "b" => 0, "c" => 1, _ => 2 }, x[2..].parse().unwrap())
                }),
                module_path: path.to_string(),
                line: *line,
            });
        }
        k => panic!("node kind {k}"),
    }
}

/// The machine's parallelism, what `0` resolves to.
fn par() -> usize {
    std::thread::available_parallelism().map(|x| x.get()).unwrap_or(1)
}

/// Raw thread list as written in the case: unsorted, repeats and `0` allowed;
/// `P` stands for the machine's parallelism.
fn parse_threads(th: &str) -> Vec<usize> {
    th.split(',').map(|x| if x == "P" { par() } else { x.parse().unwrap() }).collect()
}

fn parse_case(case: &str) -> Spec {
    let mut t = Toks { t: case.split(' ').collect(), i: 0 };
    let mut spec = Spec::default();
    spec.action = t.next().to_string();
    spec.profile = t.next() == "p1";
    assert_eq!(t.next(), "N");
    let n: usize = t.next().parse().unwrap();
    let mut line = 0;
    for _ in 0..n {
        parse_node(&mut t, "", &mut spec, &mut line);
    }
    assert!(spec.benches.len() + spec.groups.len() <= tables::N, "too many entries");
    if t.i < t.t.len() && t.t[t.i] == "M" {
        t.next();
        spec.mac = true;
    }
    if t.i < t.t.len() && t.t[t.i] == "E" {
        t.next();
        spec.entry = t.next().chars().next();
    }
    if t.i < t.t.len() && t.t[t.i] == "S" {
        t.next();
        spec.sort = t.next().chars().next();
    }
    // optional: `F <flag>:<env>:<builder before parse>:<builder after parse>`, each `-`, `d` or `b`
    if t.i < t.t.len() && t.t[t.i] == "F" {
        t.next();
        let f: Vec<&str> = t.next().split(':').collect();
        for k in 0..4 {
            spec.fmt[k] = match f[k] { "b" => Some(true), "d" => Some(false), _ => None };
        }
    }
    // optional: `T <list>` (`--threads` on the command line)
    if t.i < t.t.len() && t.t[t.i] == "T" {
        t.next();
        spec.cli_threads = Some(parse_threads(t.next()));
    }
    // optional: `X <e|r> <k> <+|-><name token>...` (filters passed on the command line);
    // a following `D ...` section (what they remove, for the model) is not read here.
    if t.i < t.t.len() && t.t[t.i] == "X" {
        t.next();
        spec.exact = t.next() == "e";
        let k: usize = t.next().parse().unwrap();
        for _ in 0..k {
            let f = t.next();
            spec.filters.push((&f[..1] == "+", pct_decode(&f[1..])));
        }
    }
    spec
}

// ---------------------------------------------------------------------------
// Child: synthetic registry
// ---------------------------------------------------------------------------

static SPEC: OnceLock<Spec> = OnceLock::new();
static ARGS: [dp::BenchArgs; tables::N] = [const { dp::BenchArgs::new() }; tables::N];

struct RunRec {
    bench: usize,
    arg: Option<usize>,
    calls: &'static AtomicU64,
    did_run: bool,
}
static RUNS: Mutex<Vec<RunRec>> = Mutex::new(Vec::new());

fn cost_offset(b: &BenchSpec, i: u64) -> u64 {
    (i.wrapping_mul(7919).wrapping_add(b.seed)) % b.span.max(1)
}

fn cost(b: &BenchSpec, i: u64) -> u64 {
    b.lo + cost_offset(b, i)
}

/// The count the varying input counter reports for the input of call `i`.
fn vary_count(b: &BenchSpec, base: u64, i: u64) -> u64 {
    base + 3 * cost_offset(b, i)
}

/// Does call `i` allocate?
fn allocates(b: &BenchSpec, i: u64) -> bool {
    b.alloc > 0 && b.alloc_only.map_or(true, |t| cost_offset(b, i) == t)
}

fn run_entry(k: usize, arg: Option<usize>, bencher: divan::Bencher) {
    let b = &SPEC.get().unwrap().benches[k];
    let calls: &'static AtomicU64 = Box::leak(Box::new(AtomicU64::new(0)));
    RUNS.lock().unwrap().push(RunRec { bench: k, arg, calls, did_run: b.did_run });
    if !b.did_run {
        return;
    }
    let alloc = b.alloc;
    let body = move |i: u64| {
        v::vclock_advance(cost(b, i));
        if allocates(b, i) {
            divan::black_box(Vec::<u8>::with_capacity(alloc));
        }
    };
    match b.vary {
        None => bencher.bench(move || body(calls.fetch_add(1, Ordering::Relaxed))),
        // the input is the call index, so the cost and the count of a sample go together
        Some((kind, base)) => {
            let with = bencher.with_inputs(move || calls.fetch_add(1, Ordering::Relaxed));
            match kind {
                0 => with.input_counter(move |&i: &u64| divan::counter::BytesCount::new(vary_count(b, base, i))).bench_values(body),
                1 => with.input_counter(move |&i: &u64| divan::counter::CharsCount::new(vary_count(b, base, i))).bench_values(body),
                _ => with.input_counter(move |&i: &u64| divan::counter::ItemsCount::new(vary_count(b, base, i))).bench_values(body),
            }
        }
    }
}

/// Body of the macro-generated fixture benchmarks: behaves like the entry with this id in the case.
pub fn fixture(id: u64, arg: Option<usize>, bencher: divan::Bencher) {
    let Some(spec) = SPEC.get() else { return };
    if let Some(k) = spec.benches.iter().position(|b| b.id == id) {
        run_entry(k, arg, bencher)
    }
}

pub fn plain<const K: usize>(bencher: divan::Bencher) {
    run_entry(K, None, bencher)
}

#[derive(Clone, Copy)]
struct ArgItem {
    idx: usize,
    name: &'static str,
}

pub fn mk_args<const K: usize>() -> dp::BenchEntryRunner {
    dp::BenchEntryRunner::Args(|| {
        ARGS[K].runner(
            || -> Vec<ArgItem> {
                let b = &SPEC.get().unwrap().benches[K];
                b.args
                    .as_ref()
                    .unwrap()
                    .iter()
                    .enumerate()
                    .map(|(idx, n)| ArgItem { idx, name: Box::leak(n.clone().into_boxed_str()) })
                    .collect()
            },
            |a: &ArgItem| a.name.to_string(),
            |bencher: divan::Bencher, a: &ArgItem| run_entry(K, Some(a.idx), bencher),
        )
    })
}

fn sc_of(sc: &str) -> Option<u32> {
    match sc {
        "d" | "o" | "-" => None,
        k => Some(k.parse().unwrap()),
    }
}

/// Index < number of benches: options of that bench; otherwise of group
/// `index - benches`.
pub fn opts<const K: usize>() -> dp::BenchOptions<'static> {
    let spec = SPEC.get().unwrap();
    let mut o = dp::BenchOptions::default();
    if K < spec.benches.len() {
        let b = &spec.benches[K];
        o.sample_count = sc_of(&b.sc);
        if b.ign {
            o.ignore = Some(true);
        }
        if b.ign_false {
            o.ignore = Some(false);
        }
        if let Some(t) = &b.threads {
            o.threads = Some(std::borrow::Cow::Owned(t.clone()));
        }
        let mut cs = dp::new_counter_set();
        if let Some(n) = b.counters[0] {
            cs = cs.with(divan::counter::BytesCount::new(n));
        }
        if let Some(n) = b.counters[1] {
            cs = cs.with(divan::counter::CharsCount::new(n));
        }
        if let Some(n) = b.counters[2] {
            cs = cs.with(divan::counter::ItemsCount::new(n));
        }
        o.counters = cs;
    } else {
        let g = &spec.groups[K - spec.benches.len()];
        o.sample_count = sc_of(&g.sc);
        if g.ign {
            o.ignore = Some(true);
        }
    }
    o
}

fn leak(s: &str) -> &'static str {
    Box::leak(s.to_string().into_boxed_str())
}

fn register(spec: &'static Spec) {
    for (k, b) in spec.benches.iter().enumerate() {
        let meta = dp::EntryMeta {
            display_name: leak(&b.name),
            // as the macro does: the function's identifier (a benchmark function and a sibling
            // module may share it)
            raw_name: leak(&b.name),
            module_path: leak(&b.module_path),
            location: dp::EntryLocation { file: "spec.rs", line: b.line, col: 1 },
            bench_options: if b.sc == "-" { None } else { Some(LazyLock::new(tables::OPTS[k])) },
        };
        let bench = if b.args.is_some() { tables::ARGS_RUNNER[k]() } else { dp::BenchEntryRunner::Plain(tables::PLAIN[k]) };
        let entry: &'static dp::BenchEntry = Box::leak(Box::new(dp::BenchEntry { meta, bench }));
        let node: &'static dp::EntryList<dp::BenchEntry> = Box::leak(Box::new(dp::EntryList::new(entry)));
        dp::BENCH_ENTRIES.push(node);
    }
    for (k, g) in spec.groups.iter().enumerate() {
        let meta = dp::EntryMeta {
            display_name: leak(&g.name),
            raw_name: leak(&g.raw),
            module_path: leak(&g.module_path),
            location: dp::EntryLocation { file: "spec.rs", line: g.line, col: 1 },
            bench_options: if g.sc == "o" { None } else { Some(LazyLock::new(tables::OPTS[spec.benches.len() + k])) },
        };
        let entry: &'static dp::GroupEntry = Box::leak(Box::new(dp::GroupEntry { meta, generic_benches: None }));
        let node: &'static dp::EntryList<dp::GroupEntry> = Box::leak(Box::new(dp::EntryList::new(entry)));
        dp::GROUP_ENTRIES.push(node);
    }
}

const FREQ: u64 = 1_000_000_000_000;

fn cells(v: &[String]) -> String {
    v.iter().map(|s| esc(s)).collect::<Vec<_>>().join(",")
}

/// The rows `TreePainter::finish_leaf` is expected to be given for this run,
/// from the harness's own record: `time;counters(4 rows);max(0|2 rows);tallies`.
fn expected_cells(b: &BenchSpec, n: u64, profile: bool, binary: bool) -> String {
    let durations: Vec<u128> = (0..n).map(|i| v::tsc_duration_since(cost(b, i), 0, FREQ)).collect();
    let mut counts: [Vec<u64>; 4] = Default::default();
    // KnownCounterKind::ALL = [bytes, chars, cycles, items]
    if let Some(c) = b.counters[0] { counts[0] = vec![c]; }
    if let Some(c) = b.counters[1] { counts[1] = vec![c]; }
    if let Some(c) = b.counters[2] { counts[3] = vec![c]; }
    let infos: Vec<(u32, v::PlainAllocInfo)> = if profile && b.alloc > 0 {
        (0..n as u32)
            .filter(|&i| allocates(b, i as u64))
            .map(|i| {
                let a = b.alloc as u64;
                // [grow, shrink, alloc, dealloc]
                (i, v::PlainAllocInfo { tallies: [(0, 0), (0, 0), (1, a), (1, a)], current_count: 0, max_count: 1, current_size: 0, max_size: a as i64 })
            })
            .collect()
    } else {
        Vec::new()
    };
    let mut uses_input = [false; 4];
    if let Some((kind, base)) = b.vary {
        let idx = [0usize, 1, 3][kind];
        counts[idx] = (0..n).map(|i| vary_count(b, base, i)).collect();
        uses_input[idx] = true;
    }
    let st = v::stats_from_samples(1, &durations, &infos, &counts, uses_input);
    let set4 = |s: &v::PlainStatsSet<u128>| [s.fastest, s.slowest, s.median, s.mean];
    let t = set4(&st.time);
    let mut rows: Vec<String> = Vec::new();
    let mut time: Vec<String> = t.iter().map(|&p| v::fmt_duration(p)).collect();
    time.push(st.sample_count.to_string());
    time.push(st.iter_count.to_string());
    rows.push(cells(&time));
    for kind in 0..4 {
        let row: Vec<String> = match &st.counts[kind] {
            Some(c) => {
                let cs = [c.fastest, c.slowest, c.median, c.mean];
                let mut r: Vec<String> = (0..4).map(|j| v::display_throughput(kind as u8, cs[j], t[j], binary)).collect();
                r.push(String::new());
                r.push(String::new());
                r
            }
            None => vec![String::new(); 6],
        };
        rows.push(cells(&row));
    }
    let f4 = |s: &v::PlainStatsSet<f64>| [s.fastest, s.slowest, s.median, s.mean];
    let is_zero = |s: &v::PlainStatsSet<f64>| f4(s).iter().all(|&x| x == 0.0);
    let count_row = |s: &v::PlainStatsSet<f64>| -> Vec<String> {
        let mut r: Vec<String> = f4(s).iter().enumerate().map(|(j, &x)| format!("{}{}", if j == 0 { "  " } else { "" }, v::format_f64(x, 4))).collect();
        r.push(String::new());
        r.push(String::new());
        r
    };
    let size_row = |s: &v::PlainStatsSet<f64>| -> Vec<String> {
        let mut r: Vec<String> = f4(s).iter().enumerate().map(|(j, &x)| format!("{}{}", if j == 0 { "  " } else { "" }, v::format_bytes(x, 4, binary))).collect();
        r.push(String::new());
        r.push(String::new());
        r
    };
    let mut out = rows.join(";");
    out.push('|');
    if !is_zero(&st.max_alloc_size) {
        out.push_str(&cells(&count_row(&st.max_alloc_count)));
        out.push(';');
        out.push_str(&cells(&size_row(&st.max_alloc_size)));
    }
    out.push('|');
    // printing order: alloc, dealloc, grow, shrink = indices 2, 3, 0, 1
    let mut ts: Vec<String> = Vec::new();
    for (idx, name) in [(2usize, "alloc:"), (3, "dealloc:"), (0, "grow:"), (1, "shrink:")] {
        let (c, s) = &st.alloc_tallies[idx];
        if is_zero(c) && is_zero(s) {
            continue;
        }
        ts.push(format!("{};{};{}", esc(name), cells(&count_row(c)), cells(&size_row(s))));
    }
    out.push_str(&ts.join("/"));
    out
}

fn child_main(case: &str) {
    let spec: &'static Spec = {
        SPEC.set(parse_case(case)).ok().unwrap();
        SPEC.get().unwrap()
    };
    if !spec.mac {
        register(spec);
    }
    v::vclock_enable(FREQ, 0);
    v::set_precision_override(Some(1));
    v::set_overhead_override(Some([0; 4]));
    if spec.profile {
        PROFILE.store(true, Ordering::SeqCst);
    }
    let bf = |b: bool| if b { divan::counter::BytesFormat::Binary } else { divan::counter::BytesFormat::Decimal };
    let mut d = divan::Divan::default();
    if let Some(b) = spec.fmt[2] {
        d = d.bytes_format(bf(b));
    }
    d = d.config_with_args();
    if let Some(b) = spec.fmt[3] {
        d = d.bytes_format(bf(b));
    }
    match (spec.entry, spec.action.as_str()) {
        (None, _) => d.main(),
        (Some(_), "bench") => d.run_benches(),
        (Some(_), "test") => d.test_benches(),
        (Some(_), _) => d.list_benches(),
    }
    PROFILE.store(false, Ordering::SeqCst);
    std::io::stdout().flush().unwrap();
    let runs = RUNS.lock().unwrap();
    let mut recs: Vec<String> = Vec::new();
    for r in runs.iter() {
        let b = &spec.benches[r.bench];
        let n = r.calls.load(Ordering::SeqCst);
        let arg = r.arg.map(|a| a.to_string()).unwrap_or("-".into());
        let body = if r.did_run && spec.action == "bench" { expected_cells(b, n, spec.profile, spec.binary()) } else { String::from("-") };
        recs.push(format!("{}:{}:{}:{}:{}", b.id, arg, r.did_run as u8, n, body));
    }
    // on its own line, after the tree
    println!("\u{1e}RUNS P={} {}", par(), recs.join(" "));
}

// ---------------------------------------------------------------------------
// Parent: one child process per case, in parallel, with a watchdog
// ---------------------------------------------------------------------------

fn run_case(case: &str) -> String {
    let exe = std::env::current_exe().unwrap();
    let action = case.split(' ').next().unwrap_or("");
    let mut cmd = std::process::Command::new(exe);
    let spec = match std::panic::catch_unwind(|| parse_case(case)) {
        Ok(s) => s,
        Err(_) => return "crash bad-case".into(),
    };
    // the configured action: the flag of the action itself, or what the `E` section says
    let cfg = spec.entry.unwrap_or(match action {
        "bench" => 'b',
        "test" => 't',
        "list" => 'l',
        _ => return "crash bad-action".into(),
    });
    match cfg {
        'b' => { cmd.arg("--bench"); }
        't' => { cmd.arg("--test"); }
        'l' => { cmd.arg("--list"); }
        _ => {}
    }
    if action == "bench" {
        cmd.args(["--timer", "tsc", "--sample-size", "1"]);
    }
    match spec.sort {
        None => { cmd.args(["--sort", "location"]); }
        Some('r') => { cmd.args(["--sortr", "location"]); }
        _ => {}
    }
    // the macro-generated fixture is always linked in: synthetic cases filter it out
    if !spec.mac {
        if spec.exact {
            for p in mac::LEAF_PATHS {
                cmd.arg(format!("--skip={p}"));
            }
        } else {
            cmd.arg("--skip=^hx_paint::mac::");
        }
    }
    let name = |b: bool| if b { "binary" } else { "decimal" };
    if let Some(b) = spec.fmt[0] {
        cmd.arg(format!("--bytes-format={}", name(b)));
    }
    if let Some(t) = &spec.cli_threads {
        if action != "list" {
            cmd.arg(format!("--threads={}", t.iter().map(|x| x.to_string()).collect::<Vec<_>>().join(",")));
        }
    }
    if spec.exact {
        cmd.arg("--exact");
    }
    for (inc, f) in &spec.filters {
        if !*inc {
            cmd.arg(format!("--skip={f}"));
        }
    }
    if spec.filters.iter().any(|(inc, _)| *inc) {
        cmd.arg("--");
        for (inc, f) in &spec.filters {
            if *inc {
                cmd.arg(f);
            }
        }
    }
    cmd.env("HX_PAINT_SPEC", case);
    cmd.env_remove("NEXTEST");
    for k in ["DIVAN_THREADS", "DIVAN_SAMPLE_COUNT", "DIVAN_SAMPLE_SIZE", "DIVAN_MIN_TIME", "DIVAN_MAX_TIME", "DIVAN_BYTES_FORMAT",
              "DIVAN_ITEMS_COUNT", "DIVAN_BYTES_COUNT", "DIVAN_CHARS_COUNT", "DIVAN_CYCLES_COUNT", "DIVAN_SKIP_EXT_TIME", "DIVAN_TIMER", "DIVAN_COLOR", "DIVAN_SORT", "DIVAN_SORTR"] {
        cmd.env_remove(k);
    }
    if let Some(b) = spec.fmt[1] {
        cmd.env("DIVAN_BYTES_FORMAT", name(b));
    }
    match spec.sort {
        Some('R') => { cmd.env("DIVAN_SORTR", "location"); }
        Some('e') => { cmd.env("DIVAN_SORT", "location"); }
        _ => {}
    }
    cmd.stdin(std::process::Stdio::null()).stdout(std::process::Stdio::piped()).stderr(std::process::Stdio::null());
    let mut child = match cmd.spawn() {
        Ok(c) => c,
        Err(e) => return format!("crash spawn:{e}"),
    };
    let mut so = child.stdout.take().unwrap();
    let reader = std::thread::spawn(move || {
        let mut buf = Vec::new();
        let _ = so.read_to_end(&mut buf);
        buf
    });
    let t0 = std::time::Instant::now();
    let status = loop {
        match child.try_wait() {
            Ok(Some(s)) => break Some(s),
            Ok(None) => {
                if t0.elapsed().as_secs() >= 60 {
                    let _ = child.kill();
                    let _ = child.wait();
                    break None;
                }
                std::thread::sleep(std::time::Duration::from_millis(2));
            }
            Err(_) => break None,
        }
    };
    let buf = reader.join().unwrap_or_default();
    let text = String::from_utf8_lossy(&buf).to_string();
    let Some(status) = status else { return "timeout".into() };
    let (tree, runs) = match text.find("\u{1e}RUNS ") {
        Some(i) => (&text[..i], text[i + "\u{1e}RUNS ".len()..].trim_end_matches('\n')),
        None => (&text[..], "?"),
    };
    if !status.success() {
        return format!("crash rc={:?} {} @@ {}", status.code(), esc(tree), runs);
    }
    format!("ok {} @@ {}", esc(tree), runs)
}

fn main() {
    if let Ok(case) = std::env::var("HX_PAINT_SPEC") {
        child_main(&case);
        return;
    }
    let mode = std::env::args().nth(1).expect("mode");
    assert!(mode == "tree", "unknown mode {mode}");
    let cases: Vec<String> = std::io::stdin().lock().lines().map(|l| l.unwrap()).filter(|l| !l.is_empty() && !l.starts_with('#')).collect();
    let n = cases.len();
    let results: Vec<Mutex<Option<String>>> = (0..n).map(|_| Mutex::new(None)).collect();
    let next = AtomicU64::new(0);
    let workers = std::thread::available_parallelism().map(|x| x.get()).unwrap_or(4).min(16);
    std::thread::scope(|s| {
        for _ in 0..workers {
            s.spawn(|| loop {
                let i = next.fetch_add(1, Ordering::SeqCst) as usize;
                if i >= n {
                    break;
                }
                let r = run_case(&cases[i]);
                *results[i].lock().unwrap() = Some(r);
            });
        }
    });
    let stdout = std::io::stdout();
    let mut out = std::io::BufWriter::new(stdout.lock());
    for r in &results {
        writeln!(out, "{}", r.lock().unwrap().take().unwrap_or_else(|| "crash lost".into())).unwrap();
    }
    out.flush().unwrap();
}
