//! End-to-end harness for C07's "no leaked workers" clause at divan's public
//! surface: a benchmark with `threads = [2, 5]` is run in-process through
//! `Divan::default().test_benches()` and `.run_benches()` (each run creates and
//! owns its own `ThreadPool`); afterwards no `divan-*` thread may remain.
//!
//! Mode `c07leak` (parent): one case per line, `runs=test,bench[,...]`; spawns
//! this binary again in mode `leak-child` (the runs print their report on
//! stdout) and prints the child's last line: `survivors=<n> seen=<max divan
//! threads observed> runs=<k>`, or `crash …`.

use std::io::Read;
use std::process::{Command, Stdio};
use std::time::{Duration, Instant};

/// Most `divan-*` threads seen from inside a benchmarked call.
static SEEN: std::sync::atomic::AtomicUsize = std::sync::atomic::AtomicUsize::new(0);

#[divan::bench(threads = [2, 5], sample_count = 2, sample_size = 1)]
fn work() -> u64 {
    SEEN.fetch_max(divan_threads(), std::sync::atomic::Ordering::Relaxed);
    divan::black_box(17u64).wrapping_mul(31)
}

/// Case flags of the child (the benches below are inert unless set).
static NOISY: std::sync::atomic::AtomicBool = std::sync::atomic::AtomicBool::new(false);
static BOOM: std::sync::atomic::AtomicBool = std::sync::atomic::AtomicBool::new(false);

/// User code that writes to stdout from every thread of the benchmark.
#[divan::bench(threads = [2, 3], sample_count = 1, sample_size = 1)]
fn noisy() {
    if NOISY.load(std::sync::atomic::Ordering::Relaxed) {
        println!("noise from {:?}", std::thread::current().name());
    }
}

/// User code that panics on a pooled thread.
#[divan::bench(threads = [2], sample_count = 1, sample_size = 1)]
fn boom() {
    if BOOM.load(std::sync::atomic::Ordering::Relaxed)
        && std::thread::current().name().map_or(false, |n| n.starts_with("divan-"))
    {
        panic!("boom on a pooled thread");
    }
}

#[divan::bench(threads = [1, 3], sample_count = 1, sample_size = 1)]
fn other() -> u64 {
    divan::black_box(5u64) + 1
}

/// Number of threads of this process whose name starts with `divan-`.
fn divan_threads() -> usize {
    let mut n = 0;
    if let Ok(dir) = std::fs::read_dir("/proc/self/task") {
        for e in dir.flatten() {
            if let Ok(comm) = std::fs::read_to_string(e.path().join("comm")) {
                if comm.trim_end().starts_with("divan-") {
                    n += 1;
                }
            }
        }
    }
    n
}

fn wait_for_exit() -> usize {
    let t0 = Instant::now();
    let mut left = divan_threads();
    while left > 0 && t0.elapsed() < Duration::from_secs(10) {
        std::thread::sleep(Duration::from_millis(20));
        left = divan_threads();
    }
    left
}

fn child(runs: &str, flags: &str) {
    NOISY.store(flags.contains("noisy"), std::sync::atomic::Ordering::Relaxed);
    BOOM.store(flags.contains("boom"), std::sync::atomic::Ordering::Relaxed);
    let mut k = 0;
    for r in runs.split(',').filter(|r| !r.is_empty()) {
        let d = divan::Divan::default();
        match r {
            "test" => d.test_benches(),
            "bench" => d.run_benches(),
            _ => panic!("bad run {r}"),
        }
        k += 1;
        // The workers exit asynchronously once their channel is closed: poll, bounded,
        // after every run, so that the census taken inside the next run's calls
        // (`seen`) does not depend on how fast the previous run's workers wind down.
        wait_for_exit();
    }
    let left = wait_for_exit();
    let seen = SEEN.load(std::sync::atomic::Ordering::Relaxed);
    println!("\nsurvivors={left} runs={k} seen={seen}");
}

fn dispatch(mode: &str, line: &str) -> String {
    match mode {
        "c07leak" => {
            let runs = line
                .split(' ')
                .find_map(|t| t.strip_prefix("runs="))
                .unwrap_or("test,bench")
                .to_string();
            // `noisy=1`: user code prints to stdout on every thread; `boom=1`:
            // user code panics on a pooled thread
            let mut flags = String::new();
            for t in line.split(' ') {
                if t == "noisy=1" {
                    flags.push_str("noisy,");
                }
                if t == "boom=1" {
                    flags.push_str("boom,");
                }
            }
            // a run that does not finish is a hang (no benchmark here takes a millisecond)
            let limit = Duration::from_secs(if flags.is_empty() { 60 } else { 15 });
            let exe = std::env::current_exe().expect("exe");
            let mut ch = Command::new(exe)
                .arg("leak-child")
                .arg(&runs)
                .arg(&flags)
                .stdin(Stdio::null())
                .stdout(Stdio::piped())
                .stderr(Stdio::null())
                .spawn()
                .expect("spawn child");
            let mut out = String::new();
            let mut so = ch.stdout.take().unwrap();
            // watchdog: the child itself is bounded (10 s of polling)
            let h = std::thread::spawn(move || {
                let _ = so.read_to_string(&mut out);
                out
            });
            let t0 = Instant::now();
            let status = loop {
                match ch.try_wait() {
                    Ok(Some(s)) => break Some(s),
                    Ok(None) if t0.elapsed() > limit => {
                        let _ = ch.kill();
                        let _ = ch.wait();
                        break None;
                    }
                    Ok(None) => std::thread::sleep(Duration::from_millis(10)),
                    Err(_) => break None,
                }
            };
            let out = h.join().unwrap_or_default();
            let last = out.lines().rev().find(|l| l.starts_with("survivors=")).map(|l| l.to_string());
            use std::os::unix::process::ExitStatusExt;
            match (status, last) {
                (Some(s), Some(l)) if s.success() => l,
                // the user's panic ended the process the ordinary way (reported, exit code 101)
                (Some(s), _) if s.code() == Some(101) => "panic-reported exit=101".to_string(),
                (Some(s), _) if s.signal().is_some() => format!("killed signal={}", s.signal().unwrap()),
                (Some(s), _) => format!("crash status={s}"),
                (None, _) => "hang".to_string(),
            }
        }
        _ => panic!("unknown mode {mode}"),
    }
}

fn main() {
    let args: Vec<String> = std::env::args().collect();
    if args.get(1).map(|s| s.as_str()) == Some("leak-child") {
        child(
            args.get(2).map(|s| s.as_str()).unwrap_or("test,bench"),
            args.get(3).map(|s| s.as_str()).unwrap_or(""),
        );
        return;
    }
    hxlib::run(dispatch);
}
